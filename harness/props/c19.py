"""C19 — exact-arithmetic helpers and number types compute what they claim."""
from __future__ import annotations

import cmath
import itertools
import json
import math
import warnings
from fractions import Fraction

from ..core import Failure, Prop, Stream


def poly_sx(terms):
    return "(" + " ".join(f"({int(e)} {int(c)})" for e, c in terms) + ")"


def rpoly(rng, maxlen=4, maxe=5, maxc=3):
    exps = sorted(rng.sample(range(maxe + 1), rng.randint(0, maxlen)))
    return [[e, rng.choice([c for c in range(-maxc, maxc + 1) if c])] for e in exps]


def P(terms):
    from pymbolic import var
    from pymbolic.polynomial import Polynomial
    return Polynomial(var("x"), tuple((int(e), int(c)) for e, c in terms))


def peval(terms, x):
    return sum(c * x ** e for e, c in terms)


class Arith(Stream):
    """integer_power, extended_euclidean, gcd, lcm, find_factors: model vs code + direct oracles"""
    name = "integer-arith"

    def cases(self, rng, tier):
        big = tier != "quick"
        for x in range(-3, 4):
            for n in range(-2, 65 if big else 33):
                yield {"what": "intpow", "a": x, "b": n}
        rng2 = rng
        span = range(-50, 51) if big else range(-20, 21)
        for q in span:
            for r in span:
                yield {"what": "euclid", "a": q, "b": r}
                if (q + r) % 3 == 0:
                    yield {"what": "lcm", "a": q, "b": r}
        for _ in range(300 if not big else 5000):
            q = rng2.choice([0, 1, -1, rng2.randint(-10**6, 10**6), rng2.randint(-10**18, 10**18)])
            r = rng2.choice([0, q, -q, rng2.randint(-10**6, 10**6), rng2.randint(-10**18, 10**18)])
            yield {"what": "euclid", "a": q, "b": r}
            yield {"what": "lcm", "a": q, "b": r}
        for n in range(0, 200 if not big else 2000):
            yield {"what": "findfactors", "a": n, "b": 0}

    def request(self, pl):
        w = pl["what"]
        if w == "findfactors":
            return f"(algo-findfactors {pl['a']})"
        return f"(algo-{w} {pl['a']} {pl['b']})"

    def run_impl(self, pl):
        from pymbolic import algorithm as al
        w, a, b = pl["what"], pl["a"], pl["b"]
        try:
            if w == "intpow":
                return str(al.integer_power(a, b))
            if w == "euclid":
                return "(" + " ".join(str(v) for v in al.extended_euclidean(a, b)) + ")"
            if w == "lcm":
                return str(al.lcm(a, b))
            n1, n2 = al.find_factors(a)
            return f"({n1} {n2})"
        except (RuntimeError, ZeroDivisionError) as ex:
            return type(ex).__name__

    def oracle(self, pl):
        from pymbolic import algorithm as al
        w, a, b = pl["what"], pl["a"], pl["b"]
        if w == "intpow":
            if b < 0:
                try:
                    al.integer_power(a, b)
                except RuntimeError:
                    return None
                return Failure("intpow-negative-accepted", f"integer_power({a},{b}) did not raise", pl)
            got = al.integer_power(a, b)
            if got != a ** b:
                return Failure("intpow", f"integer_power({a},{b}) = {got}", pl)
        elif w == "euclid":
            g, s, t = al.extended_euclidean(a, b)
            if g != s * a + t * b or abs(g) != math.gcd(a, b):
                return Failure("euclid", f"extended_euclidean({a},{b}) = {(g, s, t)}", pl)
        elif w == "lcm":
            if a == 0 and b == 0:
                return None
            got = al.lcm(a, b)
            if abs(got) != math.lcm(a, b):
                return Failure("lcm", f"lcm({a},{b}) = {got}", pl)
        else:
            if a == 0:
                return None
            n1, n2 = al.find_factors(a)
            if n1 * n2 != a:
                return Failure("find-factors", f"find_factors({a}) = {(n1, n2)}", pl)
        return None

    def nontrivial_key(self, pl, model, impl):
        return f"{pl['what']} {pl['a']} {pl['b']}"

    def stats(self, pl, mo, io, acc):
        acc[pl["what"]] = acc.get(pl["what"], 0) + 1


class Polys(Stream):
    """sparse polynomial arithmetic and evaluation: model vs code, homomorphism oracle"""
    name = "polynomials"

    def cases(self, rng, tier):
        n = 800 if tier == "quick" else 15000
        for i in range(n):
            p, q = rpoly(rng), rpoly(rng)
            op = ["add", "sub", "mul", "divmod", "pow", "horner", "sortuniq"][i % 7]
            if op == "sortuniq":
                p = [[rng.randint(0, 4), rng.randint(-2, 2)] for _ in range(rng.randint(0, 8))]
            yield {"op": op, "p": p, "q": q, "n": rng.randint(0, 5), "x": rng.randint(-4, 4)}
        # products with cancelling middle terms (three or more equal exponents)
        fixed = [([[0, 1], [1, 1], [2, 1]], [[0, 1], [1, -1], [2, 1]]),
                 ([[0, -1], [1, -1], [2, 1]], [[0, -1], [1, 1], [2, -1], [3, 1]]),
                 ([[0, 1], [1, -1]], [[0, 1], [1, 1], [2, 1], [3, 1]])]
        for p, q in fixed:
            yield {"op": "mul", "p": p, "q": q, "n": 0, "x": 2}
            yield {"op": "pow", "p": p, "q": q, "n": 4, "x": 2}
        # exact arithmetic has no word size: coefficients around 2**31 / 2**53 / 2**63 / 2**64 (and
        # beyond), dense integer polynomials, and powers whose coefficients outgrow 64 bits
        edges = [2**31 - 1, 2**31, 2**32 + 1, 2**53 + 1, 2**62, 2**63 - 1, 2**63, 2**64 + 3, 10**10,
                 10**19, 10**30 + 7]
        for _ in range(60 if tier == "quick" else 1500):
            def big():
                c = rng.choice(edges) + rng.randint(-2, 2)
                return c if rng.random() < 0.6 else -c
            dense = rng.random() < 0.7
            def bpoly(k):
                exps = list(range(k)) if dense else sorted(rng.sample(range(0, 9), k))
                return [[e, big() if rng.random() < 0.5 else rng.randint(1, 9)] for e in exps]
            pp, qq = bpoly(rng.randint(1, 4)), bpoly(rng.randint(1, 4))
            yield {"op": rng.choice(["mul", "mul", "add", "sub", "divmod"]), "p": pp, "q": qq, "n": 0,
                   "x": rng.randint(-3, 3), "big": True}
        for n, base in [(67, [[0, 1], [1, 1]]), (40, [[0, 1], [1, 3]]), (33, [[0, -1], [1, 2], [2, 1]]),
                        (2, [[0, 1], [1, 10**10]]), (3, [[0, 2**21], [1, 2**21 + 1]]),
                        (5, [[0, 2**13], [1, -2**13], [2, 1]])]:
            yield {"op": "pow", "p": base, "q": base, "n": n, "x": 1, "big": True}
        # a divisor with a STORED zero leading coefficient (`poly * 0` produces such data): the
        # division by it happens inside the loop, i.e. only when deg(self) >= deg(other)
        for _ in range(40 if tier == "quick" else 400):
            p, q = rpoly(rng), rpoly(rng)
            if q:
                q = q[:-1] + [[q[-1][0], 0]]
                yield {"op": "divmod", "p": p, "q": q, "n": 0, "x": 0, "zero_lead": True}

    def request(self, pl):
        op = pl["op"]
        if op in ("add", "sub", "mul", "divmod"):
            return f"(algo-poly {op} {poly_sx(pl['p'])} {poly_sx(pl['q'])})"
        if op == "pow":
            return f"(algo-polypow {poly_sx(pl['p'])} {pl['n']})"
        if op == "horner":
            return f"(algo-horner {poly_sx(pl['p'])} {pl['x']})"
        return f"(algo-sortuniq {poly_sx(pl['p'])})"

    def _compute(self, pl):
        from pymbolic.mapper.evaluator import EvaluationMapper
        from pymbolic.polynomial import _sort_uniq
        op = pl["op"]
        if op == "sortuniq":
            return _sort_uniq([tuple(t) for t in pl["p"]])
        a, b = P(pl["p"]), P(pl["q"])
        if op == "add":
            return (a + b).data
        if op == "sub":
            return (a - b).data
        if op == "mul":
            return (a * b).data
        if op == "divmod":
            qq, rr = divmod(a, b)
            return (qq.data, rr.data)
        if op == "pow":
            return (a ** pl["n"]).data
        return EvaluationMapper({"x": pl["x"]})(a)

    def run_impl(self, pl):
        try:
            r = self._compute(pl)
        except (ZeroDivisionError, IndexError) as ex:
            return type(ex).__name__
        if pl["op"] == "horner":
            return str(r)
        if pl["op"] == "divmod":
            return f"({poly_sx(r[0])} {poly_sx(r[1])})"
        return poly_sx(r)

    def oracle(self, pl):
        op = pl["op"]
        try:
            r = self._compute(pl)
        except ZeroDivisionError:
            if op == "divmod" and (not pl["q"] or pl["q"][-1][1] == 0):
                return None
            return Failure("poly-raises", f"{op} raised ZeroDivisionError", pl)
        except Exception as ex:
            return Failure("poly-raises", f"{op} raised {ex!r}", pl)
        for x in (-3, -1, 0, 1, 2, Fraction(1, 2)):
            vp, vq = peval(pl["p"], x), peval(pl["q"], x)
            if op == "horner":
                want, got = peval(pl["p"], pl["x"]), r
            elif op == "divmod":
                want, got = vp, peval(r[0], x) * vq + peval(r[1], x)
            else:
                want = {"add": vp + vq, "sub": vp - vq, "mul": vp * vq, "pow": vp ** pl["n"],
                        "sortuniq": vp}[op]
                got = peval(r, x)
            if want != got:
                return Failure(f"poly-{op}", f"{op} on {pl['p']} {pl['q']}: value {got} vs {want} at x={x}", pl)
        if op in ("mul", "add", "sub", "pow", "sortuniq"):
            exps = [e for e, _ in r]
            if exps != sorted(set(exps)):
                return Failure(f"poly-{op}-unsorted", f"result exponents {exps}", pl)
        return None

    def nontrivial_key(self, pl, model, impl):
        return f"{pl['op']} {pl['p']} {pl['q']} {pl['n']} {pl['x']}" if pl["p"] else None

    def stats(self, pl, mo, io, acc):
        acc[pl["op"]] = acc.get(pl["op"], 0) + 1


class Runtime(Stream):
    """parts with no exact model (oracle only): FFT vs the O(n^2) DFT, inverse FFT, symbolic FFT,
    integer_power on matrices, mapper traversal of polynomials, the exact quotient node"""
    name = "runtime-oracles"
    has_model = False

    def cases(self, rng, tier):
        maxn = 24 if tier == "quick" else 64
        for n in range(1, maxn + 1):
            yield {"what": "fft", "n": n, "seed": rng.randint(0, 10**6)}
        for n in list(range(1, 13)) + [15, 16, 21]:
            for kind in ("float", "int"):
                yield {"what": "fft", "n": n, "seed": rng.randint(0, 10**6), "dtype": kind}
        for n in ([97, 128] if tier == "quick" else [97, 128, 210, 360, 509]):
            yield {"what": "fft", "n": n, "seed": rng.randint(0, 10**6)}
        for n in (1, 2, 3, 4, 6, 8):
            yield {"what": "symfft", "n": n, "seed": rng.randint(0, 10**6)}
        for kind in ("wrapper", "inplace", "matrix", "ndarray", "ndarray-default-one"):
            for n in range(0, 21 if tier == "quick" else 70):
                yield {"what": "matpow", "kind": kind, "n": n, "seed": rng.randint(0, 10**6)}
        for _ in range(60 if tier == "quick" else 600):
            yield {"what": "polymap", "n": 0, "seed": rng.randint(0, 10**6)}
        for a in range(-6, 7):
            for b in range(-6, 7):
                if b:
                    yield {"what": "quotient", "n": a, "seed": b}

    def run_impl(self, pl):
        return "(oracle-only)"

    def oracle(self, pl):
        import random

        import numpy as np
        rng = random.Random(pl["seed"])
        w = pl["what"]
        warnings.simplefilter("ignore")
        from pymbolic import algorithm as al
        if w == "fft":
            n = pl["n"]
            kind = pl.get("dtype", "complex")
            if kind == "float":        # real input, complex transform
                x = np.array([rng.uniform(-1, 1) for _ in range(n)], dtype=np.float64)
            elif kind == "int":
                x = np.array([rng.randint(-9, 9) for _ in range(n)], dtype=np.int64)
            else:
                x = np.array([complex(rng.uniform(-1, 1), rng.uniform(-1, 1)) for _ in range(n)])
            got = al.fft(x, complex_dtype=np.complex128)
            want = [sum(cmath.exp(-2j * math.pi * k * j / n) * x[j] for j in range(n))
                    for k in range(n)]
            err = max(abs(g - w_) for g, w_ in zip(got, want))
            if not err < 1e-9 * max(1, n):
                return Failure("fft-vs-dft", f"n={n}: max error {err}", pl)
            back = al.ifft(got, complex_dtype=np.complex128)
            err = max(abs(g - w_) for g, w_ in zip(back, x))
            if not err < 1e-9 * max(1, n):
                return Failure("ifft-inverts", f"n={n}: max error {err}", pl)
        elif w == "symfft":
            from pymbolic import evaluate, var
            n = pl["n"]
            vs = np.array([var(f"v{i}") for i in range(n)], dtype=object)
            sym = al.sym_fft(vs)
            vals = {f"v{i}": complex(rng.uniform(-1, 1), rng.uniform(-1, 1)) for i in range(n)}
            got = [evaluate(s, vals) for s in sym]
            want = [sum(cmath.exp(-2j * math.pi * k * j / n) * vals[f"v{j}"] for j in range(n))
                    for k in range(n)]
            err = max(abs(g - w_) for g, w_ in zip(got, want))
            if not err < 1e-9 * max(1, n):
                return Failure("symfft-vs-dft", f"n={n}: max error {err}", pl)
        elif w == "matpow":
            # integer_power in monoids whose elements are MUTABLE objects: the routine may use `*`
            # and `*=` as it likes, but the value must be x multiplied by itself n times (computed
            # here from pristine copies), whatever the operand's type does for `*=`
            base = [[rng.randint(-2, 2) for _ in range(3)] for _ in range(3)]
            kind = pl.get("kind", "wrapper")
            n = pl["n"]

            def fresh():
                return np.array(base, dtype=object)

            class M:                      # `*` only (immutable style): `*=` falls back to `*`
                def __init__(self, a):
                    self.a = a

                def __mul__(self, o):
                    return type(self)(self.a.dot(o.a))

            class MI(M):                  # in-place `*=` (mutates the left operand, returns it)
                def __imul__(self, o):
                    self.a = self.a.dot(o.a)
                    return self

            eye = np.eye(3, dtype=int).astype(object)
            if kind in ("wrapper", "inplace"):
                cls = M if kind == "wrapper" else MI
                got = al.integer_power(cls(fresh()), n, one=cls(eye.copy())).a
                want = eye.copy()
                for _ in range(n):
                    want = want.dot(fresh())
            elif kind == "matrix":
                got = np.asarray(al.integer_power(np.matrix(fresh()), n, one=np.matrix(eye.copy())))
                want = eye.copy()
                for _ in range(n):
                    want = want.dot(fresh())
            elif kind == "ndarray":       # elementwise product, `*=` in place
                got = al.integer_power(fresh(), n, one=np.ones((3, 3), dtype=object))
                want = np.ones((3, 3), dtype=object)
                for _ in range(n):
                    want = want * fresh()
            else:                         # "ndarray-default-one": `one` left at its default 1
                if n == 0:
                    return None
                got = al.integer_power(fresh(), n)
                want = np.ones((3, 3), dtype=object)
                for _ in range(n):
                    want = want * fresh()
            if not (np.asarray(got) == want).all():
                return Failure("matpow", f"integer_power on a mutable operand ({kind}), n={n}: "
                               f"{np.asarray(got).tolist()} instead of {want.tolist()}", pl)
        elif w == "polymap":
            from pymbolic import evaluate, var
            from pymbolic.mapper.substitutor import substitute
            from pymbolic.polynomial import Polynomial
            a, b = var("a"), var("b")
            coeff_pool = [a, b, a * b, a + 1, 2, 3 * b, a - b]
            exps = sorted(rng.sample(range(6), rng.randint(1, 4)))
            terms = tuple((e, rng.choice(coeff_pool)) for e in exps)
            p = Polynomial(var("x"), terms)
            env = {"x": rng.randint(-3, 3), "a": rng.randint(-3, 3), "b": rng.randint(-3, 3)}
            want = sum(evaluate(c, env) * env["x"] ** e for e, c in terms)
            try:
                got = evaluate(p, env)
            except Exception as ex:
                return Failure("poly-evaluate-raises", repr(ex), pl)
            if got != want:
                return Failure("poly-evaluate", f"{terms} at {env}: {got} vs {want}", pl)
            sub = {a: rng.randint(-2, 2) * var("c") + 1}
            env2 = dict(env, c=rng.randint(-2, 2))
            try:
                mapped = substitute(p, sub)
                got = evaluate(mapped, env2)
            except Exception as ex:
                return Failure("poly-mapped-raises", repr(ex), pl)
            aval = evaluate(sub[a], env2)
            want = sum(evaluate(c, dict(env2, a=aval)) * env["x"] ** e for e, c in terms)
            if got != want:
                return Failure("poly-mapped-value", f"{terms} after {sub}: {got} vs {want}", pl)
        elif w == "quotient":
            from pymbolic import evaluate
            from pymbolic.primitives import quotient
            num, den = pl["n"], pl["seed"]
            try:
                got = evaluate(quotient(num, den))
            except Exception as ex:
                return Failure("quotient-raises", repr(ex), pl)
            if abs(got - num / den) > 1e-12:
                return Failure("quotient-value", f"quotient({num},{den}) evaluates to {got}", pl)
        return None

    def nontrivial_key(self, pl, model, impl):
        return f"{pl['what']} {pl['n']} {pl['seed']}"

    def stats(self, pl, mo, io, acc):
        acc[pl["what"]] = acc.get(pl["what"], 0) + 1


# ---------------------------------------------------------------------------------------------
# Exact FFT: the REAL `fft` / `ifft` driven over Z_p through a `custom_np` stand-in
# ---------------------------------------------------------------------------------------------

class _InexactScalar(Exception):
    pass


class _BadTwiddle(Exception):
    pass


class Zp:
    """element of Z_p with exact arithmetic (`+`, `*` with Zp, Python ints, and float scalars
    that are small exact rationals: the `1/len(x)` of `ifft`)"""
    __slots__ = ("v", "p")

    def __init__(self, v, p):
        self.v = v % p
        self.p = p

    def _c(self, o):
        if isinstance(o, Zp):
            if o.p != self.p:
                raise TypeError("mixed moduli")
            return o.v
        if isinstance(o, bool) or not isinstance(o, (int, float)):
            return None
        if isinstance(o, int):
            return o % self.p
        fr = Fraction(o).limit_denominator(1 << 20)
        if abs(float(fr) - o) > 1e-12 * max(1.0, abs(o)) or fr.denominator % self.p == 0:
            raise _InexactScalar(repr(o))
        return fr.numerator * pow(fr.denominator, -1, self.p) % self.p

    def __add__(self, o):
        c = self._c(o)
        return NotImplemented if c is None else Zp(self.v + c, self.p)

    def __radd__(self, o):
        c = self._c(o)
        return NotImplemented if c is None else Zp(c + self.v, self.p)

    def __mul__(self, o):
        c = self._c(o)
        return NotImplemented if c is None else Zp(self.v * c, self.p)

    def __rmul__(self, o):
        c = self._c(o)
        return NotImplemented if c is None else Zp(c * self.v, self.p)

    def __repr__(self):
        return f"Zp({self.v} mod {self.p})"


class _ExactDtype:
    """what `custom_np.dtype(complex_dtype)` returns: `.type` (the `scalar_tp` of `fft`) is the
    identity, `.kind` is complex"""
    kind = "c"

    @staticmethod
    def type(v):
        return v


class ExactNp:
    """Stand-in for numpy in `fft(..., custom_np=...)`.  `exp` maps the complex argument
    `sign*(-2j)*pi*k/m` back to the exact rational `sign*k/m` and returns `z**(n*sign*k/m)` in
    Z_p, where `z` represents `exp(-2j*pi/n)` for the top-level length `n` (`z**n == 1`).
    Everything else `fft` asks of `custom_np` (`dtype`, `arange`, `concatenate`, `complex128`)
    is provided; vectors are numpy object arrays of `Zp`."""
    complex128 = _ExactDtype

    def __init__(self, p, n, z):
        self.p, self.n, self.z = p, n, z

    def dtype(self, d):
        return _ExactDtype

    def arange(self, a, b, dtype=None):
        import numpy as np
        return np.arange(a, b, dtype=np.complex128)

    def concatenate(self, parts, axis=0):
        import numpy as np
        return np.concatenate(parts, axis=axis)

    def _one(self, c):
        c = complex(c)
        if abs(c.real) > 1e-9:
            raise _BadTwiddle(f"exp argument has real part {c.real}")
        val = c.imag / (-2 * math.pi)
        fr = Fraction(val).limit_denominator(1 << 16)
        if abs(float(fr) - val) > 1e-9:
            raise _BadTwiddle(f"exp argument/(-2j*pi) = {val} is not a small rational")
        e = fr * self.n
        if e.denominator != 1:
            raise _BadTwiddle(f"exponent {fr} is not a multiple of 1/{self.n}")
        return Zp(pow(self.z, int(e), self.p), self.p)

    def exp(self, arg):
        import numpy as np
        if isinstance(arg, np.ndarray):
            out = np.empty(len(arg), dtype=object)
            for i, c in enumerate(arg):
                out[i] = self._one(c)
            return out
        return self._one(arg)


def zp_vec(xs, p):
    import numpy as np
    a = np.empty(len(xs), dtype=object)
    for i, v in enumerate(xs):
        a[i] = Zp(v, p)
    return a


def _is_prime(p):
    return p > 1 and all(p % d for d in range(2, int(math.isqrt(p)) + 1))


def _prime_factors(n):
    return [q for q in range(2, n + 1) if n % q == 0 and _is_prime(q)]


def primes_for(n, count=2):
    """the first `count` primes p = 1 (mod n), p > 2"""
    res, k = [], 1
    while len(res) < count:
        p = k * max(n, 1) + 1
        if p > 2 and _is_prime(p):
            res.append(p)
        k += 1
    return res


def root_of_order(p, n):
    """an element of multiplicative order exactly n in Z_p (n | p-1)"""
    qs = _prime_factors(n)
    for g in range(2, p):
        z = pow(g, (p - 1) // n, p)
        if all(pow(z, n // q, p) != 1 for q in qs):
            return z
    return 1


def exact_fft(p, n, z, xs):
    from pymbolic import algorithm as al
    with warnings.catch_warnings():
        warnings.simplefilter("ignore")
        res = al.fft(zp_vec(xs, p), complex_dtype=_ExactDtype, custom_np=ExactNp(p, n, z))
    return [int(e.v) for e in res]


def exact_ifft(p, n, z, ys):
    from pymbolic import algorithm as al
    with warnings.catch_warnings():
        warnings.simplefilter("ignore")
        res = al.ifft(zp_vec(ys, p), complex_dtype=_ExactDtype, custom_np=ExactNp(p, n, z))
    return [int(e.v) for e in res]


def _err(ex):
    return f"(err {type(ex).__name__.lstrip('_')})"


class FftExact(Stream):
    """the arithmetic of fft / ifft: the REAL functions run over Z_p (custom_np stand-in, exact
    twiddles z**k) vs the Lean model instance `c19FftMod` / `c19IfftMod`, compared EXACTLY;
    oracle: the O(n^2) DFT over Z_p and ifft(fft(x)) == x"""
    name = "fft-exact"

    def cases(self, rng, tier):
        big = tier != "quick"
        lengths = list(range(0, 65))          # every length 1..64 (and the raising length 0)
        longer = [97, 128, 210, 243, 360, 509, 512] if big else [rng.choice([81, 97, 100, 128])]
        for n in lengths + longer:
            reps = (3 if big else 1) if n <= 64 else 1
            for p in primes_for(n, 2 if (big and n <= 64) else 1):
                zs = [root_of_order(p, n)] if n else [1]
                # forward transform needs only z**n == 1: also roots of smaller order, and 1
                divs = [d for d in range(1, n) if n % d == 0]
                if divs:
                    d = rng.choice(divs)
                    zs.append(pow(zs[0], n // d, p))       # order d < n
                for zi, z in enumerate(zs):
                    for _ in range(reps):
                        kind = rng.randrange(4)
                        if kind == 0 and n:
                            xs = [0] * n
                            xs[rng.randrange(n)] = 1         # unit vector
                        elif kind == 1:
                            xs = [rng.randrange(0, 3) for _ in range(n)]
                        else:
                            xs = [rng.randrange(p) for _ in range(n)]
                        yield {"op": "fft", "p": p, "z": z, "x": xs, "prim": zi == 0}
                        if zi == 0:
                            yield {"op": "ifft", "p": p, "z": z, "x": xs, "prim": True}

    def request(self, pl):
        p, z, xs = pl["p"], pl["z"], pl["x"]
        body = "(" + " ".join(str(v) for v in xs) + ")"
        if pl["op"] == "fft":
            return f"(c19-fft {p} {z} {body})"
        n = len(xs)
        ninv = pow(n, -1, p) if n else 0
        return f"(c19-ifft {p} {pow(z, -1, p)} {ninv} {body})"

    def _run(self, pl):
        p, z, xs = pl["p"], pl["z"], pl["x"]
        if pl["op"] == "fft":
            return exact_fft(p, len(xs), z, xs)
        return exact_ifft(p, len(xs), z, xs)

    def run_impl(self, pl):
        try:
            r = self._run(pl)
        except ZeroDivisionError:
            return "ZeroDivisionError"
        except Exception as ex:   # stand-in could not interpret a twiddle, shape errors, ...
            return _err(ex)
        return "(" + " ".join(str(v) for v in r) + ")"

    def oracle(self, pl):
        p, z, xs = pl["p"], pl["z"], pl["x"]
        n = len(xs)
        if n == 0:
            return None                      # the property speaks of lengths >= 1
        try:
            if pl["op"] == "fft":
                got = exact_fft(p, n, z, xs)
                zp = [pow(z, e, p) for e in range(n)]
                want = [sum(zp[(k * j) % n] * xs[j] for j in range(n)) % p for k in range(n)]
                if got != want:
                    bad = [k for k in range(len(want)) if k >= len(got) or got[k] != want[k]]
                    return Failure("fft-exact-vs-dft",
                                   f"n={n} p={p} z={z}: output differs from the DFT over Z_p at "
                                   f"indices {bad[:6]}", pl)
            else:
                ys = exact_fft(p, n, z, xs)
                back = exact_ifft(p, n, z, ys)
                if back != [v % p for v in xs]:
                    return Failure("ifft-exact-inverts",
                                   f"n={n} p={p} z={z}: ifft(fft(x)) != x over Z_p", pl)
        except Exception as ex:
            return Failure("fft-exact-raises", f"n={n} p={p} z={z}: {ex!r}", pl)
        return None

    def shrink(self, pl):
        xs = pl["x"]
        for i, v in enumerate(xs):
            if v:
                yield dict(pl, x=xs[:i] + [0] + xs[i + 1:])
                if v != 1:
                    yield dict(pl, x=xs[:i] + [1] + xs[i + 1:])

    def nontrivial_key(self, pl, model, impl):
        return None if not any(pl["x"]) else f"{pl['op']} {pl['p']} {pl['z']} {pl['x']}"

    def stats(self, pl, mo, io, acc):
        acc[pl["op"]] = acc.get(pl["op"], 0) + 1
        acc["lengths"] = sorted(set(acc.get("lengths", [])) | {len(pl["x"])})



# ---------------------------------------------------------------------------------------------
# T-gen: the table interpreter run on the REGENERATED bodies (lean/PV/Generated/Algo.lean, written
# by extract/algorithm.py from the live source) vs the real functions
# ---------------------------------------------------------------------------------------------

def _v_int(i):
    return f"(i {int(i)})"


def _v_terms(terms):
    return "(t" + "".join(f" (t {_v_int(e)} {_v_int(c)})" for e, c in terms) + ")"


def _v_poly(terms, base="x"):
    return (f'(o Polynomial (Base (s "{base}")) (Unit (i 1)) (VarLess (o LexicalMonomialOrder)) '
            f'(Data {_v_terms(terms)}))')


def _v_spoly(terms, base="x"):
    data = "(t" + "".join(f' (t {_v_int(e)} (s "{c}"))' for e, c in terms) + ")"
    return (f'(o Polynomial (Base (s "{base}")) (Unit (i 1)) (VarLess (o LexicalMonomialOrder)) '
            f'(Data {data}))')


def _canon_model(x):
    """parsed reply of the table interpreter -> comparable Python value"""
    from ..sexp import Atom
    if isinstance(x, Atom):
        return {"none": ("none",), "fuel": ("fuel",)}.get(str(x), ("atom", str(x)))
    head = str(x[0])
    if head == "i":
        return ("num", Fraction(int(x[1])))
    if head == "f":
        return ("num", Fraction(int(x[1]), int(x[2])))
    if head == "b":
        return ("bool", str(x[1]) == "true")
    if head == "e":
        return ("elem", int(x[1]))
    if head == "s":
        return ("sym", x[1])
    if head in ("t", "v"):
        return ("seq", [_canon_model(y) for y in x[1:]])
    if head == "o":
        fields = {str(kv[0]): _canon_model(kv[1]) for kv in x[2:]}
        if str(x[1]) == "LexicalMonomialOrder":
            return ("obj", "LexicalMonomialOrder", {})
        return ("obj", str(x[1]), fields)
    if head == "raise":
        return ("raise", str(x[1]))
    return ("other", str(x))


def _canon_real(v):
    """result of the real code -> the same comparable form"""
    from pymbolic.polynomial import LexicalMonomialOrder, Polynomial
    from pymbolic.primitives import Variable
    from pymbolic.rational import Rational
    if v is None:
        return ("none",)
    if isinstance(v, bool):
        return ("bool", v)
    if isinstance(v, int):
        return ("num", Fraction(v))
    if isinstance(v, float):
        return ("num", Fraction(v))
    if isinstance(v, Zp):
        return ("elem", int(v.v))
    if isinstance(v, Variable):
        return ("sym", v.name)
    if isinstance(v, Polynomial):
        return ("obj", "Polynomial", {"Base": _canon_real(v.Base), "Unit": _canon_real(v.Unit),
                                      "VarLess": _canon_real(v.VarLess), "Data": _canon_real(v.Data)})
    if isinstance(v, LexicalMonomialOrder):
        return ("obj", "LexicalMonomialOrder", {})
    if isinstance(v, Rational):
        return ("obj", "Rational", {"Numerator": _canon_real(v.Numerator),
                                    "Denominator": _canon_real(v.Denominator)})
    if type(v).__name__ in ("IntegerTraits", "FieldTraits", "PolynomialTraits"):
        return ("obj", type(v).__name__, {})
    if isinstance(v, (tuple, list)) or type(v).__name__ == "ndarray":
        return ("seq", [_canon_real(y) for y in v])
    return ("other", repr(v))


TABLE_FUEL = 600


class TableRun(Stream):
    """T-gen: the compiled table interpreter `c19RunFn` on the regenerated table
    (lean/PV/Generated/Algo.lean) vs the real functions — every function of the table on the inputs
    the other streams use.  A disagreement means extract/algorithm.py mistranslated a body or the
    table language gives a statement a wrong meaning."""
    name = "table-run"

    def cases(self, rng, tier):
        big = tier != "quick"
        for x in range(-3, 4):
            for n in range(-2, 24 if big else 12):
                yield {"fn": "algorithm.integer_power", "args": [x, n]}
        span = range(-12, 13) if big else range(-7, 8)
        for q in span:
            for r in span:
                yield {"fn": "algorithm.extended_euclidean", "args": [q, r]}
                if (q + r) % 4 == 0:
                    yield {"fn": "algorithm.gcd", "args": [q, r]}
                    yield {"fn": "algorithm.lcm", "args": [q, r]}
        for _ in range(400 if big else 40):
            q, r = rng.randint(-10**12, 10**12), rng.randint(-10**12, 10**12)
            yield {"fn": "algorithm.extended_euclidean", "args": [q, r]}
        for n in range(0, 400 if big else 90):
            yield {"fn": "algorithm.find_factors", "args": [n]}
        for i in range(3000 if big else 420):
            p, q = rpoly(rng), rpoly(rng)
            op = ["Polynomial.__add__", "Polynomial.__sub__", "Polynomial.__mul__",
                  "Polynomial.__divmod__", "Polynomial.__pow__", "Polynomial.__neg__",
                  "polynomial._sort_uniq", "EvaluationMapper.map_polynomial", "Polynomial.degree",
                  "IdentityMapper.map_polynomial"][i % 10]
            if op == "polynomial._sort_uniq":
                p = [[rng.randint(0, 4), rng.randint(-2, 2)] for _ in range(rng.randint(0, 8))]
            if op == "Polynomial.__divmod__" and i % 7 == 3 and q:
                q = q[:-1] + [[q[-1][0], 0]]          # a stored zero leading coefficient
            if op == "IdentityMapper.map_polynomial":
                names = ["a", "b", "c", "d"]
                p = [[e, rng.choice(names)] for e, _ in p]
                # "the same object" is modelled as "the same name": a substitution k -> k would
                # return an equal but NOT identical object on the real code, so none is generated
                subst = {k: rng.choice([v for v in ["x", "y", "a", "e"] if v != k])
                         for k in rng.sample(names + ["x"], rng.randint(0, 3))}
                yield {"fn": op, "p": p, "subst": subst}
                continue
            yield {"fn": op, "p": p, "q": q, "n": rng.randint(0, 4), "x": rng.randint(-3, 3)}
        for a in range(-5, 6):
            for b in range(-5, 6):
                yield {"fn": "Rational.__init__", "args": [a, b]}
        for i in range(-2, 3):
            yield {"fn": "traits.traits", "args": [i]}
        # an operand that is a Python int (the non-Polynomial branches), and `//`, `%`
        for i in range(1600 if big else 240):
            op = ["Polynomial.__divmod__", "Polynomial.__floordiv__", "Polynomial.__mod__",
                  "Polynomial.__add__", "Polynomial.__radd__", "Polynomial.__sub__",
                  "Polynomial.__mul__", "Polynomial.__rmul__"][i % 8]
            if i % 16 >= 8 and op in ("Polynomial.__floordiv__", "Polynomial.__mod__"):
                yield {"fn": op, "p": rpoly(rng), "q": rpoly(rng), "n": 0, "x": 0}
            else:
                yield {"fn": op, "p": rpoly(rng, maxc=9), "d": rng.choice([0, 1, -1, rng.randint(-6, 6)])}
        lengths = list(range(0, 33 if big else 13)) + ([64, 97, 128] if big else [16])
        for n in lengths:
            for p in primes_for(n, 1):
                z = root_of_order(p, n) if n else 1
                xs = [rng.randrange(p) for _ in range(n)]
                yield {"fn": "algorithm.fft", "p": p, "z": z, "x": xs}
                yield {"fn": "algorithm.ifft", "p": p, "z": z, "x": xs}

    def request(self, pl):
        fn = pl["fn"]
        pre = f"(c19-table-run 0 0 0 {TABLE_FUEL} {fn}"
        if fn == "algorithm.integer_power":
            x, n = pl["args"]
            return f"{pre} {_v_int(x)} {_v_int(n)} (i 1))"
        if fn in ("algorithm.extended_euclidean", "algorithm.gcd", "algorithm.lcm",
                  "algorithm.find_factors", "traits.traits"):
            return f"{pre} " + " ".join(_v_int(a) for a in pl["args"]) + ")"
        if fn == "Rational.__init__":
            a, b = pl["args"]
            return f"{pre} (o Rational) {_v_int(a)} {_v_int(b)})"
        if fn == "polynomial._sort_uniq":
            return f"{pre} {_v_terms(pl['p'])})"
        if "d" in pl:
            return f"{pre} {_v_poly(pl['p'])} {_v_int(pl['d'])})"
        if fn in ("Polynomial.__add__", "Polynomial.__sub__", "Polynomial.__mul__",
                  "Polynomial.__divmod__", "Polynomial.__floordiv__", "Polynomial.__mod__"):
            return f"{pre} {_v_poly(pl['p'])} {_v_poly(pl['q'])})"
        if fn == "Polynomial.__pow__":
            return f"{pre} {_v_poly(pl['p'])} {_v_int(pl['n'])})"
        if fn in ("Polynomial.__neg__", "Polynomial.degree"):
            return f"{pre} {_v_poly(pl['p'])})"
        if fn == "EvaluationMapper.map_polynomial":
            return f"{pre} (o EvaluationMapper (x {_v_int(pl['x'])})) {_v_poly(pl['p'])})"
        if fn == "IdentityMapper.map_polynomial":
            fields = " ".join(f'({k} (s "{v}"))' for k, v in sorted(pl["subst"].items()))
            return f"{pre} (o IdentityMapper {fields}) {_v_spoly(pl['p'])} (t) (t))"
        # fft / ifft over Z_p
        p, z, xs = pl["p"], pl["z"], pl["x"]
        n = len(xs)
        vec = "(v" + "".join(f" (e {v % p})" for v in xs) + ")"
        if fn == "algorithm.fft":
            return (f"(c19-table-run {p} {n} {z} {TABLE_FUEL} {fn} {vec} (i 1) none none (o dtype) "
                    f"(o np) (i 0))")
        zinv = pow(z, -1, p)
        return f"(c19-table-run {p} {n} {zinv} {TABLE_FUEL} {fn} {vec} none none (o dtype) (o np))"

    def _real(self, pl):
        from pymbolic import algorithm as al
        from pymbolic import var
        from pymbolic.mapper.evaluator import EvaluationMapper
        from pymbolic.mapper.substitutor import SubstitutionMapper, make_subst_func
        from pymbolic.polynomial import Polynomial, _sort_uniq
        from pymbolic.rational import Rational
        from pymbolic.traits import traits
        fn = pl["fn"]
        if fn == "algorithm.integer_power":
            return al.integer_power(*pl["args"])
        if fn in ("algorithm.extended_euclidean", "algorithm.gcd", "algorithm.lcm",
                  "algorithm.find_factors"):
            return getattr(al, fn.split(".")[1])(*pl["args"])
        if fn == "traits.traits":
            return traits(*pl["args"])
        if fn == "Rational.__init__":
            return Rational(*pl["args"])
        if fn == "polynomial._sort_uniq":
            return _sort_uniq([tuple(t) for t in pl["p"]])
        if fn == "IdentityMapper.map_polynomial":
            poly = Polynomial(var("x"), tuple((int(e), var(c)) for e, c in pl["p"]))
            sub = {var(k): var(v) for k, v in pl["subst"].items()}
            return SubstitutionMapper(make_subst_func(sub))(poly)
        if fn in ("algorithm.fft", "algorithm.ifft"):
            p, z, xs = pl["p"], pl["z"], pl["x"]
            return (exact_fft if fn.endswith(".fft") else exact_ifft)(p, len(xs), z, xs)
        a = P(pl["p"])
        if "d" in pl:
            return getattr(a, fn.split(".")[1])(pl["d"])
        if fn in ("Polynomial.__floordiv__", "Polynomial.__mod__"):
            return getattr(a, fn.split(".")[1])(P(pl["q"]))
        if fn == "Polynomial.__neg__":
            return -a
        if fn == "Polynomial.degree":
            return a.degree
        if fn == "Polynomial.__pow__":
            return a ** pl["n"]
        if fn == "EvaluationMapper.map_polynomial":
            return EvaluationMapper({"x": pl["x"]})(a)
        b = P(pl["q"])
        return {"Polynomial.__add__": lambda: a + b, "Polynomial.__sub__": lambda: a - b,
                "Polynomial.__mul__": lambda: a * b, "Polynomial.__divmod__": lambda: divmod(a, b)}[fn]()

    def run_impl(self, pl):
        try:
            r = self._real(pl)
        except (RuntimeError, ZeroDivisionError, IndexError, AssertionError, TypeError) as ex:
            return repr(("raise", type(ex).__name__))
        if pl["fn"] in ("algorithm.fft", "algorithm.ifft"):
            return repr(("seq", [("elem", int(v)) for v in r]))
        return repr(_canon_real(r))

    def agree(self, model, impl, pl):
        from ..sexp import loads
        try:
            got = repr(_canon_model(loads(model)))
        except Exception:
            return "diff"
        if got == impl:
            return "ok"
        if "stuck" in model and "int ** negative" in model:
            return "trivial"            # the table language leaves the integers: no claim
        return "diff"

    def nontrivial_key(self, pl, model, impl):
        return json.dumps(pl, sort_keys=True)

    def stats(self, pl, mo, io, acc):
        acc[pl["fn"]] = acc.get(pl["fn"], 0) + 1

# ---------------------------------------------------------------------------------------------
# `Rational` arithmetic and `primitives.quotient` on Python ints
#
# Two readings of the same source (lean/PV/Properties/C19Rational.lean):
#   py3  what runs today: the constructor stores floats, every arithmetic method raises
#        AttributeError (FieldTraits has no gcd / lcm / get_unit) — stream `rational-py3` on the
#        REAL code, in this process
#   py2  `/` on two ints is floor division (what the file was written for): stream `rational-py2`
#        on the tree under test with `/` rewritten to `//` in rational.py and traits.py
#        (harness/c19_py2.py), in a worker process
# ---------------------------------------------------------------------------------------------

RAT_METHOD = {"add": "__add__", "radd": "__radd__", "sub": "__sub__", "rsub": "__rsub__",
              "mul": "__mul__", "rmul": "__rmul__", "div": "__div__", "rdiv": "__rdiv__",
              "pow": "__pow__", "neg": "__neg__", "recip": "reciprocal"}
RAT_BIN = ["add", "radd", "sub", "rsub", "mul", "rmul", "div", "rdiv"]
RAT_UN = ["neg", "recip"]


def _rat_other_sx(o):
    if o is None:
        return "none"
    if o[0] == "i":
        return f"(i {o[1]})"
    return f"(r {o[1]} {o[2]})"


def _rat_reply(r):
    """worker reply -> the driver's format"""
    if r[0] == "i":
        return f"(i {r[1]})"
    if r[0] == "r":
        return f"(r {r[1]} {r[2]})"
    if r[0] == "raise":
        return f"(raise {r[1]})"
    return "(" + " ".join(str(x) for x in r) + ")"


def _rat_value(r):
    """worker reply -> Fraction | None (raised) | 'bad'"""
    if r[0] == "i":
        return Fraction(r[1])
    if r[0] == "r":
        return Fraction(r[1], r[2]) if r[2] != 0 else "bad"
    if r[0] == "raise":
        return None
    return "bad"


def _rat_want(op, a, b):
    """the operation on the VALUES (Fractions); 'zero' when it divides by zero"""
    if op in ("add", "radd"):
        return a + b
    if op == "sub":
        return a - b
    if op == "rsub":
        return b - a
    if op in ("mul", "rmul"):
        return a * b
    if op == "div":
        return a / b if b != 0 else "zero"
    if op == "rdiv":
        return b / a if a != 0 else "zero"
    if op == "neg":
        return -a
    if op == "recip":
        return 1 / a if a != 0 else "zero"
    raise KeyError(op)


def _rat_cases(rng, tier, zero_den):
    """(op, (n1, d1), other) — exhaustive small, then structured random ones"""
    big = tier != "quick"
    small = range(-4, 5) if big else range(-3, 4)
    dens = [d for d in small if zero_den or d != 0]
    k = 0
    for n1 in small:
        for d1 in dens:
            for op in RAT_UN:
                yield op, (n1, d1), None
            for e in range(0, 4):
                yield "pow", (n1, d1), ["i", e]
            for n2 in small:
                yield RAT_BIN[k % 8], (n1, d1), ["i", n2]
                k += 1
                for d2 in dens:
                    yield RAT_BIN[k % 8], (n1, d1), ["r", n2, d2]
                    k += 1
    def num(lim):
        return rng.choice([0, 1, -1, rng.randint(-12, 12), rng.randint(-lim, lim)])

    def den(lim):
        d = 0
        while d == 0:
            d = rng.choice([1, -1, 2, rng.randint(-12, 12), rng.randint(-lim, lim)])
        return d
    for i in range(6000 if big else 700):
        lim = [30, 10**4, 10**9, 10**30][i % 4]
        op = (RAT_BIN + RAT_UN + ["pow"])[i % 11]
        n1, d1 = num(lim), den(lim)
        if i % 5 == 0:                       # operands with a common factor (not in lowest terms)
            g = rng.randint(2, 9)
            n1, d1 = n1 * g, d1 * g
        if op in RAT_UN:
            yield op, (n1, d1), None
        elif op == "pow":
            yield op, (n1, d1), ["i", rng.randint(0, 5)]
        elif i % 3 == 0:
            yield op, (n1, d1), ["i", num(lim)]
        else:
            n2, d2 = num(lim), den(lim)
            if i % 7 == 0:                   # equal / opposite denominators, cancelling sums
                d2 = rng.choice([d1, -d1])
                n2 = rng.choice([n2, -n1, d2 - n1])
            yield op, (n1, d1), ["r", n2, d2]


class RationalPy2(Stream):
    """`Rational.__add__ … __pow__`, `__init__`, `quotient` under the Python-2 reading of `/`: the
    hand-written Lean model (`ratAdd`, `ratMul`, …) vs the tree under test with `/` rewritten to
    `//` in rational.py and traits.py (worker process); oracle: `fractions.Fraction` on the values
    (+, −, ×, ÷, negation, reciprocal; `quotient(a, b)` and `Rational(a, b)` stand for a/b)"""
    name = "rational-py2"

    def __init__(self):
        self._cache = {}

    def cases(self, rng, tier):
        for op, (n1, d1), other in _rat_cases(rng, tier, zero_den=True):
            yield {"op": op, "self": [n1, d1], "other": other}
        span = range(-6, 7)
        for a in span:
            for b in span:
                yield {"op": "init", "self": [a, b], "other": None}
                yield {"op": "quotient", "self": [a, b], "other": None}
        for _ in range(60 if tier == "quick" else 600):
            a, b = rng.randint(-10**30, 10**30), rng.randint(-10**30, 10**30)
            yield {"op": rng.choice(["init", "quotient"]), "self": [a, b], "other": None}
        yield {"op": "pow", "self": [2, 3], "other": ["i", -1]}     # float power: model abstains

    def request(self, pl):
        n, d = pl["self"]
        return f"(c19-rat py2 {pl['op']} ({n} {d}) {_rat_other_sx(pl['other'])})"

    def _ask(self, pl):
        from ..c19_py2 import worker
        key = json.dumps(pl, sort_keys=True)
        if key not in self._cache:
            n, d = pl["self"]
            op, o = pl["op"], pl["other"]
            if op in ("init", "quotient"):
                fn = "Rational.__init__" if op == "init" else "primitives.quotient"
                req = {"fn": fn, "args": [["i", n], ["i", d]]}
            else:
                other = None if o is None else (o if o[0] == "i" else ["raw", o[1], o[2]])
                req = {"fn": "Rational." + RAT_METHOD[op], "self": ["raw", n, d], "other": other}
            self._cache[key] = worker().ask(req)
        return self._cache[key]

    def run_impl(self, pl):
        return _rat_reply(self._ask(pl))

    def oracle(self, pl):
        op, (n1, d1), o = pl["op"], pl["self"], pl["other"]
        r = self._ask(pl)
        if r[0] == "harness-error":
            return Failure("rational-harness-error", str(r), pl)
        got = _rat_value(r)
        if op in ("init", "quotient"):
            # "the exact quotient built from two integers evaluates to their quotient"
            if d1 == 0:
                return None if got is None else Failure(
                    f"rational-{op}-zero-denominator-accepted", f"{op}({n1}, 0) returned {r}", pl)
            if got is None or got == "bad":
                return Failure(f"rational-{op}-raises", f"{op}({n1}, {d1}) gave {r}", pl)
            if got != Fraction(n1, d1):
                return Failure(f"rational-{op}-value", f"{op}({n1}, {d1}) stands for {got}", pl)
            return None
        if op == "pow":
            return None           # `__pow__` exchanges numerator and denominator: mirrored, reported
        d2 = 1 if o is None or o[0] == "i" else o[2]
        if d1 == 0 or d2 == 0:
            return None           # the statement is about non-zero denominators
        a = Fraction(n1, d1)
        b = None if o is None else (Fraction(o[1]) if o[0] == "i" else Fraction(o[1], o[2]))
        want = _rat_want(op, a, b)
        if want == "zero":
            return None if got is None else Failure(
                f"rational-{op}-by-zero-accepted", f"{op} of {a} and {b} returned {r}", pl)
        if got is None:
            return Failure(f"rational-{op}-raises", f"{op} of {a} and {b} raised {r[1]}", pl)
        if got == "bad":
            return Failure(f"rational-{op}-not-a-number", f"{op} of {a} and {b} returned {r}", pl)
        if got != want:
            return Failure(f"rational-{op}-value", f"{op} of {a} and {b}: {got}, expected {want}", pl)
        return None

    def shrink(self, pl):
        n, d = pl["self"]
        o = pl["other"]
        for v in (0, 1, -1, 2):
            if abs(v) < abs(n):
                yield dict(pl, self=[v, d])
            if v and abs(v) < abs(d):
                yield dict(pl, self=[n, v])
        if o is not None:
            for i in range(1, len(o)):
                for v in (0, 1, -1, 2):
                    if abs(v) < abs(o[i]) and not (v == 0 and i == 2):
                        yield dict(pl, other=o[:i] + [v] + o[i + 1:])

    def nontrivial_key(self, pl, model, impl):
        return json.dumps(pl, sort_keys=True)

    def stats(self, pl, mo, io, acc):
        acc[pl["op"]] = acc.get(pl["op"], 0) + 1
        if io and io.startswith("(raise"):
            acc["raises"] = acc.get("raises", 0) + 1


def _real_rational(n, d):
    from pymbolic.rational import Rational
    return Rational(int(n), int(d))


def _rel_close(got, want, bits=50):
    """|got - want| <= 2**-bits * |want|, in exact rational arithmetic (`got` a float or int)"""
    g = Fraction(got)
    return abs(g - want) * (1 << bits) <= abs(want)


class RationalPy3(Stream):
    """the same methods as Python 3 runs them, on the REAL code: `Rational(n, d)` built by the
    constructor, operand a plain int or another `Rational`; model: `ratPy3` (every method raises
    AttributeError — proved for the regenerated bodies).  Oracle (partial correctness): whenever
    a call RETURNS, the returned object evaluates to the value `fractions.Fraction` computes; the
    operators `/` (Expression's `__truediv__`) are oracle-only."""
    name = "rational-py3"

    def cases(self, rng, tier):
        for op, (n1, d1), other in _rat_cases(rng, "quick", zero_den=False):
            if abs(n1) > 10**9 or abs(d1) > 10**9:
                continue
            if other is not None and any(abs(x) > 10**9 for x in other[1:]):
                continue
            yield {"op": op, "self": [n1, d1], "other": other}
        for _ in range(40):
            yield {"op": "pow", "self": [rng.choice([0, 0, 3, -2]), rng.randint(1, 5)],
                   "other": ["i", rng.randint(-4, 4)]}
        for _ in range(200 if tier == "quick" else 2000):
            n1, d1 = rng.randint(-20, 20), rng.choice([1, 2, 3, -4, 7])
            o = rng.choice([["i", rng.randint(-5, 5)], ["r", rng.randint(-9, 9), rng.choice([1, 2, -3, 5])]])
            yield {"op": rng.choice(["truediv", "rtruediv"]), "self": [n1, d1], "other": o}

    def request(self, pl):
        n, d = pl["self"]
        return f"(c19-rat py3 {pl['op']} ({n} {d}) {_rat_other_sx(pl['other'])})"

    def _call(self, pl):
        from pymbolic.rational import Rational
        n, d = pl["self"]
        op, o = pl["op"], pl["other"]
        a = _real_rational(n, d)
        b = None if o is None else (int(o[1]) if o[0] == "i" else _real_rational(o[1], o[2]))
        if op == "truediv":
            return a / b
        if op == "rtruediv":
            return b / a
        f = Rational.__dict__[RAT_METHOD[op]]
        return f(a) if b is None else f(a, b)

    def _run(self, pl):
        try:
            return ("ok", self._call(pl))
        except (AttributeError, ArithmeticError, RuntimeError, TypeError) as ex:
            return ("raise", type(ex).__name__)

    def run_impl(self, pl):
        kind, v = self._run(pl)
        if kind == "raise":
            return f"(raise {v})"
        if isinstance(v, int) and not isinstance(v, bool):
            return f"(i {v})"
        return f"(returned {type(v).__name__})"

    def agree(self, model, impl, pl):
        if model == "(noclaim)":
            return "trivial"
        return "ok" if model == impl else "diff"

    def oracle(self, pl):
        from pymbolic import evaluate
        kind, v = self._run(pl)
        if kind == "raise":
            return None          # the methods do not work under Python 3: reported, not demanded
        op, (n1, d1), o = pl["op"], pl["self"], pl["other"]
        a = Fraction(n1, d1)
        b = None if o is None else (Fraction(o[1]) if o[0] == "i" else Fraction(o[1], o[2]))
        if op == "pow":
            want = a ** o[1] if (a != 0 or o[1] >= 0) else "zero"
        elif op == "truediv":
            want = a / b if b != 0 else "zero"
        elif op == "rtruediv":
            want = b / a if a != 0 else "zero"
        else:
            want = _rat_want(op, a, b)
        try:
            got = v if isinstance(v, (int, float)) else evaluate(v)
        except ZeroDivisionError:
            return None if want == "zero" else Failure(
                f"rational3-{op}-evaluate-raises", f"{op} on {a}, {b}: ZeroDivisionError", pl)
        except Exception as ex:     # noqa: BLE001
            return Failure(f"rational3-{op}-evaluate-raises", f"{op} on {a}, {b}: {ex!r}", pl)
        if want == "zero":
            if op in ("truediv", "rtruediv"):
                return None      # `0 / x -> 0` is a fold of Expression.__rtruediv__ (C03), not ours
            return Failure(f"rational3-{op}-by-zero-accepted", f"{op} on {a}, {b} gave {got!r}", pl)
        if isinstance(got, bool) or not isinstance(got, (int, float)):
            return Failure(f"rational3-{op}-not-a-number", f"{op} on {a}, {b} gave {got!r}", pl)
        if want == 0:
            ok = got == 0
        else:
            ok = _rel_close(got, want, 48)
        if not ok:
            return Failure(f"rational3-{op}-value", f"{op} on {a}, {b}: {got!r}, expected {want}", pl)
        return None

    def nontrivial_key(self, pl, model, impl):
        return json.dumps(pl, sort_keys=True)

    def stats(self, pl, mo, io, acc):
        acc[pl["op"]] = acc.get(pl["op"], 0) + 1
        if io and io.startswith("(raise"):
            k = "raises_" + io[7:-1]
            acc[k] = acc.get(k, 0) + 1


def _v_ratF(n, d):
    """the object `Rational(n, d)` holds under Python 3, as the REAL constructor leaves it"""
    r = _real_rational(n, d)
    fn, fd = Fraction(r.Numerator), Fraction(r.Denominator)
    return (f"(o Rational (Numerator (f {fn.numerator} {fn.denominator})) "
            f"(Denominator (f {fd.numerator} {fd.denominator})))")


def _v_ratI(n, d):
    return f"(o Rational (Numerator (i {n})) (Denominator (i {d})))"


class QuotientInts(Stream):
    """"the exact quotient node built from two integers evaluates to their quotient":
    `primitives.quotient(a, b)` and the node `Quotient(a, b)` for ALL small integer pairs and random
    big ones.  Model: the table interpreter on the regenerated `primitives.quotient` /
    `EvaluationMapper.map_quotient` (floats as the exact fractions they were computed as; big
    pairs are oracle-only: a float no longer holds them exactly).  Oracle: the evaluated value is
    a / b to within 2 ulp, exactly a / b whenever that is a float, an int for b = 1; b = 0 raises."""
    name = "quotient-int"

    def cases(self, rng, tier):
        span = range(-12, 13) if tier == "quick" else range(-40, 41)
        for a in span:
            for b in span:
                for what in ("build", "evaluate", "node"):
                    yield {"what": what, "a": a, "b": b}
        for i in range(150 if tier == "quick" else 3000):
            lim = [10**6, 2**53, 10**40, 10**200][i % 4]
            a = rng.choice([0, 1, -1, rng.randint(-lim, lim)])
            b = rng.choice([1, -1, 2, rng.randint(-lim, lim), rng.randint(-lim, lim)])
            if i % 9 == 0 and b:
                a = b * rng.randint(-1000, 1000)            # an integral quotient
            yield {"what": ["evaluate", "node", "build"][i % 3], "a": a, "b": b,
                   "big": max(abs(a), abs(b)) >= 2**53}

    def request(self, pl):
        a, b, w = pl["a"], pl["b"], pl["what"]
        pre = f"(c19-table-run 0 0 0 {TABLE_FUEL}"
        if w == "build" or pl.get("big"):
            return f"{pre} primitives.quotient (i {a}) (i {b}))"
        if w == "node":
            return (f"{pre} EvaluationMapper.map_quotient (o EvaluationMapper) "
                    f"(o Quotient (numerator (i {a})) (denominator (i {b}))))")
        if b in (0, 1):
            return f"{pre} primitives.quotient (i {a}) (i {b}))"
        return f"{pre} EvaluationMapper.map_quotient (o EvaluationMapper) {_v_ratF(a, b)})"

    def _real(self, pl):
        from pymbolic.mapper.evaluator import EvaluationMapper
        from pymbolic.primitives import Quotient, quotient
        a, b, w = pl["a"], pl["b"], pl["what"]
        if w == "node":
            return EvaluationMapper({})(Quotient(a, b))
        q = quotient(a, b)
        if w == "build" or b in (0, 1):
            return q
        return EvaluationMapper({})(q)

    def run_impl(self, pl):
        try:
            r = self._real(pl)
        except (ArithmeticError, RuntimeError, AttributeError, TypeError) as ex:
            return repr(("raise", type(ex).__name__))
        return repr(_canon_real(r))

    def agree(self, model, impl, pl):
        from ..sexp import loads
        if pl.get("big"):
            return "trivial"
        try:
            got = _canon_model(loads(model))
        except Exception:
            return "diff"
        if repr(got) == impl:
            return "ok"
        # a float quotient is the exact fraction only up to rounding
        try:
            real = eval(impl, {"Fraction": Fraction})      # noqa: S307  (our own repr)
        except Exception:
            return "diff"
        if (got[0] == "num" and real[0] == "num" and got[1] != 0
                and abs(real[1] - got[1]) * (1 << 52) <= abs(got[1])):
            return "ok"
        return "diff"

    def oracle(self, pl):
        from pymbolic import evaluate
        from pymbolic.primitives import Quotient, quotient
        a, b, w = pl["a"], pl["b"], pl["what"]
        name = "Quotient" if w == "node" else "quotient"
        try:
            obj = Quotient(a, b) if w == "node" else quotient(a, b)
            got = evaluate(obj)
        except Exception as ex:     # noqa: BLE001
            if b == 0:
                return None
            return Failure(f"{name}-int-raises", f"{name}({a}, {b}): {ex!r}", pl)
        if b == 0:
            return Failure(f"{name}-int-zero-denominator-accepted",
                           f"{name}({a}, 0) evaluates to {got!r}", pl)
        want = Fraction(a, b)
        if isinstance(got, bool) or not isinstance(got, (int, float)):
            return Failure(f"{name}-int-not-a-number", f"{name}({a}, {b}) evaluates to {got!r}", pl)
        if got != got or got in (float("inf"), float("-inf")):
            return Failure(f"{name}-int-value", f"{name}({a}, {b}) evaluates to {got!r}", pl)
        if w != "node" and b == 1 and not (isinstance(got, int) and got == a):
            return Failure("quotient-int-by-one", f"quotient({a}, 1) evaluates to {got!r}", pl)
        if want == 0:
            ok = got == 0
        else:
            ok = _rel_close(got, want, 51)
            try:
                exact = Fraction(float(want)) == want
            except OverflowError:
                exact = False
            if ok and exact and max(abs(a), abs(b)) <= 2**53:
                ok = Fraction(got) == want
        if not ok:
            return Failure(f"{name}-int-value",
                           f"{name}({a}, {b}) evaluates to {got!r}, their quotient is {want}", pl)
        return None

    def shrink(self, pl):
        for k in ("a", "b"):
            for v in (0, 1, -1, 2, 3):
                if abs(v) < abs(pl[k]) and not (k == "b" and v == 0):
                    yield dict(pl, **{k: v}, big=False)

    def nontrivial_key(self, pl, model, impl):
        return f"{pl['what']} {pl['a']} {pl['b']}"

    def stats(self, pl, mo, io, acc):
        acc[pl["what"]] = acc.get(pl["what"], 0) + 1
        if pl.get("big"):
            acc["big"] = acc.get("big", 0) + 1


class TableRunRational(Stream):
    """T-gen for the `Rational` rows: the compiled table interpreter on the REGENERATED bodies —
    as they are (`c19-table-run`, Python 3: the real code in this process, float fields) and with
    every `/` read as `//` (`c19-table-run-py2`: the Python-2-reading copy of the tree under test
    in the worker) — vs the code.  A disagreement means extract/algorithm.py mistranslated a body
    (several `except` clauses, `Class.method(self, …)` calls, constructors of classes outside the
    table are new shapes) or the table language gives a statement a wrong meaning."""
    name = "table-run-rational"

    def __init__(self):
        self._cache = {}

    def cases(self, rng, tier):
        big = tier != "quick"
        k = 0
        span = range(-3, 4)
        for n1 in span:
            for d1 in span:
                for op in RAT_UN:
                    yield {"reading": "py2", "op": op, "self": [n1, d1], "other": None}
                    if d1:
                        yield {"reading": "py3", "op": op, "self": [n1, d1], "other": None}
                yield {"reading": "py2", "op": "pow", "self": [n1, d1], "other": ["i", k % 4]}
                if d1:
                    yield {"reading": "py3", "op": "pow", "self": [n1, d1], "other": ["i", k % 7 - 3]}
                for n2 in span:
                    others = [["i", n2]] + [["r", n2, d2] for d2 in (span if big else (-2, 0, 1, 3))]
                    for o in others:
                        op = RAT_BIN[k % 8]
                        k += 1
                        yield {"reading": "py2", "op": op, "self": [n1, d1], "other": o}
                        if d1 and (o[0] == "i" or o[2]):
                            yield {"reading": "py3", "op": op, "self": [n1, d1], "other": o}
        for _ in range(2000 if big else 250):
            n1, d1 = rng.randint(-60, 60), rng.randint(-60, 60)
            o = rng.choice([["i", rng.randint(-60, 60)],
                            ["r", rng.randint(-60, 60), rng.randint(-60, 60)]])
            yield {"reading": "py2", "op": rng.choice(RAT_BIN), "self": [n1, d1], "other": o}
        for a in range(-4, 5):
            for b in range(-4, 5):
                yield {"reading": "py2", "op": "init", "self": [a, b], "other": None}
                yield {"reading": "py2", "op": "quotient", "self": [a, b], "other": None}
                if a and b:
                    yield {"reading": "py2", "op": "quotient-rat", "self": [a, b],
                           "other": ["r", b, a + b]}

    def request(self, pl):
        (n, d), op, o = pl["self"], pl["op"], pl["other"]
        py2 = pl["reading"] == "py2"
        pre = f"({'c19-table-run-py2' if py2 else 'c19-table-run'} 0 0 0 {TABLE_FUEL}"
        obj = _v_ratI if py2 else _v_ratF
        if op == "init":
            return f"{pre} Rational.__init__ (o Rational) (i {n}) (i {d}))"
        if op == "quotient":
            return f"{pre} primitives.quotient (i {n}) (i {d}))"
        if op == "quotient-rat":
            return f"{pre} primitives.quotient {obj(n, d)} {obj(o[1], o[2])})"
        other = "" if o is None else (f" (i {o[1]})" if o[0] == "i" else " " + obj(o[1], o[2]))
        return f"{pre} Rational.{RAT_METHOD[op]} {obj(n, d)}{other})"

    def _py2(self, pl):
        from ..c19_py2 import worker
        key = json.dumps(pl, sort_keys=True)
        if key not in self._cache:
            (n, d), op, o = pl["self"], pl["op"], pl["other"]
            if op in ("init", "quotient"):
                fn = "Rational.__init__" if op == "init" else "primitives.quotient"
                req = {"fn": fn, "args": [["i", n], ["i", d]]}
            elif op == "quotient-rat":
                req = {"fn": "primitives.quotient", "args": [["raw", n, d], ["raw", o[1], o[2]]]}
            else:
                other = None if o is None else (o if o[0] == "i" else ["raw", o[1], o[2]])
                req = {"fn": "Rational." + RAT_METHOD[op], "self": ["raw", n, d], "other": other}
            self._cache[key] = worker().ask(req)
        return self._cache[key]

    def run_impl(self, pl):
        if pl["reading"] == "py2":
            r = self._py2(pl)
            if r[0] == "i":
                return repr(("num", Fraction(r[1])))
            if r[0] == "r":
                return repr(("obj", "Rational", {"Numerator": ("num", Fraction(r[1])),
                                                 "Denominator": ("num", Fraction(r[2]))}))
            if r[0] == "raise":
                return repr(("raise", r[1]))
            return repr(("other", str(r)))
        from pymbolic.rational import Rational
        (n, d), op, o = pl["self"], pl["op"], pl["other"]
        try:
            a = _real_rational(n, d)
            b = None if o is None else (int(o[1]) if o[0] == "i" else _real_rational(o[1], o[2]))
            f = Rational.__dict__[RAT_METHOD[op]]
            r = f(a) if b is None else f(a, b)
        except (AttributeError, ArithmeticError, RuntimeError, TypeError) as ex:
            return repr(("raise", type(ex).__name__))
        return repr(_canon_real(r))

    def agree(self, model, impl, pl):
        from ..sexp import loads
        try:
            got = repr(_canon_model(loads(model)))
        except Exception:
            return "diff"
        if got == impl:
            return "ok"
        if "stuck" in model and "int ** negative" in model:
            return "trivial"
        return "diff"

    def nontrivial_key(self, pl, model, impl):
        return json.dumps(pl, sort_keys=True)

    def stats(self, pl, mo, io, acc):
        k = pl["reading"] + " " + pl["op"]
        acc[k] = acc.get(k, 0) + 1


# ---------------------------------------------------------------------------------------------
# The symbolic FFT: `fft` run on expression objects with a SYMBOLIC root of unity
# ---------------------------------------------------------------------------------------------

class _SymDtype:
    kind = "c"

    @staticmethod
    def type(v):
        return v


class SymNp:
    """Stand-in for numpy in `fft(..., custom_np=...)` on object arrays of expressions.  `exp` maps
    the complex argument `sign*(-2j)*pi*k/m` back to the exact exponent `e = n*k/m (mod n)` of the
    top-level root and returns the SYMBOL of that twiddle: the int `1` for `e = 0` (numpy's
    `exp(0)` is exactly 1, which `x * 1 -> x` folds away), `Power(z, e)` otherwise."""
    complex128 = _SymDtype

    def __init__(self, n, sign, z="z"):
        from pymbolic import var
        self.n, self.sign, self.z = n, sign, var(z)

    def dtype(self, d):
        return _SymDtype

    def arange(self, a, b, dtype=None):
        import numpy as np
        return np.arange(a, b, dtype=np.complex128)

    def concatenate(self, parts, axis=0):
        import numpy as np
        return np.concatenate(parts, axis=axis)

    def _one(self, c):
        from pymbolic.primitives import Power
        c = complex(c)
        if abs(c.real) > 1e-9:
            raise _BadTwiddle(f"exp argument has real part {c.real}")
        val = c.imag / (-2 * math.pi) * self.sign
        fr = Fraction(val).limit_denominator(1 << 16)
        if abs(float(fr) - val) > 1e-9:
            raise _BadTwiddle(f"exp argument/(-2j*pi) = {val} is not a small rational")
        e = fr * self.n
        if e.denominator != 1:
            raise _BadTwiddle(f"exponent {fr} is not a multiple of 1/{self.n}")
        if c == 0:
            return 1
        e = int(e) % self.n
        if e == 0:
            raise _BadTwiddle("a non-zero angle that is a multiple of 2*pi")
        return Power(self.z, e)

    def exp(self, arg):
        import numpy as np
        if isinstance(arg, np.ndarray):
            out = np.empty(len(arg), dtype=object)
            for i, c in enumerate(arg):
                out[i] = self._one(c)
            return out
        return self._one(arg)


def sym_wrap_intermediate(x):
    """the nested `wrap_intermediate` of `sym_fft`, word for word (its shape is pinned by
    `sym_fft_wrapper_current`)"""
    import numpy
    if len(x) > 1:
        from pymbolic.primitives import CommonSubexpression
        result = numpy.empty(len(x), dtype=object)
        for i, x_i in enumerate(x):
            result[i] = CommonSubexpression(x_i)
        return result
    else:
        return x


def _obj_array(xs):
    import numpy as np
    a = np.empty(len(xs), dtype=object)
    for i, e in enumerate(xs):
        a[i] = e
    return a


def sym_fft_symbolic(xs, sign):
    """the REAL `fft`, called the way `sym_fft` calls it, with the symbolic-root stand-in"""
    from pymbolic import algorithm as al
    with warnings.catch_warnings():
        warnings.simplefilter("ignore")
        return list(al.fft(sym_wrap_intermediate(_obj_array(xs)), sign=sign,
                           wrap_intermediate=sym_wrap_intermediate,
                           complex_dtype=_SymDtype, custom_np=SymNp(len(xs), sign)))


def _sym_inputs(spec):
    """input expressions from a JSON spec: "v3" | 5 | ["+", a, b] | ["*", a, b]"""
    from pymbolic import var
    from pymbolic.primitives import Product, Sum

    def one(t):
        if isinstance(t, str):
            return var(t)
        if isinstance(t, int):
            return t
        a, b = one(t[1]), one(t[2])
        return Sum((a, b)) if t[0] == "+" else Product((a, b))
    return [one(t) for t in spec]


class _ZpPow(Zp):
    """Z_p element that also supports `** int` (the evaluator computes `z ** e`)"""
    def __pow__(self, e):
        return _ZpPow(pow(self.v, int(e), self.p), self.p)


class SymFftTrees(Stream):
    """the symbolic FFT: the trees the REAL `fft` builds on expression inputs (called as `sym_fft`
    calls it: inputs and every block of sub-transforms wrapped in CommonSubexpression) with a
    SYMBOLIC root of unity, vs the Lean model `symFft (symTw z)` — compared structurally, node for
    node; and the trees of the real `sym_fft` itself (numpy twiddles, NearZeroKiller) with every
    complex constant matched to the power of the root it approximates.  Oracle: the trees evaluate
    EXACTLY, over Z_p with a root of order n for `z`, to the O(n^2) transform of the input values."""
    name = "symfft-trees"

    def cases(self, rng, tier):
        big = tier != "quick"
        top = 24 if big else 16
        for n in range(1, top + 1):
            for sign in (1, -1):
                yield {"what": "fft", "n": n, "sign": sign, "x": [f"v{i}" for i in range(n)]}
            yield {"what": "sym_fft", "n": n, "sign": 1, "x": [f"v{i}" for i in range(n)]}
            if n % 2 == 0 or n < 8:
                yield {"what": "sym_fft", "n": n, "sign": -1, "x": [f"v{i}" for i in range(n)]}
        for n in ([25, 27, 30, 32, 36, 49, 64] if big else [rng.choice([25, 27, 30, 32])]):
            yield {"what": "fft", "n": n, "sign": 1, "x": [f"v{i}" for i in range(n)]}
            yield {"what": "sym_fft", "n": n, "sign": rng.choice([1, -1]),
                   "x": [f"v{i}" for i in range(n)]}

        def leaf():
            return rng.choice([f"v{rng.randrange(4)}", rng.randint(-3, 3), f"v{rng.randrange(4)}"])

        def item():
            k = rng.randrange(6)
            if k < 3:
                return leaf()
            return [rng.choice(["+", "*"]), leaf(), leaf()]
        for _ in range(400 if big else 60):
            n = rng.randint(1, 12)
            yield {"what": "fft", "n": n, "sign": rng.choice([1, -1]), "x": [item() for _ in range(n)]}

    def request(self, pl):
        from ..sexp import dumps, expr_to_sx
        xs = _sym_inputs(pl["x"])
        return '(c19-symfft "z" ' + dumps([expr_to_sx(e) for e in xs]) + ")"

    def _twiddle_symbol(self, c, n, sign):
        """the power of the root a numeric constant of the real `sym_fft` approximates"""
        from pymbolic.primitives import Power
        from pymbolic import var
        c = complex(c)
        ang = cmath.phase(c) / (-2 * math.pi) * sign
        e = round(ang * n) % n
        if abs(c - cmath.exp(-2j * math.pi * sign * e / n)) > 1e-9 or e == 0:
            raise _BadTwiddle(f"constant {c!r} is not a power of the root of order {n}")
        return Power(var("z"), e)

    def _trees(self, pl):
        xs = _sym_inputs(pl["x"])
        if pl["what"] == "fft":
            return sym_fft_symbolic(xs, pl["sign"])
        from pymbolic import algorithm as al
        from pymbolic.mapper import IdentityMapper
        n, sign, me = pl["n"], pl["sign"], self

        class Symbolise(IdentityMapper):
            def map_constant(self, expr):
                if isinstance(expr, (complex, float)):
                    return me._twiddle_symbol(expr, n, sign)
                return expr

            def map_common_subexpression(self, expr):
                return type(expr)(self.rec(expr.child), expr.prefix, expr.scope)
        with warnings.catch_warnings():
            warnings.simplefilter("ignore")
            res = al.sym_fft(_obj_array(xs), sign=sign)
        return [Symbolise()(e) for e in res]

    def run_impl(self, pl):
        from ..sexp import dumps, expr_to_sx
        try:
            return dumps([expr_to_sx(e) for e in self._trees(pl)])
        except _BadTwiddle as ex:
            return f"(bad-twiddle {str(ex)[:80]!r})"
        except (ArithmeticError, TypeError, AttributeError, IndexError) as ex:
            return f"(raise {type(ex).__name__})"

    def oracle(self, pl):
        from pymbolic.mapper.evaluator import EvaluationMapper
        n = pl["n"]
        try:
            trees = self._trees(pl)
        except Exception as ex:     # noqa: BLE001
            return Failure(f"symfft-{pl['what']}-raises", f"n={n}: {ex!r}", pl)
        p = primes_for(n, 1)[0]
        z = root_of_order(p, n) if n > 1 else 1
        env = {f"v{i}": _ZpPow((7 * i * i + 3 * i + 2) % p, p) for i in range(max(n, 4))}
        env["z"] = _ZpPow(z, p)
        xs = _sym_inputs(pl["x"])

        def val(e):
            r = EvaluationMapper(env)(e) if not isinstance(e, int) else e
            return r.v if isinstance(r, Zp) else int(r) % p
        try:
            inputs = [val(e) for e in xs]
            got = [val(t) for t in trees]
        except Exception as ex:     # noqa: BLE001
            return Failure(f"symfft-{pl['what']}-evaluate-raises", f"n={n}: {ex!r}", pl)
        zp = [pow(z, e, p) for e in range(max(n, 1))]
        want = [sum(zp[(k * j) % n] * inputs[j] for j in range(n)) % p for k in range(n)]
        if got != want:
            bad = [k for k in range(len(want)) if k >= len(got) or got[k] != want[k]]
            return Failure(f"symfft-{pl['what']}-vs-dft",
                           f"n={n} sign={pl['sign']} p={p} z={z}: the trees evaluate to something "
                           f"else than the transform at indices {bad[:6]}", pl)
        return None

    def shrink(self, pl):
        if pl["n"] > 1 and all(isinstance(t, str) for t in pl["x"]):
            for m in (pl["n"] - 1, pl["n"] // 2):
                if m >= 1:
                    yield dict(pl, n=m, x=[f"v{i}" for i in range(m)])

    def nontrivial_key(self, pl, model, impl):
        return json.dumps(pl, sort_keys=True)

    def stats(self, pl, mo, io, acc):
        acc[pl["what"]] = acc.get(pl["what"], 0) + 1
        acc["lengths"] = sorted(set(acc.get("lengths", [])) | {pl["n"]})


# ---------------------------------------------------------------------------------------------
# Polynomials combined with NON-polynomial operands (constants, polynomials in another variable)
# ---------------------------------------------------------------------------------------------

def _cf(spec):
    """coefficient / scalar spec -> Python value: int | ["q", n, d] | ["y", [[e, spec] ...]]"""
    from pymbolic import var
    from pymbolic.polynomial import Polynomial
    if isinstance(spec, int):
        return spec
    if spec[0] == "q":
        return Fraction(spec[1], spec[2])
    return Polynomial(var("y"), tuple((int(e), _cf(c)) for e, c in spec[1]))


def _cf_val(spec, yv):
    """the value of a coefficient spec at y = yv, from the spec alone"""
    if isinstance(spec, int):
        return spec
    if spec[0] == "q":
        return Fraction(spec[1], spec[2])
    return sum(_cf_val(c, yv) * yv ** e for e, c in spec[1])


def _sp_val(terms, xv, yv):
    return sum(_cf_val(c, yv) * xv ** e for e, c in terms)


def _obj_val(obj, env):
    """value of what the code returned, read off its term list: a number, or a Polynomial whose
    base is a variable of `env` and whose coefficients are such objects again"""
    from pymbolic.polynomial import Polynomial
    from pymbolic.primitives import Variable
    if isinstance(obj, Polynomial):
        if not isinstance(obj.base, Variable) or obj.base.name not in env:
            raise ValueError(f"base {obj.base!r}")
        b = env[obj.base.name]
        return sum(_obj_val(c, env) * b ** e for e, c in obj.data)
    if isinstance(obj, bool) or not isinstance(obj, (int, Fraction)):
        raise ValueError(f"not an exact number: {obj!r}")
    return obj


SCALAR_OPS = ["add", "radd", "sub", "rsub", "mul", "rmul", "divmod", "floormod"]
POINTS_XY = [(-3, 2), (-1, -1), (0, 3), (1, 0), (2, -2), (Fraction(1, 2), Fraction(-3, 2)), (5, 1)]


class PolyScalar(Stream):
    """Polynomial (op) constant and constant (op) Polynomial — `+ - *`, `divmod`, `//` and `%` with
    an int / Fraction operand on either side, coefficients ints or Fractions — and the same with a
    polynomial in ANOTHER variable standing where the constant stood (coefficients that are
    polynomials in `y`, operand a polynomial in `y`: the branch "the other operand does not involve
    my base").  Oracle: the value of the result, read off its term list, is that operation on the
    values at several points; for quotient-with-remainder value(p) = value(q)*value(d) + value(r),
    for `//` and `%` together as well."""
    name = "poly-scalar"

    @staticmethod
    def _modelled(pl):
        return (not pl.get("nested") and isinstance(pl["s"], int)
                and all(isinstance(c, int) for _, c in pl["p"]))

    def request(self, pl):
        if not self._modelled(pl):
            return "(algo-polyscalar noclaim)"
        return f"(algo-polyscalar {pl['op']} {poly_sx(pl['p'])} {pl['s']})"

    def _scalar(self, rng, kind, nz=False):
        while True:
            if kind == "int":
                s = rng.choice([0, 1, -1, 2, rng.randint(-9, 9), rng.randint(-40, 40)])
            else:
                s = rng.choice([rng.randint(-6, 6), ["q", rng.randint(-9, 9), rng.randint(1, 6)]])
            if not nz or _cf_val(s, 0) != 0:
                return s

    def _terms(self, rng, kind, maxlen=4, maxe=6):
        exps = sorted(rng.sample(range(maxe + 1), rng.randint(0, maxlen)))
        return [[e, self._scalar(rng, kind, nz=True)] for e in exps]

    def _ypoly(self, rng, monic=False, allow_empty=False):
        exps = sorted(rng.sample(range(4), rng.randint(0 if allow_empty else 1, 3)))
        t = [[e, rng.choice([c for c in range(-4, 5) if c])] for e in exps]
        if monic and t:
            t[-1][1] = rng.choice([1, -1])
        return ["y", t]

    def cases(self, rng, tier):
        big = tier != "quick"
        # every one- and two-term polynomial with small coefficients divided by every small divisor:
        # all sign combinations, coefficients below / equal to / above the divisor in magnitude
        cs = [c for c in range(-4 if not big else -6, 5 if not big else 7) if c]
        ds = [d for d in range(-5 if not big else -7, 6 if not big else 8) if d]
        for d in ds:
            for c0 in cs:
                yield {"op": "divmod", "p": [[rng.randint(0, 3), c0]], "s": d}
                for c1 in cs:
                    e0 = rng.randint(0, 2)
                    yield {"op": ["divmod", "floormod"][(c0 + c1 + d) % 2],
                           "p": [[e0, c0], [e0 + rng.randint(1, 3), c1]], "s": d}
        for i in range(6000 if big else 700):
            kind = ["int", "rat"][i % 3 == 2]
            op = SCALAR_OPS[i % 8]
            yield {"op": op, "p": self._terms(rng, kind),
                   "s": self._scalar(rng, kind, nz=op in ("divmod", "floormod") and i % 16 >= 8)}
        # polynomials in x over Z[y] with an operand from Z[y]
        for i in range(3000 if big else 300):
            op = SCALAR_OPS[i % 8]
            if op in ("divmod", "floormod"):
                exps = sorted(rng.sample(range(5), rng.randint(1, 3)))
                p = [[e, self._ypoly(rng)] for e in exps]
                s = self._ypoly(rng, monic=i % 3 != 0)
            else:
                exps = sorted(rng.sample(range(5), rng.randint(0, 3)))
                p = [[e, rng.choice([self._ypoly(rng), rng.choice([c for c in range(-4, 5) if c])])]
                     for e in exps]
                s = self._ypoly(rng)
            yield {"op": op, "p": p, "s": s, "nested": True}

    def run_impl(self, pl):
        if not self._modelled(pl):
            return "(not-modelled)"
        try:
            r = self._compute(pl)
        except ZeroDivisionError:
            return "ZeroDivisionError"
        try:
            if pl["op"] in ("divmod", "floormod"):
                return f"({poly_sx(r[0].data)} {poly_sx(r[1].data)})"
            return poly_sx(r.data)
        except Exception as ex:     # noqa: BLE001  (not a polynomial with int coefficients)
            return f"(unexpected {type(ex).__name__})"

    def _compute(self, pl):
        from pymbolic import var
        from pymbolic.polynomial import Polynomial
        p = Polynomial(var("x"), tuple((int(e), _cf(c)) for e, c in pl["p"]))
        s = _cf(pl["s"])
        op = pl["op"]
        if op == "add":
            return p + s
        if op == "radd":
            return s + p
        if op == "sub":
            return p - s
        if op == "rsub":
            return s - p
        if op == "mul":
            return p * s
        if op == "rmul":
            return s * p
        if op == "divmod":
            return divmod(p, s)
        return (p // s, p % s)

    def oracle(self, pl):
        op = pl["op"]
        fam = "nested" if pl.get("nested") else "scalar"
        szero = all(_cf_val(pl["s"], yv) == 0 for yv in range(-2, 6))
        try:
            r = self._compute(pl)
        except ZeroDivisionError as ex:
            if op in ("divmod", "floormod") and szero:
                return None
            return Failure(f"poly-{fam}-{op}-raises", f"{op} of {pl['p']} and {pl['s']}: {ex!r}", pl)
        except Exception as ex:     # noqa: BLE001
            return Failure(f"poly-{fam}-{op}-raises", f"{op} of {pl['p']} and {pl['s']}: {ex!r}", pl)
        for xv, yv in POINTS_XY:
            env = {"x": xv, "y": yv}
            vp, vs = _sp_val(pl["p"], xv, yv), _cf_val(pl["s"], yv)
            try:
                if op in ("divmod", "floormod"):
                    want, got = vp, _obj_val(r[0], env) * vs + _obj_val(r[1], env)
                else:
                    want = {"add": vp + vs, "radd": vs + vp, "sub": vp - vs, "rsub": vs - vp,
                            "mul": vp * vs, "rmul": vs * vp}[op]
                    got = _obj_val(r, env)
            except ValueError as ex:
                return Failure(f"poly-{fam}-{op}-not-a-polynomial",
                               f"{op} of {pl['p']} and {pl['s']} returned {r!r}: {ex}", pl)
            if want != got:
                what = ("value(q)*value(d) + value(r)" if op in ("divmod", "floormod")
                        else "the value of the result")
                key = f"poly-{fam}-{op}"
                if op == "rsub" and self._negated(pl, r):
                    key += "-negated"       # c - p computed as p - c, at every point
                return Failure(key,
                               f"{op} of p = {pl['p']} and {pl['s']}: {what} is {got} at x={xv}, "
                               f"y={yv}; the operation on the values gives {want}", pl)
        return None

    def _negated(self, pl, r):
        try:
            return all(_obj_val(r, {"x": xv, "y": yv})
                       == _sp_val(pl["p"], xv, yv) - _cf_val(pl["s"], yv) for xv, yv in POINTS_XY)
        except ValueError:
            return False

    def shrink(self, pl):
        p = pl["p"]
        for i in range(len(p)):
            yield dict(pl, p=p[:i] + p[i + 1:])
        for i, (e, c) in enumerate(p):
            if isinstance(c, int):
                for v in (1, -1, 2, 3):
                    if abs(v) < abs(c):
                        yield dict(pl, p=p[:i] + [[e, v]] + p[i + 1:])
            if e > 0 and (i == 0 or p[i - 1][0] < e - 1):
                yield dict(pl, p=p[:i] + [[e - 1, c]] + p[i + 1:])
        if isinstance(pl["s"], int):
            for v in (1, -1, 2, 3):
                if abs(v) < abs(pl["s"]):
                    yield dict(pl, s=v)

    def nontrivial_key(self, pl, model, impl):
        return json.dumps(pl, sort_keys=True) if pl["p"] else None

    def stats(self, pl, mo, io, acc):
        k = ("nested " if pl.get("nested") else "") + pl["op"]
        acc[k] = acc.get(k, 0) + 1


# ---------------------------------------------------------------------------------------------
# "... also after a mapper has rewritten their coefficients"
# ---------------------------------------------------------------------------------------------

def _rw_expr(spec):
    """coefficient spec -> pymbolic object: int | "name" | ["+", s, s] | ["*", s, s]"""
    from pymbolic import var
    from pymbolic.primitives import Product, Sum
    if isinstance(spec, int):
        return spec
    if isinstance(spec, str):
        return var(spec)
    a, b = _rw_expr(spec[1]), _rw_expr(spec[2])
    return Sum((a, b)) if spec[0] == "+" else Product((a, b))


def _rw_ref(spec, mapper):
    """what the rewrite makes of a coefficient, computed on the spec (the reference)"""
    kind = mapper[0]
    if isinstance(spec, int):
        if kind == "const":
            _, k, c0, m = mapper
            v = k * spec - c0
            return v % m if m else v
        return spec
    if isinstance(spec, str):
        if kind == "subst" and spec in mapper[1]:
            return mapper[1][spec]
        return spec
    return [spec[0], _rw_ref(spec[1], mapper), _rw_ref(spec[2], mapper)]


def _rw_val(spec, env):
    if isinstance(spec, int):
        return spec
    if isinstance(spec, str):
        return env[spec]
    a, b = _rw_val(spec[1], env), _rw_val(spec[2], env)
    return a + b if spec[0] == "+" else a * b


def _rw_names(spec, acc):
    if isinstance(spec, str):
        acc.add(spec)
    elif not isinstance(spec, int):
        _rw_names(spec[1], acc)
        _rw_names(spec[2], acc)
    return acc


def _rw_apply(mapper, poly):
    """the REAL rewrite: an IdentityMapper-derived mapper run over the Polynomial object"""
    if mapper[0] == "subst":
        from pymbolic import substitute
        return substitute(poly, {k: _rw_expr(v) for k, v in mapper[1].items()})
    from pymbolic.mapper import IdentityMapper
    _, k, c0, m = mapper

    class ConstRewriter(IdentityMapper):
        def map_constant(self, expr, *args, **kwargs):
            if isinstance(expr, int) and not isinstance(expr, bool):
                v = k * expr - c0
                return v % m if m else v
            return expr
    return ConstRewriter()(poly)


REWRITE_OPS = ["value", "value", "add", "sub", "mul", "pow", "divmod", "value"]


class PolyRewrite(Stream):
    """Polynomials whose coefficients were rewritten by a mapper (substitution of coefficient
    variables by 0 / constants / other variables / expressions, renaming of the base, a mapper
    that rewrites every integer constant: reduction mod m, scaling, shifting) — generated by
    WHICH coefficients vanish (none, trailing, leading, inner, all, random) and which come back as
    the identical object.  Oracle: the value of the rewritten polynomial M(p) — read off its term
    list and through `evaluate`, in an environment that holds only the variables that survive the
    rewrite — is  sum_i value(M(c_i)) * x**e_i  with the rewrite done independently on the spec;
    and sums, differences, products, powers and quotient-with-remainder of rewritten polynomials
    evaluate to that operation on those values."""
    name = "poly-rewrite"
    has_model = False

    def _sym_coeff(self, rng, avoid=()):
        names = [n for n in ("a", "b", "c") if n not in avoid]
        k = rng.randrange(7)
        if k < 3:
            return rng.choice(names)
        if k < 5:
            return rng.choice([c for c in range(-4, 7) if c])
        return [rng.choice("+*"), rng.choice(names + [rng.randint(1, 4)]), rng.choice(names)]

    def _pattern(self, rng, n):
        """positions (into the sorted term list) whose rewritten coefficient is to vanish"""
        k = rng.randrange(7)
        if n == 0 or k == 0:
            return set()
        if k == 1:
            return set(range(n - rng.randint(1, min(2, n)), n))        # trailing (highest exponents)
        if k == 2:
            return set(range(rng.randint(1, min(2, n))))               # lowest exponents
        if k == 3 and n > 2:
            return {rng.randrange(1, n - 1)}                           # an inner one
        if k == 4:
            return set(range(n))                                       # all
        if k == 5:
            return {n - 1}
        return {i for i in range(n) if rng.random() < 0.4}

    def _one(self, rng, mode, n, shared=None):
        """-> (terms, mapper) for one polynomial with n terms in the given mode"""
        exps = sorted(rng.sample(range(7), n))
        zero = self._pattern(rng, n)
        if mode == "subst":
            if shared is not None:
                mapper = shared
            else:
                target = rng.choice(["a", "b"])
                mapper = ["subst", {target: 0}]
                extra = rng.randrange(5)
                if extra == 1:
                    mapper[1][rng.choice([n for n in ("a", "b", "c") if n != target])] = \
                        rng.choice([0, 3, "d", ["+", "d", 1]])
                elif extra == 2:
                    mapper[1]["x"] = "t"                               # the base is renamed
                elif extra == 3:
                    mapper = ["subst", {target: rng.choice([2, "c", ["*", "c", "c"]])}]
            gone = sorted(k for k, v in mapper[1].items() if v == 0)
            terms = []
            for i, e in enumerate(exps):
                if i in zero and gone:
                    terms.append([e, rng.choice(gone)])
                else:
                    terms.append([e, self._sym_coeff(rng, avoid=gone if rng.random() < 0.7 else ())])
            return terms, mapper
        # constant rewriting: c -> (k*c - c0) mod m
        if shared is not None:
            mapper = shared
        else:
            which = rng.randrange(5)
            if which <= 1:
                mapper = ["const", 1, 0, rng.randint(2, 7)]            # reduction mod m
            elif which == 2:
                mapper = ["const", 1, rng.choice([1, 2, 3, -2]), 0]     # shift
            elif which == 3:
                mapper = ["const", rng.choice([0, 1, 2, -1]), 0, 0]     # scaling (0: everything vanishes)
            else:
                mapper = ["const", rng.choice([1, 2]), rng.randint(0, 3), rng.randint(2, 6)]
        _, k, c0, m = mapper
        pool = [c for c in range(-9, 13) if c]
        vanishing = [c for c in pool if ((k * c - c0) % m if m else k * c - c0) == 0]
        staying = [c for c in pool if ((k * c - c0) % m if m else k * c - c0) == c]
        other = [c for c in pool if c not in vanishing]
        terms = []
        for i, e in enumerate(exps):
            if i in zero and vanishing:
                terms.append([e, rng.choice(vanishing)])
            elif staying and rng.random() < 0.6:
                terms.append([e, rng.choice(staying)])
            else:
                terms.append([e, rng.choice(other or pool)])
        return terms, mapper

    def cases(self, rng, tier):
        for i in range(700 if tier == "quick" else 12000):
            mode = ["subst", "const"][i % 2]
            op = REWRITE_OPS[(i // 2) % 8]
            if op == "divmod":
                mode = "const"
            p, mapper = self._one(rng, mode, rng.randint(1, 4))
            q, _ = self._one(rng, mode, rng.randint(1, 3), shared=mapper)
            yield {"op": op, "p": p, "q": q, "mapper": mapper, "n": rng.randint(0, 3),
                   "seed": rng.randint(0, 10**6)}

    def run_impl(self, pl):
        return "(oracle-only)"

    def _poly(self, terms):
        from pymbolic import var
        from pymbolic.polynomial import Polynomial
        return Polynomial(var("x"), tuple((int(e), _rw_expr(c)) for e, c in terms))

    def _value(self, obj, env):
        """-> (value read off the term list, value through evaluate)"""
        from pymbolic.mapper.evaluator import EvaluationMapper
        from pymbolic.polynomial import Polynomial
        ev = EvaluationMapper(env)

        def num(c):
            return c if isinstance(c, (int, Fraction)) else ev(c)

        def read(o):
            if isinstance(o, Polynomial):
                b = num(o.base)
                return sum(read(c) * b ** e for e, c in o.data)
            return num(o)
        return read(obj), num(obj)

    def oracle(self, pl):
        import random
        op, mapper = pl["op"], pl["mapper"]
        rng = random.Random(pl["seed"])
        rp = [[e, _rw_ref(c, mapper)] for e, c in pl["p"]]
        rq = [[e, _rw_ref(c, mapper)] for e, c in pl["q"]]
        base = mapper[1].get("x", "x") if mapper[0] == "subst" else "x"
        names = set()
        for _, c in rp + (rq if op in ("add", "sub", "mul", "divmod") else []):
            _rw_names(c, names)
        for trial in range(3):
            env = {n: rng.randint(-4, 5) for n in sorted(names)}
            env[base] = rng.choice([-3, -2, -1, 0, 1, 2, 3, Fraction(1, 2), Fraction(-2, 3)])
            wp = sum(_rw_val(c, env) * env[base] ** e for e, c in rp)
            wq = (sum(_rw_val(c, env) * env[base] ** e for e, c in rq)
                  if op in ("add", "sub", "mul", "divmod") else None)
            # 1. the rewritten polynomials themselves
            operands = [("p", pl["p"], wp)] + ([("q", pl["q"], wq)] if wq is not None else [])
            mapped = {}
            for which, terms, w in operands:
                try:
                    mapped[which] = _rw_apply(mapper, self._poly(terms))
                    got_read, got_eval = self._value(mapped[which], env)
                except Exception as ex:     # noqa: BLE001
                    return Failure("poly-rewrite-value-raises",
                                   f"{mapper} over {which} = {terms}, evaluated at {env}: {ex!r}", pl)
                if got_read != w:
                    return Failure("poly-rewrite-value",
                                   f"{mapper} over {which} = {terms}: the terms of the result "
                                   f"{mapped[which].data if hasattr(mapped[which], 'data') else mapped[which]!r} "
                                   f"give {got_read} at {env}; rewriting the coefficients gives {w}", pl)
                if got_eval != w:
                    return Failure("poly-rewrite-value-evaluated",
                                   f"{mapper} over {which} = {terms}: evaluate gives {got_eval} at {env}; "
                                   f"rewriting the coefficients gives {w}", pl)
            if op == "value":
                continue
            # 2. arithmetic on the rewritten polynomials
            mp, mq = mapped["p"], mapped.get("q")
            try:
                if op == "pow":
                    res, want = mp ** pl["n"], wp ** pl["n"]
                elif op == "add":
                    res, want = mp + mq, wp + wq
                elif op == "sub":
                    res, want = mp - mq, wp - wq
                elif op == "mul":
                    res, want = mp * mq, wp * wq
                else:
                    lead = rq[-1][1] if rq else 0
                    if lead == 0:
                        return None      # a divisor whose leading coefficient vanished
                    res, want = divmod(mp, mq), wp
                if op == "divmod":
                    (q1, q2), (r1, r2) = self._value(res[0], env), self._value(res[1], env)
                    got_read, got_eval = q1 * wq + r1, q2 * wq + r2
                else:
                    got_read, got_eval = self._value(res, env)
            except Exception as ex:     # noqa: BLE001
                return Failure(f"poly-rewrite-{op}-raises",
                               f"{mapper} over {pl['p']} (and {pl['q']}), env {env}: {ex!r}", pl)
            if got_read != want:
                return Failure(f"poly-rewrite-{op}",
                               f"{mapper} over p = {pl['p']}, q = {pl['q']}: the terms of the result give "
                               f"{got_read} at {env}; the operation on the values of the rewritten "
                               f"polynomials gives {want}", pl)
            if got_eval != want:
                return Failure(f"poly-rewrite-{op}-evaluated",
                               f"{mapper} over p = {pl['p']}, q = {pl['q']}: evaluate gives {got_eval} "
                               f"at {env}; the operation on the values of the rewritten polynomials "
                               f"gives {want}", pl)
        return None

    def shrink(self, pl):
        if pl["op"] != "value":
            yield dict(pl, op="value")
        for key in ("p", "q"):
            t = pl[key]
            for i in range(len(t)):
                yield dict(pl, **{key: t[:i] + t[i + 1:]})
            for i, (e, c) in enumerate(t):
                if not isinstance(c, (int, str)):
                    yield dict(pl, **{key: t[:i] + [[e, c[2]]] + t[i + 1:]})
        if pl["mapper"][0] == "subst" and len(pl["mapper"][1]) > 1:
            for k in pl["mapper"][1]:
                yield dict(pl, mapper=["subst", {k2: v for k2, v in pl["mapper"][1].items() if k2 != k}])

    def nontrivial_key(self, pl, model, impl):
        return json.dumps(pl, sort_keys=True)

    def stats(self, pl, mo, io, acc):
        k = pl["mapper"][0] + " " + pl["op"]
        acc[k] = acc.get(k, 0) + 1
        rp = [_rw_ref(c, pl["mapper"]) for _, c in pl["p"]]
        if rp and rp[-1] == 0:
            acc["leading coefficient vanishes"] = acc.get("leading coefficient vanishes", 0) + 1


# ---------------------------------------------------------------------------------------------
# fft / ifft / sym_fft: call HISTORIES in one process (state carried from call to call)
# ---------------------------------------------------------------------------------------------

_fft_worker = None


class _FftWorker:
    def __init__(self):
        import atexit
        import os
        import subprocess
        import sys

        import pymbolic

        from ..core import VERIF
        env = dict(os.environ)
        env["PYTHONPATH"] = os.pathsep.join(
            [p for p in (env.get("PYTHONPATH", ""), VERIF) if p])
        self.proc = subprocess.Popen(
            [sys.executable, os.path.join(VERIF, "harness", "c19_fft_worker.py")], env=env,
            stdin=subprocess.PIPE, stdout=subprocess.PIPE, stderr=subprocess.DEVNULL, text=True)
        hello = json.loads(self.proc.stdout.readline() or "{}")
        mine = os.path.dirname(os.path.realpath(pymbolic.__file__))
        if not hello.get("ok") or hello.get("pymbolic") != mine:
            raise RuntimeError(f"c19 fft worker: {hello} (this process imports {mine})")
        atexit.register(self.close)

    def ask(self, req):
        self.proc.stdin.write(json.dumps(req) + "\n")
        self.proc.stdin.flush()
        line = self.proc.stdout.readline()
        if not line:
            raise RuntimeError("c19 fft worker died")
        return json.loads(line)

    def close(self):
        try:
            self.proc.stdin.close()
            self.proc.wait(timeout=5)
        except Exception:   # noqa: BLE001
            self.proc.kill()


def fft_worker():
    global _fft_worker
    if _fft_worker is None or _fft_worker.proc.poll() is not None:
        _fft_worker = _FftWorker()
    return _fft_worker


def _exact_dft(vals, sign, inverse=False):
    """the definition F[x]_k = sum_j z**(k*j) x_j, z = exp(-2*pi*i*sign/n), term by term with
    exactly reduced angles and correctly rounded sums (math.fsum); `inverse`: sign -1, times 1/n"""
    n = len(vals)
    if inverse:
        sign = -1
    tw = []
    for m in range(n):
        # angle -2*pi*sign*m/n, reduced to the first octant by symmetry would be more accurate than
        # needed: cos/sin of a double below 2*pi are good to an ulp
        ang = -2.0 * math.pi * sign * m / n
        tw.append(complex(math.cos(ang), math.sin(ang)))
    out = []
    for k in range(n):
        re, im = [], []
        for j, v in enumerate(vals):
            w = tw[(k * j) % n]
            re.extend((v.real * w.real, -v.imag * w.imag))
            im.extend((v.real * w.imag, v.imag * w.real))
        c = complex(math.fsum(re), math.fsum(im))
        out.append(c / n if inverse else c)
    return out


FFT_EPS = {"single": 2.0 ** -23, "double": 2.0 ** -52}


def _fft_precision(call):
    """the precision the caller works in: single as soon as the data or the requested complex
    dtype is single precision"""
    if call["fn"] == "sym_fft":
        return "double"
    return "single" if ("c64" in (call["dtype"], call.get("cd")) or call["dtype"] == "f32") else "double"


def _fft_tolerance(call):
    """a generous bound on the rounding error of an n-point transform in the caller's precision:
    64 * eps * (n + 8) * sum |x_j|.  Every output is a sum of the x_j times numbers of modulus 1,
    each of which the code computes as exp of an angle of up to 2*pi*n that is a product of a few
    rounded factors (the recombination twiddles of a prime length are not reduced mod 2*pi), i.e.
    with an absolute error of up to about 25 * n * eps; the unchanged code stays below
    5 * eps * (n + 8) * sum |x_j| on every history tried (prime lengths come closest)."""
    n = len(call["x"])
    den = call.get("den", 1)
    l1 = sum(abs(complex(re, im)) for re, im in call["x"]) / den
    if call["fn"] == "ifft":
        l1 /= max(n, 1)
    return 64 * FFT_EPS[_fft_precision(call)] * (n + 8) * max(l1, 1e-300)


class FftHistory(Stream):
    """fft / ifft / sym_fft called SEVERAL TIMES IN ONE PROCESS — every history in a pristine
    process of its own (harness/c19_fft_worker.py forks one per history), so that whatever the
    functions keep between calls is seen and nothing depends on what other streams called before.
    A history mixes a few lengths (with divisors / multiples, so that the recursion meets the same
    splits again), both signs, single and double precision, real / integer input, the dtype taken
    from the data or from `complex_dtype=`, and the symbolic transform.  Oracle: EVERY call of the
    history equals the O(n^2) definition (ifft: the inverse definition) within the rounding error
    of the precision of THAT call."""
    name = "fft-history"
    has_model = False

    LENGTHS = list(range(1, 65))

    def _vec(self, rng, n, dtype):
        kind = rng.randrange(4)
        lim = 64 if dtype != "i64" else 50
        if kind == 0:
            x = [[0, 0] for _ in range(n)]
            x[rng.randrange(n)] = [8 if dtype != "i64" else 1, 0]
        else:
            x = [[rng.randint(-lim, lim), rng.randint(-lim, lim)] for _ in range(n)]
        if dtype in ("f32", "f64", "i64"):
            x = [[re, 0] for re, _ in x]
        return x

    def _call(self, rng, n):
        fn = rng.choice(["fft", "fft", "fft", "ifft", "ifft", "sym_fft"])
        if fn == "sym_fft":
            if n > 16:
                fn = "fft"
            else:
                return {"fn": fn, "sign": rng.choice([1, -1]), "dtype": "c128", "cd": None, "den": 8,
                        "x": self._vec(rng, n, "c128")}
        dtype = rng.choice(["c64", "c64", "c128", "c128", "f32", "f64", "i64"])
        cd = rng.choice([None, None, "c64", "c128"])
        return {"fn": fn, "sign": rng.choice([1, -1]) if fn == "fft" else -1, "dtype": dtype, "cd": cd,
                "den": 1 if dtype == "i64" else 8, "x": self._vec(rng, n, dtype)}

    def cases(self, rng, tier):
        big = tier != "quick"
        for h in range(60 if big else 8):
            pool = set(rng.sample(self.LENGTHS, 3))
            n0 = rng.choice(sorted(pool))
            pool.add(min(n0 * rng.choice([2, 3, 4]), 128 if big else 96))   # a multiple
            divs = [d for d in range(2, n0) if n0 % d == 0]
            if divs:
                pool.add(rng.choice(divs))
            if big and h % 5 == 0:
                pool.add(rng.choice([81, 97, 100, 128, 143, 210, 256]))
            pool = sorted(pool)
            calls = [self._call(rng, rng.choice(pool)) for _ in range(40 if big else 24)]
            yield {"calls": calls}

    def run_impl(self, pl):
        return "(oracle-only)"

    def _judge(self, pl):
        """-> None | (index of the first failing call, key, detail)"""
        reply = fft_worker().ask({"calls": pl["calls"]})
        if "results" not in reply or len(reply["results"]) != len(pl["calls"]):
            return (-1, "fft-history-harness-error", str(reply)[:300])
        for i, (call, res) in enumerate(zip(pl["calls"], reply["results"])):
            n = len(call["x"])
            what = (f"call {i} of {len(pl['calls'])}: {call['fn']} n={n} dtype={call['dtype']} "
                    f"complex_dtype={call.get('cd')} sign={call['sign']}")
            if "raise" in res:
                return (i, f"fft-history-{call['fn']}-raises", f"{what} raised {res['raise']}: {res.get('msg')}")
            got = [complex(re, im) for re, im in res["ok"]]
            vals = [complex(re, im) / call.get("den", 1) for re, im in call["x"]]
            want = _exact_dft(vals, call["sign"], inverse=call["fn"] == "ifft")
            if len(got) != len(want):
                return (i, f"fft-history-{call['fn']}-length", f"{what}: {len(got)} outputs")
            err = max(abs(g - w) for g, w in zip(got, want))
            tol = _fft_tolerance(call)
            if not err <= tol:
                earlier = sorted({(c["fn"], len(c["x"]), c["dtype"], str(c.get("cd"))) for c in pl["calls"][:i]})
                return (i, f"fft-history-{call['fn']}-vs-dft",
                        f"{what}: differs from the definition by {err:.3e}, the rounding error of "
                        f"{_fft_precision(call)} precision allows {tol:.3e}; calls before it in the same "
                        f"process: {earlier[:12]}")
        return None

    def oracle(self, pl):
        try:
            bad = self._judge(pl)
        except Exception as ex:     # noqa: BLE001
            return Failure("fft-history-harness-error", repr(ex), pl)
        if bad is None:
            return None
        return Failure(bad[1], bad[2], pl)

    def shrink(self, pl):
        calls = pl["calls"]
        try:
            bad = self._judge(pl)
        except Exception:   # noqa: BLE001
            return
        if bad is None or bad[0] < 0:
            return
        i = bad[0]
        last = calls[i]
        if len(calls) > 1:
            yield {"calls": [last]}                      # no history needed at all?
        if len(calls) > 2:
            for j in range(i):
                yield {"calls": [calls[j], last]}        # one earlier call is enough?
        if i + 1 < len(calls):
            yield {"calls": calls[:i + 1]}
        if len(calls) > 2:
            for j in range(i):
                yield {"calls": calls[:j] + calls[j + 1:i + 1]}
        # simpler data: unit impulses
        for j, c in enumerate(calls):
            n = len(c["x"])
            unit = [[c.get("den", 1), 0]] + [[0, 0]] * (n - 1)
            if n > 1:
                unit = [[0, 0], [c.get("den", 1), 0]] + [[0, 0]] * (n - 2)
            if c["x"] != unit:
                yield {"calls": calls[:j] + [dict(c, x=unit)] + calls[j + 1:]}

    def nontrivial_key(self, pl, model, impl):
        return json.dumps([(c["fn"], len(c["x"]), c["dtype"], c.get("cd"), c["sign"]) for c in pl["calls"]])

    def stats(self, pl, mo, io, acc):
        acc["calls"] = acc.get("calls", 0) + len(pl["calls"])
        for c in pl["calls"]:
            k = c["fn"] + " " + _fft_precision(c)
            acc[k] = acc.get(k, 0) + 1
        acc["lengths"] = sorted(set(acc.get("lengths", [])) | {len(c["x"]) for c in pl["calls"]})


def probes():
    """Defects repaired by fix: commits — reported again if they ever return."""
    from pymbolic import evaluate, var
    from pymbolic.mapper.substitutor import SubstitutionMapper, make_subst_func
    from pymbolic.polynomial import Polynomial, _sort_uniq
    x, a, b = var("x"), var("a"), var("b")
    res = []
    try:
        bad = _sort_uniq([(0, 1), (1, 2), (1, -2), (1, 5)]) != [(0, 1), (1, 5)]
    except Exception:
        bad = True
    res.append(("sort-uniq-stale-exponent", bad, "_sort_uniq([(0,1),(1,2),(1,-2),(1,5)])"))
    # known findings of the Rational / quotient model (C19Rational.lean), replayed on the real code
    from pymbolic.primitives import quotient
    try:
        bad = evaluate(quotient(2 ** 1100, 2 ** 1099)) != 2
    except Exception:
        bad = True
    res.append(("quotient-int-huge-overflows", bad,
                "evaluate(quotient(2**1100, 2**1099)): the exact quotient of two integers is 2"))
    try:
        from pymbolic.rational import Rational
        bad = evaluate(Rational(1, 2) + 1) != Fraction(3, 2)
    except Exception:
        bad = True
    res.append(("rational-arithmetic-raises", bad, "Rational(1, 2) + 1"))
    try:
        bad = evaluate((Polynomial(x) + 1) ** 3, {"x": 2}) != 27
    except Exception:
        bad = True
    res.append(("polynomial-unhashable", bad, "evaluate((X+1)**3, {'x': 2}) with the default evaluator"))
    pp = Polynomial(x, ((0, a), (1, b), (2, a * b)))
    try:
        bad = len(SubstitutionMapper(make_subst_func({a: 5}))(pp).data) != 3
    except Exception:
        bad = True
    res.append(("identity-map-polynomial-drops-terms", bad, "SubstitutionMapper({a:5})(Polynomial(x,((0,a),(1,b),(2,a*b))))"))
    try:
        bad = evaluate(pp, {"x": 2, "a": 3, "b": 4}) != 3 + 8 + 48
    except Exception:
        bad = True
    res.append(("evaluator-polynomial-coefficients", bad, "evaluate(Polynomial(x,((0,a),(1,b),(2,a*b))), x=2,a=3,b=4)"))
    # constant - polynomial (Polynomial.__rsub__) returns polynomial - constant
    try:
        bad = (3 - Polynomial(x, ((0, 1), (2, 4)))).data != ((0, 2), (2, -4))
    except Exception:
        bad = True
    res.append(("poly-scalar-rsub-negated", bad,
                "3 - Polynomial(x, ((0, 1), (2, 4))): 2 - 4x^2 expected, 4x^2 - 2 returned"))
    return res


def extract(ctx=None):
    """lean/PV/Generated/Algo.lean from the live source of algorithm.py, polynomial.py, traits.py,
    rational.py, mapper/evaluator.py, mapper/__init__.py (extract/algorithm.py)"""
    from extract.algorithm import extract_algorithm
    return extract_algorithm(ctx)


PROP = Prop(
    id="C19",
    title="Exact-arithmetic helpers and number types compute what they claim",
    lean_targets=["PV.Properties.C19", "PV.Properties.C19Fft", "PV.Properties.C19Table",
                  "PV.Properties.C19Rational", "PV.Properties.C19SymFft", "PV.Properties.C19Scalar"],
    theorems=[],
    extractors=[extract],
    streams=[Arith(), Polys(), FftExact(), TableRun(), RationalPy2(), RationalPy3(), QuotientInts(),
             TableRunRational(), SymFftTrees(), Runtime(), PolyScalar(), PolyRewrite(), FftHistory()],
    probes=[probes],
    trusted_base=["Lean 4.33 kernel; axioms propext, Classical.choice, Quot.sound only",
                  "harness/props/c19.py; CPython big integers",
                  "FFT arithmetic: proved for every commutative ring on the model and tied to the real fft/ifft EXACTLY over Z_p "
                  "through a custom_np stand-in (harness/props/c19.py: ExactNp, Zp) that maps exp(sign*-2j*pi*k/m) back to z**(n*k/m); "
                  "the floating-point complex exp of numpy itself and the symbolic FFT are runtime-checked against the O(n^2) DFT with a tolerance only",
                  "Rational arithmetic: the source is read twice — as Python 3 runs it (floats; every method raises AttributeError: proved on the "
                  "regenerated bodies, mirrored on the real code by rational-py3) and under the Python-2 reading of `/` as `//` it was written for "
                  "(C19Table.py2; tied by rational-py2 / table-run-rational to a copy of the tree under test whose rational.py and traits.py have "
                  "the same rewrite applied to their syntax trees: harness/c19_py2.py, harness/c19_py2_worker.py)",
                  "symbolic FFT: the root of unity is a parameter (a symbol `Power(z, e)`); the real fft is run on expression objects through "
                  "harness/props/c19.py: SymNp, which maps numpy's complex exponent back to the exponent e; over the exact values of the evaluation "
                  "model (Q) a root of unity is +-1",
                  "extract/algorithm.py (ast reader of the function bodies under this property; unknown shapes are errors) and the meaning "
                  "PV/Model/AlgoTable.lean gives the statement language — both exercised by the table-run stream (compiled table interpreter on the "
                  "regenerated table vs the real functions)"],
    level_text='Lean theorems (unbounded): integer_power = x^n in every monoid (negative n refused); extended Euclid satisfies Bezout and returns a gcd up to sign (sign rule proved), lcm consistent; find_factors factorises, FFT index splitting is a bijection; the whole fft recursion (Cooley-Tukey split by find_factors, sub-transforms with their own roots, twiddles, recombination, length-1 and prime base cases) computes the DFT sum_j z^(kj) x_j over EVERY commutative ring for every n >= 1 and every z with z^n = 1 (no primitivity needed), ifft inverts it exactly when n is invertible and z is a principal n-th root (necessary and sufficient; primitive roots in domains are principal), and the Z_p instance run by the driver equals the DFT mod p; sparse polynomial +,-,*,**,divmod are homomorphic to evaluation, _sort_uniq preserves value and sorts, Horner evaluation equals the sum of terms. Tied to the code by correspondence on big integers and random sparse polynomials, and for fft/ifft by EXACT comparison of the real functions run over Z_p (custom_np stand-in) with the model for all lengths 0..64 and longer ones; fft/ifft on complex floats and sym_fft are additionally compared with the O(n^2) DFT numerically (runtime part). Rational: under the Python-2 reading of `/` the regenerated __add__/__sub__/__mul__/__div__ (and reflected), __neg__, reciprocal, __init__, quotient ARE ratAdd/... for all integer fields, and for non-zero denominators value(a op b) = value(a) op value(b) in Q, every division exact, sums reduced with positive denominator (__pow__ exchanges numerator and denominator: rational_pow_inverted_cex); as Python 3 runs the same bodies every arithmetic method of a constructor-built Rational raises AttributeError (rational_*_py3_raises); quotient(a, b) and the Quotient(a, b) node evaluate to a/b. Symbolic FFT: the regenerated fft with any wrapper is c19FftW (fft_wrap_eq_table_current), run on expression objects it returns symFft (sym_fft_eq_table_current), and for every environment with exact values the k-th tree evaluates (den) to sum_j zeta^(kj) value(x_j) (sym_fft_den, through the C03 soundness of the overloaded operators).',
    level_note='T-gen: the bodies of integer_power, extended_euclidean, gcd, lcm, find_factors, fft, ifft, _sort_uniq, the Polynomial methods, traits, Rational.__init__ and the two map_polynomial handlers are re-read from the source on every run into a small imperative language; the hand-written loop functions (integerPowerLoop, extEuclid, findFactors, sortUniq, add, mulRaw/mul, pow, divmodLoop, hornerLoopPy, c19FftStep/c19FftAux) are proved equal to the interpreter of the regenerated bodies for all inputs (PV/Properties/C19Table.lean), so a behaviour-changing source edit breaks an obligation and the streams give the failing input. Trusted: Lean kernel; harness; CPython big integers. Floating-point rounding of the complex FFT (numpy exp/multiply) and the symbolic FFT, polynomial division over fields and mixed bases are not modelled; matrices and mapper traversal of polynomials are checked by oracles on the real code only.',
    technique='Lean 4 proofs about loop-faithful models (well-founded recursion, Mathlib Monoid/Int lemmas) + differential correspondence + numeric DFT oracle',
    design_ref="DESIGN.md §4 C19",
)

PROP.level_note += ' The polynomials stream includes coefficients around and beyond 2**31 / 2**53 / 2**63 / 2**64 and powers whose coefficients outgrow 64 bits (the model computes in Z).'
