"""C03, the NON-arithmetic syntax of the statement: "call, subscript and attribute syntax (and the
comparison/logical constructor methods)".

A *syntax program* is a small JSON term

    P ::= ["v", name] | ["c", int]
        | ["bin", op, P, P] | ["un", op, P] | ["abs", P]
        | ["item", P, I]                         P[I]
        | ["call", P, [P…], [name…], [P…]]        P(*args, **dict(zip(names, vals)))
        | ["attr", P, name, how]                 P.attr(name) (how = "attr") / P.a.name (how = "a")
        | ["cmp", op, P, P]                      P.eq(Q) … P.gt(Q)
        | ["not", P] | ["and", P, P] | ["or", P, P]     P.not_() / P.and_(Q) / P.or_(Q)
    I ::= ["i", P]            a scalar index
        | ["t", [I…]]         a tuple index (possibly empty, possibly nested)
        | ["l", [I…]]         a list index
        | ["eok", I]          pymbolic.primitives.EmptyOK(I)  (only outermost)

It is run twice with the SAME interpreter (`run`): once on `pymbolic.primitives.Variable`s — that
is Python executing the overloaded `__getitem__`, `__call__`, `.attr`, `.a`, `.eq`, … of the code
under test and yields a tree — and once on the plain values of an environment (`x[i]`, `f(*a, **k)`,
`getattr`, `==`, `not`/`and`/`or`, `abs`).  The property: wherever the plain run is defined, the
tree evaluates to a value == the plain one.

The environments hold aggregates that DISTINGUISH the spellings of an index / an argument list /
an attribute name:

  * `d`   a dict keyed by scalars, by 1-tuples, by n-tuples, by nested tuples and by `()`,
          all with different values,
  * `t`   `Table`: a total numeric table with a custom `__getitem__` (an injective code of the key),
  * `tt`  a tuple of tuples,
  * `r`, `g`   `Rec`: records exactly how it was subscripted / called / asked for an attribute,
  * `f`   `Fn`: a numeric function sensitive to the order of positional arguments and to which
          arguments were passed by keyword,
  * `o`   `Obj`: an object with attributes (a number, a table, a function, a nested object, a Rec).
"""
from __future__ import annotations

import itertools
import operator as op
import warnings

import pymbolic.primitives as p

from ..core import Failure, Stream
from ..sexp import A, dumps, exc_to_sx, expr_to_sx

# {{{ values that tell the spellings apart


class Rec:
    """remembers how it was reached: every subscript / call / attribute access returns a new
    `Rec` whose trace extends this one's.  Two are == when their traces are (Python `==` on nested
    tuples / lists / numbers, so `(1,)` and `1` differ and `True == 1`)."""

    def __init__(self, trace):
        object.__setattr__(self, "_trace", trace)

    def __getitem__(self, idx):
        return Rec(("item", self._trace, idx))

    def __call__(self, *args, **kwargs):
        # keyword arguments in the order they were passed (PEP 468)
        return Rec(("call", self._trace, args, tuple(kwargs.items())))

    def __getattr__(self, name):
        if name.startswith("__") or name == "_trace":
            raise AttributeError(name)
        return Rec(("attr", self._trace, name))

    def __setattr__(self, name, value):
        raise AttributeError("read-only")

    def __eq__(self, other):
        return type(other) is Rec and self._trace == other._trace

    def __ne__(self, other):
        return not self.__eq__(other)

    def __hash__(self):
        return 17

    def __iter__(self):
        raise TypeError("Rec is not iterable")

    def __repr__(self):
        return f"Rec{self._trace!r}"


def key_code(key, _top=True):
    """an injective integer code of a nested tuple of small ints (bool counts as its int);
    KeyError for anything else"""
    toks = []

    def walk(k):
        if isinstance(k, tuple):
            toks.append(1)
            for e in k:
                walk(e)
            toks.append(2)
        elif isinstance(k, int) and -4 <= k <= 6:
            toks.append(int(k) + 7)            # 3 … 13
        else:
            raise KeyError(k)
    walk(key)
    acc = 0
    for tk in reversed(toks):
        acc = acc * 15 + tk                     # digits 1 … 13 in base 15: injective
    return acc


class Table:
    """a total numeric table addressed by index tuples of any nesting (custom __getitem__)"""

    def __init__(self, salt):
        self.salt = salt

    def __getitem__(self, key):
        return key_code(key) * 4 + self.salt

    def __repr__(self):
        return f"Table({self.salt})"


class Fn:
    """numeric function: sensitive to the order of the positional arguments and to which
    arguments came by keyword (not to the order of the keywords)"""

    def __init__(self, salt):
        self.salt = salt

    def __call__(self, *args, **kwargs):
        acc = self.salt
        for v in args:
            if isinstance(v, bool) or not isinstance(v, int):
                raise TypeError("Fn takes ints")
            acc = acc * 31 + v
        for name in sorted(kwargs):
            v = kwargs[name]
            if isinstance(v, bool) or not isinstance(v, int):
                raise TypeError("Fn takes ints")
            acc = acc * 37 + (sum(ord(c) for c in name) * 1009 + v)
        return acc

    def __repr__(self):
        return f"Fn({self.salt})"


class Obj:
    def __init__(self, **fields):
        self.__dict__.update(fields)

    def __repr__(self):
        return "Obj(" + ", ".join(sorted(self.__dict__)) + ")"


ATOMS = (0, 1, 2, 3, 4)


def _dict_keys():
    s = ATOMS
    yield ()
    yield ((),)
    for a in s:
        yield a
        yield (a,)
        yield ((a,),)
        yield (((a,),),)
    for a, b in itertools.product(s, s):
        yield (a, b)
        yield ((a, b),)
        yield (a, (b,))
        yield ((a,), b)
    for a, b, c in itertools.product(s[:3], repeat=3):
        yield (a, b, c)


DICT = {k: key_code(k) * 3 + 1 for k in _dict_keys()}
TT = ((1, 2, 3), (4, 5, 6), (7, 8, 9))
INT_ENVS = [(0, 1, 2), (1, 0, 3), (2, 2, 1), (1, 1, 0), (-1, 2, 1)]
ENV_CACHE = None


def envs():
    global ENV_CACHE
    if ENV_CACHE is None:
        ENV_CACHE = []
        for i, j, k in INT_ENVS:
            sub = Obj(n=7 + k, N=70 + k, ns=700 + k, tab=Table(2), fn=Fn(5),
                      rec=Rec(("o.sub.rec",)))
            ENV_CACHE.append({
                "i": i, "j": j, "k": k,
                "d": DICT, "t": Table(1), "tt": TT,
                "r": Rec(("r",)), "g": Rec(("g",)),
                "f": Fn(3),
                "o": Obj(n=5 + i, N=50 + i, ns=500 + i, n_=5000 + i, tab=Table(3), fn=Fn(7),
                         sub=sub, rec=Rec(("o.rec",))),
                # `abs(x)` builds a call of the VARIABLE `abs`: it means abs where that name does
                "abs": abs,
            })
    return ENV_CACHE

# }}}


# {{{ the interpreter (one for both runs)

BINOPS = {"add": op.add, "sub": op.sub, "mul": op.mul, "floordiv": op.floordiv, "mod": op.mod,
          "pow": op.pow, "lshift": op.lshift, "rshift": op.rshift, "and": op.and_, "or": op.or_,
          "xor": op.xor}
UNOPS = {"neg": op.neg, "pos": op.pos, "invert": op.invert}
CMPS = {"eq": op.eq, "ne": op.ne, "lt": op.lt, "le": op.le, "gt": op.gt, "ge": op.ge}
LOGICAL = ("not", "and", "or")


def run(pl, leaf, sym):
    """`pl` on the leaves `leaf(name)`; `sym`: the operands are pymbolic expressions (use the
    method spellings of the syntax that has no operator), else plain Python values"""
    t = pl[0]
    if t == "v":
        return leaf(pl[1])
    if t == "c":
        return pl[1]
    if t == "bin":
        a = run(pl[2], leaf, sym)
        b = run(pl[3], leaf, sym)
        return BINOPS[pl[1]](a, b)
    if t == "un":
        return UNOPS[pl[1]](run(pl[2], leaf, sym))
    if t == "abs":
        return abs(run(pl[1], leaf, sym))
    if t == "item":
        a = run(pl[1], leaf, sym)
        return a[run_idx(pl[2], leaf, sym)]
    if t == "call":
        f = run(pl[1], leaf, sym)
        args = [run(q, leaf, sym) for q in pl[2]]
        kw = {n: run(q, leaf, sym) for n, q in zip(pl[3], pl[4])}
        return f(*args, **kw)
    if t == "attr":
        a = run(pl[1], leaf, sym)
        if not sym:
            return getattr(a, pl[2])
        if not isinstance(a, p.Expression):
            raise AttributeError("attribute syntax on a plain value")
        return a.attr(pl[2]) if pl[3] == "attr" else getattr(a.a, pl[2])
    if t == "cmp":
        a = run(pl[2], leaf, sym)
        b = run(pl[3], leaf, sym)
        if not sym:
            return CMPS[pl[1]](a, b)
        if not isinstance(a, p.Expression):
            raise AttributeError("constructor method of a plain value")
        return getattr(a, pl[1])(b)
    if t == "not":
        a = run(pl[1], leaf, sym)
        if not sym:
            return not a
        if not isinstance(a, p.Expression):
            raise AttributeError("constructor method of a plain value")
        return a.not_()
    if t in ("and", "or"):
        a = run(pl[1], leaf, sym)
        b = run(pl[2], leaf, sym)
        if not sym:
            return (bool(a) and bool(b)) if t == "and" else (bool(a) or bool(b))
        if not isinstance(a, p.Expression):
            raise AttributeError("constructor method of a plain value")
        return a.and_(b) if t == "and" else a.or_(b)
    raise ValueError(t)


def run_idx(ix, leaf, sym):
    t = ix[0]
    if t == "i":
        return run(ix[1], leaf, sym)
    if t == "t":
        return tuple(run_idx(e, leaf, sym) for e in ix[1])
    if t == "l":
        return [run_idx(e, leaf, sym) for e in ix[1]]
    if t == "eok":
        inner = run_idx(ix[1], leaf, sym)
        return p.EmptyOK(inner) if sym else inner
    raise ValueError(t)


def build(pl):
    with warnings.catch_warnings():
        warnings.simplefilter("ignore")
        return run(pl, p.Variable, True)


def plain(pl, env):
    return run(pl, env.__getitem__, False)

# }}}


# {{{ structure: children, replacement, classification

def idx_kids(ix):
    t = ix[0]
    if t == "i":
        return [((1,), ix[1])]
    if t in ("t", "l"):
        out = []
        for n, e in enumerate(ix[1]):
            out += [((1, n) + q, s) for q, s in idx_kids(e)]
        return out
    return [((1,) + q, s) for q, s in idx_kids(ix[1])]


def kids(pl):
    """[(path, sub-program)]: the direct sub-programs, in evaluation order"""
    t = pl[0]
    if t in ("v", "c"):
        return []
    if t in ("bin", "cmp"):
        return [((2,), pl[2]), ((3,), pl[3])]
    if t == "un":
        return [((2,), pl[2])]
    if t in ("abs", "not", "attr"):
        return [((1,), pl[1])]
    if t in ("and", "or"):
        return [((1,), pl[1]), ((2,), pl[2])]
    if t == "item":
        return [((1,), pl[1])] + [((2,) + q, s) for q, s in idx_kids(pl[2])]
    if t == "call":
        return ([((1,), pl[1])] + [((2, n), q) for n, q in enumerate(pl[2])]
                + [((4, n), q) for n, q in enumerate(pl[4])])
    raise ValueError(t)


def replace(pl, path, new):
    if not path:
        return new
    out = list(pl)
    out[path[0]] = replace(out[path[0]], path[1:], new)
    return out


def idx_shape(ix):
    t = ix[0]
    if t == "eok":
        return "emptyok-" + idx_shape(ix[1])
    if t == "i":
        return "scalar"
    if t == "l":
        return "list"
    if not ix[1]:
        return "empty"
    if any(e[0] != "i" for e in ix[1]):
        return "nested"
    return {1: "tuple1", 2: "tuple2"}.get(len(ix[1]), "tupleN")


def classify(pl):
    """which piece of syntax sits at the root (the key of a failure)"""
    t = pl[0]
    if t == "item":
        return "getitem:" + idx_shape(pl[2])
    if t == "call":
        return "call:" + ("empty" if not pl[2] and not pl[3] else "pos" if not pl[3]
                          else "kw" if not pl[2] else "mixed")
    if t == "attr":
        return "attr:" + pl[3]
    if t == "cmp":
        return "ctor:" + pl[1]
    if t in LOGICAL:
        return "ctor:" + t + "_"
    if t == "bin":
        return "bin:" + pl[1]
    if t == "un":
        return "un:" + pl[1]
    return t


def has_var(pl):
    return pl[0] == "v" or any(has_var(s) for _q, s in kids(pl))


def size(pl):
    return 1 + sum(size(s) for _q, s in kids(pl))

# }}}


# {{{ the oracle

def same(want, got, logical):
    try:
        if logical:
            # LogicalNot/And/Or denote a truth value; which object carries it is not specified
            return bool(want) == bool(got)
        return bool(want == got)
    except Exception:
        return False


def check_one(pl):
    """None, or (env shown, want, got, tree) for the first environment where the plain run is
    defined and the tree evaluates to something else"""
    from pymbolic.mapper.evaluator import EvaluationMapper
    try:
        tree = build(pl)
    except RecursionError:
        raise
    except Exception:
        return None               # construction raised: no tree, nothing to check
    if not isinstance(tree, p.Expression):
        return None
    for env in envs():
        try:
            want = plain(pl, env)
        except Exception:
            continue
        try:
            got = EvaluationMapper(env)(tree)
        except Exception as ex:   # noqa: BLE001
            got = ex
        # `not_` denotes `not x`: a bool on both sides, compared exactly (True is not 5);
        # `and_` / `or_`: Python returns an OPERAND, the node a truth value: truth only
        if pl[0] == "not" and not isinstance(got, Exception):
            bad = not (isinstance(got, bool) and got == want)
        else:
            bad = isinstance(got, Exception) or not same(want, got, pl[0] in ("and", "or"))
        if bad:
            shown = {k: env[k] for k in ("i", "j", "k")}
            return shown, want, got, tree
    return None


def syntax_oracle(pl):
    bad = check_one(pl)
    if bad is None:
        # a wrong sub-tree can be masked further up (`x*0`, `and_` of a false operand, an
        # aggregate that ignores its index): look at the pieces on their own as well
        for _q, s in kids(pl):
            if s[0] not in ("v", "c"):
                f = syntax_oracle(s)
                if f is not None:
                    return f
        return None
    # blame the innermost failing sub-program, so that keys are stable under nesting
    for _q, s in kids(pl):
        if s[0] not in ("v", "c"):
            f = syntax_oracle(s)
            if f is not None:
                return f
    shown, want, got, tree = bad
    return Failure(classify(pl), f"program {show(pl)} built {short(tree, 400)}; at {shown} the tree "
                   f"evaluates to {short(got)}, the same program on the plain values gives "
                   f"{short(want)}", pl)


def short(v, n=160):
    r = repr(v)
    return r if len(r) <= n else r[:n] + "…"


def show(pl):
    """the program in Python syntax"""
    t = pl[0]
    if t == "v":
        return pl[1]
    if t == "c":
        return str(pl[1]) if pl[1] >= 0 else f"({pl[1]})"
    if t == "bin":
        sym = {"add": "+", "sub": "-", "mul": "*", "floordiv": "//", "mod": "%", "pow": "**",
               "lshift": "<<", "rshift": ">>", "and": "&", "or": "|", "xor": "^"}[pl[1]]
        return f"({show(pl[2])} {sym} {show(pl[3])})"
    if t == "un":
        return {"neg": "-", "pos": "+", "invert": "~"}[pl[1]] + show(pl[2])
    if t == "abs":
        return f"abs({show(pl[1])})"
    if t == "item":
        return f"{show(pl[1])}[{show_idx(pl[2], True)}]"
    if t == "call":
        parts = [show(q) for q in pl[2]] + [f"{n}={show(q)}" for n, q in zip(pl[3], pl[4])]
        return f"{show(pl[1])}({', '.join(parts)})"
    if t == "attr":
        return f"{show(pl[1])}.attr({pl[2]!r})" if pl[3] == "attr" else f"{show(pl[1])}.a.{pl[2]}"
    if t == "cmp":
        return f"{show(pl[2])}.{pl[1]}({show(pl[3])})"
    if t == "not":
        return f"{show(pl[1])}.not_()"
    return f"{show(pl[1])}.{t}_({show(pl[2])})"


def show_idx(ix, top=False):
    t = ix[0]
    if t == "i":
        return show(ix[1])
    if t == "eok":
        return f"EmptyOK({show_idx(ix[1])})"
    es = [show_idx(e) for e in ix[1]]
    if t == "l":
        return "[" + ", ".join(es) + "]"
    if len(es) == 1:
        return f"{es[0]}," if top else f"({es[0]},)"
    return "(" + ", ".join(es) + ")"

# }}}


# {{{ wire format of a program (request to the model)

def q(s):
    return dumps(s)


def prog_to_req(pl):
    t = pl[0]
    if t == "v":
        return f"(leaf (Var {q(pl[1])}))"
    if t == "c":
        return f"(leaf (Int {pl[1]}))"
    if t == "bin":
        return f"(bin {pl[1]} {prog_to_req(pl[2])} {prog_to_req(pl[3])})"
    if t == "un":
        return f"(un {pl[1]} {prog_to_req(pl[2])})"
    if t == "abs":
        return f"(abs {prog_to_req(pl[1])})"
    if t == "item":
        return f"(item {prog_to_req(pl[1])} {idx_to_req(pl[2])})"
    if t == "call":
        return (f"(call {prog_to_req(pl[1])} ({' '.join(prog_to_req(x) for x in pl[2])}) "
                f"({' '.join(q(n) for n in pl[3])}) ({' '.join(prog_to_req(x) for x in pl[4])}))")
    if t == "attr":
        return f"(attr {pl[3]} {prog_to_req(pl[1])} {q(pl[2])})"
    if t == "cmp":
        return f"(cmp {pl[1]} {prog_to_req(pl[2])} {prog_to_req(pl[3])})"
    if t == "not":
        return f"(not {prog_to_req(pl[1])})"
    return f"({t} {prog_to_req(pl[1])} {prog_to_req(pl[2])})"


def idx_to_req(ix):
    t = ix[0]
    if t == "i":
        return f"(i {prog_to_req(ix[1])})"
    if t == "eok":
        return f"(eok {idx_to_req(ix[1])})"
    return f"({t}" + "".join(" " + idx_to_req(e) for e in ix[1]) + ")"

# }}}


# {{{ streams

V = lambda n: ["v", n]          # noqa: E731
C = lambda n: ["c", n]          # noqa: E731
I_ = lambda pl: ["i", pl]       # noqa: E731
T_ = lambda *ixs: ["t", list(ixs)]   # noqa: E731
L_ = lambda *ixs: ["l", list(ixs)]   # noqa: E731


def item(a, ix):
    return ["item", a, ix]


def call(f, args=(), names=(), vals=()):
    return ["call", f, list(args), list(names), list(vals)]


def attr(a, name, how="attr"):
    return ["attr", a, name, how]


def add(a, b):
    return ["bin", "add", a, b]


def mul(a, b):
    return ["bin", "mul", a, b]


def sub(a, b):
    return ["bin", "sub", a, b]


class SyntaxStream(Stream):
    """model: the tree the table-driven builders of lean/PV/Model/OpsSyntax.lean produce for the
    program; implementation: the tree Python builds by running it on Variables; oracle: the
    built tree against the plain run"""

    def request(self, pl):
        return f"(synprog {prog_to_req(pl)})"

    def run_impl(self, pl):
        try:
            return dumps(expr_to_sx(build(pl)))
        except RecursionError:
            raise
        except AttributeError as ex:
            if "plain value" in str(ex):
                return "(err PlainReceiver)"
            return dumps(exc_to_sx(ex))
        except Exception as ex:   # noqa: BLE001
            return dumps(exc_to_sx(ex))

    def agree(self, model, impl, pl):
        if model == impl:
            return "ok"
        if "(noclaim)" in model:
            return "trivial"
        return "diff"

    def oracle(self, pl):
        return syntax_oracle(pl)

    def nontrivial_key(self, pl, model, impl):
        return dumps(pl) if has_var(pl) else None

    def shrink(self, pl):
        ks = kids(pl)
        for _q, s in ks:
            if s[0] not in ("v", "c"):
                yield s
        for path, s in ks:
            if s[0] not in ("v", "c"):
                for leaf in (C(1), V("i")):
                    yield replace(pl, path, leaf)
        for path, s in ks:
            for s2 in self.shrink(s):
                yield replace(pl, path, s2)

    def stats(self, pl, mo, io, acc):
        acc.setdefault("roots", {})
        k = classify(pl)
        acc["roots"][k] = acc["roots"].get(k, 0) + 1
        if io.startswith("(err"):
            acc["no_tree"] = acc.get("no_tree", 0) + 1


# the index shapes: templates over holes (None)
def _shapes():
    h = None
    return {
        "scalar": I_(h),
        "empty": T_(),
        "tuple1": T_(I_(h)),
        "tuple2": T_(I_(h), I_(h)),
        "tuple3": T_(I_(h), I_(h), I_(h)),
        "nest-1": T_(T_(I_(h))),
        "nest-2": T_(T_(I_(h), I_(h))),
        "nest-s-1": T_(I_(h), T_(I_(h))),
        "nest-1-s": T_(T_(I_(h)), I_(h)),
        "nest-empty": T_(T_()),
        "nest-1-1": T_(T_(T_(I_(h)))),
        "list1": L_(I_(h)),
        "list2": L_(I_(h), I_(h)),
        "tuple-of-list": T_(L_(I_(h))),
        "eok-empty": ["eok", T_()],
        "eok-scalar": ["eok", I_(h)],
        "eok-tuple1": ["eok", T_(I_(h))],
        "eok-tuple2": ["eok", T_(I_(h), I_(h))],
    }


def holes(ix):
    if ix[0] == "i":
        return 1
    if ix[0] == "eok":
        return holes(ix[1])
    return sum(holes(e) for e in ix[1])


def fill(ix, vals):
    """the template with its holes filled from the iterator `vals`"""
    if ix[0] == "i":
        return ["i", next(vals)]
    if ix[0] == "eok":
        return ["eok", fill(ix[1], vals)]
    return [ix[0], [fill(e, vals) for e in ix[1]]]


def num_fillers():
    i, j = V("i"), V("j")
    return [C(1), i, j, add(i, j), mul(C(2), i), item(V("tt"), I_(j)),
            item(item(V("tt"), I_(i)), I_(C(0))), ["un", "neg", i], sub(i, C(1)),
            attr(V("o"), "n"), ["abs", sub(i, j)]]


def aggregates():
    """(name, program, kind): kind "num" = subscripting gives a number, "rec" = a Rec"""
    i = V("i")
    return [
        ("d", V("d"), "num"), ("t", V("t"), "num"), ("r", V("r"), "rec"),
        ("o.tab", attr(V("o"), "tab", "attr"), "num"),
        ("o.a.sub.a.tab", attr(attr(V("o"), "sub", "a"), "tab", "a"), "num"),
        ("g(i)", call(V("g"), [i]), "rec"),
        ("r[j]", item(V("r"), I_(V("j"))), "rec"),
        ("r.x", attr(V("r"), "x", "a"), "rec"),
        ("o.rec", attr(V("o"), "rec", "attr"), "rec"),
    ]


def contexts(kind):
    """ways of using a subscript expression `e` (and a second one `e2`) inside a larger program"""
    j = V("j")
    out = [
        ("bare", lambda e, e2: e),
        ("as-argument", lambda e, e2: call(V("g"), [e], ["key"], [e2])),
        ("as-index", lambda e, e2: item(V("r"), T_(I_(e), I_(j)))),
        ("as-1-tuple-index", lambda e, e2: item(V("r"), T_(I_(e)))),
        ("eq", lambda e, e2: ["cmp", "eq", e, e2]),
        ("ne-swapped", lambda e, e2: ["cmp", "ne", e2, e]),
    ]
    if kind == "num":
        out += [
            ("linear", lambda e, e2: sub(mul(C(2), e), e2)),
            ("numeric-argument", lambda e, e2: call(V("f"), [e, j], ["k"], [e2])),
            ("neg-abs", lambda e, e2: ["un", "neg", ["abs", sub(e, e2)]]),
            ("floordiv", lambda e, e2: ["bin", "floordiv", e, add(e2, C(1))]),
            ("lt", lambda e, e2: ["cmp", "lt", e, e2]),
            ("table-index", lambda e, e2: item(V("t"), T_(I_(["bin", "mod", e, C(5)])))),
        ]
    else:
        out += [
            ("call-result", lambda e, e2: call(e, [j], ["n"], [C(2)])),
            ("attribute", lambda e, e2: attr(e, "data", "a")),
            ("subscript-again", lambda e, e2: item(e, T_(I_(j)))),
        ]
    return out


# attribute names asked of a `Rec`: upper / lower case, a trailing `s`, underscores, a digit, names
# that are attributes or methods of pymbolic nodes
RECNAMES = ["x", "X", "xs", "data", "Data", "n", "name", "names", "children", "index", "m", "real",
            "shape_", "_p", "x2", "attr", "a"]


class ExhaustiveSyntax(SyntaxStream):
    """every index shape × every kind of aggregate × index expressions, every shape of argument
    list, every attribute spelling, every constructor method — exhaustive-small"""
    name = "syntax-exhaustive"

    def cases(self, rng, tier):
        shapes = _shapes()
        fillers = num_fillers()
        aggs = aggregates()
        thorough = tier != "quick"
        seen = set()

        def emit(pl):
            k = dumps(pl)
            if k not in seen:
                seen.add(k)
                return True
            return False

        # 1. subscripts: shape × aggregate × fillings (all pairs for ≤ 2 holes)
        few = fillers[:6]
        for (sname, tmpl), (aname, agg, kind) in itertools.product(shapes.items(), aggs):
            n = holes(tmpl)
            if n == 0:
                combos = [()]
            elif n == 1:
                combos = [(f,) for f in fillers]
            elif n == 2:
                combos = list(itertools.product(fillers, fillers))
            elif thorough:
                combos = list(itertools.product(few, repeat=n))
            else:
                combos = [tuple(fillers[(s + 2 * m) % len(fillers)] for m in range(n))
                          for s in range(len(fillers))]
            for combo in combos:
                pl = item(agg, fill(tmpl, iter(combo)))
                if emit(pl):
                    yield pl
        # the tuple of tuples: scalar subscripts, twice
        for f1, f2 in itertools.product(fillers[:5], fillers[:5]):
            pl = item(item(V("tt"), I_(f1)), I_(f2))
            if emit(pl):
                yield pl
        # 2. every shape inside every context (one filling; two aggregates of each kind)
        for (sname, tmpl), (cname_agg) in itertools.product(
                shapes.items(), [a for a in aggs if a[0] in ("d", "t", "r", "g(i)")]):
            aname, agg, kind = cname_agg
            n = holes(tmpl)
            e = item(agg, fill(tmpl, iter([V("i"), V("j"), C(1)][:n])))
            e2 = item(agg, I_(V("j")))
            for cname, ctx in contexts(kind):
                pl = ctx(e, e2)
                if emit(pl):
                    yield pl
        # 3. calls: function × positional arity × keyword set (order matters) × argument kinds
        kwsets = [(), ("a",), ("b", "a"), ("a", "b"), ("k", "a", "b")]
        numargs = [V("i"), C(2), add(V("j"), C(1)), item(V("t"), T_(I_(V("i"))))]
        recargs = [V("i"), item(V("r"), T_(I_(V("j")))), C(0), call(V("g"), [])]
        funcs = [("f", V("f"), numargs), ("o.fn", attr(V("o"), "fn", "a"), numargs),
                 ("o.sub.fn", attr(attr(V("o"), "sub"), "fn"), numargs),
                 ("g", V("g"), recargs), ("r.m", attr(V("r"), "m", "a"), recargs),
                 ("g()", call(V("g"), []), recargs), ("r[i,]", item(V("r"), T_(I_(V("i")))), recargs)]
        for (fname, fn, pool), npos, kws in itertools.product(funcs, range(4), kwsets):
            for rot in range(2 if not thorough else 4):
                args = [pool[(rot + m) % len(pool)] for m in range(npos)]
                vals = [pool[(rot + npos + m) % len(pool)] for m in range(len(kws))]
                pl = call(fn, args, kws, vals)
                if emit(pl):
                    yield pl
                wrapped = add(mul(pl, C(2)), V("k")) if pool is numargs else attr(pl, "out")
                if emit(wrapped):
                    yield wrapped
        # 4. attributes: object × name × spelling, and chains
        objs = [("o", V("o"), ["n", "N", "ns", "n_", "tab", "fn", "sub", "rec"]),
                ("o.sub", attr(V("o"), "sub", "a"), ["n", "N", "ns", "tab", "fn", "rec"]),
                ("r", V("r"), RECNAMES),
                ("g(i, a=j)", call(V("g"), [V("i")], ["a"], [V("j")]), ["x", "real", "Real"]),
                ("r[i, j]", item(V("r"), T_(I_(V("i")), I_(V("j")))), ["x", "imag", "_im"])]
        for (oname, obj, names), how in itertools.product(objs, ("attr", "a")):
            for nm in names:
                pl = attr(obj, nm, how)
                if emit(pl):
                    yield pl
                if nm in ("n", "N", "ns", "n_"):
                    pl = add(mul(C(3), attr(obj, nm, how)), V("j"))
                    if emit(pl):
                        yield pl
        # 5. the comparison / logical constructor methods, abs, unary plus
        operands = [V("i"), V("j"), C(1), add(V("i"), V("k")), item(V("d"), T_(I_(V("i")))),
                    item(V("d"), I_(V("i"))), call(V("f"), [V("i")], ["k"], [V("j")]),
                    attr(V("o"), "n", "a")]
        recops = [V("r"), V("g"), item(V("r"), T_(I_(V("i")))), item(V("r"), I_(V("i"))),
                  call(V("g"), [V("i")]), call(V("g"), [], ["a"], [V("i")]), attr(V("r"), "x")]
        for o, a, b in itertools.product(CMPS, operands, operands):
            pl = ["cmp", o, a, b]
            if emit(pl):
                yield pl
        for o, a, b in itertools.product(("eq", "ne"), recops, recops):
            pl = ["cmp", o, a, b]
            if emit(pl):
                yield pl
        truths = [V("i"), sub(V("i"), V("j")), ["cmp", "lt", V("i"), V("j")],
                  ["cmp", "eq", item(V("r"), T_(I_(V("i")))), item(V("r"), I_(V("i")))],
                  ["not", V("k")], item(V("d"), T_(I_(V("j")))), C(0)]
        for a in truths:
            pl = ["not", a]
            if emit(pl):
                yield pl
        for o, a, b in itertools.product(("and", "or"), truths, truths):
            pl = [o, a, b]
            if emit(pl):
                yield pl
            pl = ["not", [o, a, b]]
            if emit(pl):
                yield pl
        for a in operands + [sub(V("j"), V("i")), ["un", "neg", item(V("t"), T_(I_(V("i"))))]]:
            for pl in (["abs", a], ["un", "pos", a], ["un", "neg", ["abs", a]],
                       add(["abs", a], ["un", "pos", a])):
                if emit(pl):
                    yield pl


class RandomSyntax(SyntaxStream):
    """random typed programs mixing the non-arithmetic syntax with the arithmetic operators"""
    name = "syntax-random"

    def cases(self, rng, tier):
        n = 700 if tier == "quick" else 12000
        shapes = list(_shapes().values())
        kwnames = ["a", "b", "k", "key", "n", "out"]
        recnames = RECNAMES

        def num(d):
            r = rng.random()
            if d <= 0 or r < 0.22:
                return rng.choice([V("i"), V("j"), V("k"), C(rng.randint(-2, 4))])
            if r < 0.42:
                o = rng.choice(["add", "add", "sub", "sub", "mul", "mul", "floordiv", "mod", "and",
                                "or", "xor", "lshift", "rshift", "pow"])
                if o in ("lshift", "rshift", "pow"):
                    return ["bin", o, num(d - 1), C(rng.randint(0, 3))]
                return ["bin", o, num(d - 1), num(d - 1)]
            if r < 0.50:
                return rng.choice([["un", rng.choice(list(UNOPS)), num(d - 1)], ["abs", num(d - 1)]])
            if r < 0.78:
                if rng.random() < 0.15:
                    return item(item(V("tt"), I_(num(d - 1))), I_(num(d - 1)))
                return item(tab(d - 1), idx(d - 1, num))
            if r < 0.92:
                names = rng.sample(kwnames, rng.randint(0, 3))
                return call(fn(d - 1), [num(d - 1) for _ in range(rng.randint(0, 3))], names,
                            [num(d - 1) for _ in names])
            return attr(obj(d - 1), rng.choice(["n", "n", "N", "ns"]), rng.choice(["attr", "a"]))

        def tab(d):
            r = rng.random()
            if r < 0.4:
                return V("d")
            if r < 0.75:
                return V("t")
            return attr(obj(d), "tab", rng.choice(["attr", "a"]))

        def fn(d):
            return V("f") if rng.random() < 0.6 else attr(obj(d), "fn", rng.choice(["attr", "a"]))

        def obj(d):
            return V("o") if rng.random() < 0.6 else attr(V("o"), "sub", rng.choice(["attr", "a"]))

        def anyval(d):
            return num(d) if rng.random() < 0.6 else rec(d)

        def rec(d):
            r = rng.random()
            if d <= 0 or r < 0.2:
                return rng.choice([V("r"), V("g")])
            if r < 0.55:
                return item(rec(d - 1), idx(d - 1, anyval))
            if r < 0.8:
                names = rng.sample(kwnames, rng.randint(0, 3))
                return call(rec(d - 1), [anyval(d - 1) for _ in range(rng.randint(0, 3))], names,
                            [anyval(d - 1) for _ in names])
            if r < 0.95:
                return attr(rec(d - 1), rng.choice(recnames), rng.choice(["attr", "a"]))
            return attr(obj(d - 1), "rec", rng.choice(["attr", "a"]))

        def idx(d, elem):
            tmpl = rng.choice(shapes)
            return fill(tmpl, iter(lambda: elem(d), None))

        def truth(d):
            r = rng.random()
            if d <= 0 or r < 0.45:
                return ["cmp", rng.choice(list(CMPS)), num(d), num(d)]
            if r < 0.6:
                return ["cmp", rng.choice(["eq", "ne"]), rec(d), rec(d)]
            if r < 0.72:
                return ["not", rng.choice([truth, num])(d - 1)]
            return [rng.choice(["and", "or"]), rng.choice([truth, num])(d - 1),
                    rng.choice([truth, num])(d - 1)]

        made = 0
        while made < n:
            r = rng.random()
            d = rng.randint(1, 3)
            pl = num(d) if r < 0.5 else rec(d) if r < 0.85 else truth(d)
            if pl[0] in ("v", "c") or not has_var(pl):
                continue
            made += 1
            yield pl

# }}}


def probes():
    """known findings of the syntax half, replayed on the real code"""
    from pymbolic.mapper.evaluator import EvaluationMapper as EM
    res = []
    with warnings.catch_warnings():
        warnings.simplefilter("ignore")
        tree = p.Variable("d")[()]
    table = {(): 5, 0: 6}
    try:
        got = EM({"d": table})(tree)
    except Exception as ex:   # noqa: BLE001
        got = ex
    res.append(("getitem:empty", not (isinstance(got, int) and got == table[()]),
                f"d[()] builds {tree!r}; with d = {{(): 5, 0: 6}} the tree gives {got!r}, "
                "plain d[()] gives 5"))
    return res
