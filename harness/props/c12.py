"""C12 — common-subexpression handling keeps meaning and shares work.

Streams
  tag        tag_common_subexpressions on lists with heavy sharing, then all tagged expressions
             evaluated with ONE EvaluationMapper: tagged trees, results and the event log (wrapper
             children computed, environment functions invoked) vs the Lean model
             (`tagAll`, `runTr`); oracles from the property text on the real code.
  tagtree    tagged trees only, with float / bool constants that are == to integer ones.
  usecount   UseCountMapper.subexpr_counts vs `useCountL`.
  wrap       wrap_in_cse / make_common_subexpression on scalar fields vs `wrapInCse` / `makeCse`.
  wraparray  the two helpers on object arrays and multivectors (oracle only).
  trace      histories of evaluations of hand-wrapped expressions on fresh and reused evaluators
             vs `runTr`; oracle: calls of counting functions vs a reference interpreter that
             computes every distinct wrapper once.
  tagmapper  the histogram based tagger of pymbolic/mapper/cse_tagger.py (oracle only).
  tally      end to end: tag, evaluate ALL tagged expressions with one evaluator whose numbers
             (variables AND constants) count the arithmetic performed on them and whose operation
             handlers are logged: handler log, operation tally and calls vs the Lean counting
             evaluator (`evalCnt` / `c12TagRun`), and the structural reference "every distinct
             operation once" vs `c12PlanL` / `c12RefTally`; oracle: no operation class is
             performed more than once (theorem `tagged_ops_once`).
  prewrapped lists that ALREADY CONTAIN wrappers (every prefix x scope) whose child, or an operation
             strictly inside it, recurs elsewhere (bare, commuted, inside / directly under another
             wrapper, the same wrapper again): tag, evaluate all with one evaluator; handler log,
             tally and calls vs the Lean counting evaluator; oracle: values, no wrapper around a
             wrapper, and every operation of the input (wrappers looked through, operands as
             written) performed once (PV/Properties/C12Wrapped.lean: `unprefixed_wrapper_shares`,
             `useCount_wrapper_first`; finding `prefixed_wrapper_not_merged_cex`).
"""
from __future__ import annotations

import itertools
import math
import warnings
from fractions import Fraction

import pymbolic.primitives as p

from ..core import Failure, Prop, Stream
from ..falsy_results import FalsyResults
from ..gen import ExprGen, node_types, rand_env, size
from ..oracles.pyeval import is_safe, outcome, pyeval
from ..sexp import (A, App, Atom, Func, dumps, env_to_sx, exc_to_sx, expr_to_sx, loads,
                    sx_children, sx_shrinks, sx_to_env, sx_to_expr, value_to_sx)

EVAL = p.cse_scope.EVALUATION
EXPR = p.cse_scope.EXPRESSION
GLOB = p.cse_scope.GLOBAL

FRAG_HEADS = {"Int", "Var", "Sum", "Product", "Quotient", "Power", "Call"}
OP_HEADS = {"Sum", "Product", "Quotient", "Power", "Call"}


# {{{ small helpers on S-expression trees

def sx_subterms(s):
    yield s
    for _p, c in sx_children(s):
        yield from sx_subterms(c)


def sx_heads(s):
    return {t[0] for t in sx_subterms(s) if isinstance(t, list)}


def in_fragment(s) -> bool:
    return all(isinstance(t, list) and t[0] in FRAG_HEADS for t in sx_subterms(s))


def has_nested_wrapper(s) -> bool:
    for t in sx_subterms(s):
        if isinstance(t, list) and t[0] == "CSE" and isinstance(t[1], list) and t[1][0] == "CSE":
            return True
    return False


def onelevel_class(s) -> str:
    """an operation up to the order of the operands of a sum / product (operands as written)"""
    if s[0] in ("Sum", "Product"):
        return s[0] + "{" + ",".join(sorted(dumps(c) for c in s[1:])) + "}"
    return dumps(s)


def recursive_class(s) -> str:
    """… with the operands themselves taken up to order, recursively"""
    if isinstance(s, Atom) or not isinstance(s, list):
        return dumps(s)
    if s[0] in ("Sum", "Product"):
        return s[0] + "{" + ",".join(sorted(recursive_class(c) for c in s[1:])) + "}"
    if s[0] == "Call":
        return "Call(" + recursive_class(s[1]) + ";" + ",".join(recursive_class(c) for c in s[2]) + ")"
    if s[0] in ("Quotient", "Power"):
        return s[0] + "(" + recursive_class(s[1]) + "," + recursive_class(s[2]) + ")"
    return dumps(s)

# }}}


# {{{ tolerant value comparison (never float equality)

def _exact(v):
    return isinstance(v, (bool, int, Fraction))


def close(a, b) -> bool:
    if isinstance(a, (tuple, list)) or isinstance(b, (tuple, list)):
        return (type(a) is type(b) and len(a) == len(b) and all(close(x, y) for x, y in zip(a, b)))
    if isinstance(a, App) or isinstance(b, App):
        return (isinstance(a, App) and isinstance(b, App) and a.f == b.f
                and close(a.args, b.args) and a.kw.keys() == b.kw.keys()
                and all(close(a.kw[k], b.kw[k]) for k in a.kw))
    if _exact(a) and _exact(b):
        return a == b
    num = (bool, int, float, complex, Fraction)
    if isinstance(a, num) and isinstance(b, num):
        try:
            fa, fb = complex(a), complex(b)
        except OverflowError:
            return True
        if fa != fa or fb != fb:
            return (fa != fa) == (fb != fb)
        if math.isinf(fa.real) or math.isinf(fb.real) or math.isinf(fa.imag) or math.isinf(fb.imag):
            return True
        return abs(fa - fb) <= 1e-9 + 1e-9 * max(abs(fa), abs(fb))
    try:
        return bool(a == b)
    except Exception:
        return False


def same_meaning(ref, got) -> bool:
    """both raise, or both give (tolerantly) equal values"""
    if ref[0] != got[0]:
        return False
    if ref[0] == "err":
        return True     # a shared commuted sum may meet another failing operand first
    return close(ref[1], got[1])

# }}}


# {{{ instrumentation of the real evaluator

class LogFunc(Func):
    """environment function that records every invocation in a shared chronological log"""
    def __init__(self, name, log):
        super().__init__(name)
        self.log = log

    def __call__(self, *args, **kw):
        r = super().__call__(*args, **kw)
        self.log.append(("call", r))
        return r


def make_tracer(env, log):
    from pymbolic.mapper.evaluator import EvaluationMapper

    class TracingEval(EvaluationMapper):
        def map_common_subexpression_uncached(self, expr):
            r = super().map_common_subexpression_uncached(expr)
            log.append(("child", expr, r))
            return r
    return TracingEval(env)


def logging_env(env, log):
    return {k: (LogFunc(v.name, log) if isinstance(v, Func) else v) for k, v in env.items()}


def result_sx(fn):
    try:
        return value_to_sx(fn())
    except RecursionError:
        raise
    except Exception as ex:
        return exc_to_sx(ex)


def run_traced(exprs, env):
    """evaluate `exprs` in order on ONE plain evaluator; S-expression `((results) (events))`"""
    log = []
    m = make_tracer(logging_env(env, log), log)
    results = [result_sx(lambda e=e: m(e)) for e in exprs]
    events = []
    for ev in log:
        if ev[0] == "child":
            events.append([A("child"), expr_to_sx(ev[1]), value_to_sx(ev[2])])
        else:
            events.append([A("call"), value_to_sx(ev[1])])
    return [results, events]


def tag_err_sx(ex):
    if isinstance(ex, ValueError) and "foreign" in str(ex):
        return "(err Foreign)"
    if isinstance(ex, TypeError):
        return "(err TypeError)"
    return f"(err {type(ex).__name__})"

# }}}


# {{{ counting values: the independent operation count

class Tally:
    def __init__(self):
        self.n = {}
        self.calls = []
        self.nodes = []

    def bump(self, k):
        self.n[k] = self.n.get(k, 0) + 1


def _v(o):
    return o.v if isinstance(o, Cnt) else o


class Cnt:
    """an exact number that counts the arithmetic performed on it"""
    __slots__ = ("v", "t")

    def __init__(self, v, t):
        self.v, self.t = v, t

    def __bool__(self):
        return self.v != 0          # falsy at zero, like the number it stands for

    def __add__(self, o):
        self.t.bump("add"); return Cnt(self.v + _v(o), self.t)

    def __radd__(self, o):
        self.t.bump("add"); return Cnt(_v(o) + self.v, self.t)

    def __mul__(self, o):
        self.t.bump("mul"); return Cnt(self.v * _v(o), self.t)

    def __rmul__(self, o):
        self.t.bump("mul"); return Cnt(_v(o) * self.v, self.t)

    def __truediv__(self, o):
        self.t.bump("div"); return Cnt(Fraction(self.v) / _v(o), self.t)

    def __rtruediv__(self, o):
        self.t.bump("div"); return Cnt(Fraction(_v(o)) / self.v, self.t)

    def __pow__(self, o):
        self.t.bump("pow"); return Cnt(_pow(self.v, _v(o)), self.t)

    def __rpow__(self, o):
        self.t.bump("pow"); return Cnt(_pow(_v(o), self.v), self.t)


def _pow(a, b):
    if isinstance(b, Fraction) and b.denominator == 1:
        b = int(b)
    if not isinstance(b, int) or abs(b) > 64:
        raise OverflowError("exponent outside the counted fragment")
    return Fraction(a) ** b


class CntFunc:
    def __init__(self, name, t):
        self.name, self.t = name, t

    def __call__(self, *args):
        vals = tuple(_v(a) for a in args)
        self.t.bump("call:" + self.name)
        self.t.calls.append((self.name, vals))
        return Cnt(Fraction(1) + sum((k + 2) * Fraction(v) for k, v in enumerate(vals)), self.t)


def counting_env(env, t):
    res = {}
    for k, v in env.items():
        if isinstance(v, Func):
            res[k] = CntFunc(v.name, t)
        elif isinstance(v, (bool, int, Fraction)):
            res[k] = Cnt(Fraction(int(v) if isinstance(v, bool) else v), t)
    return res


def reference_counts(sxs, env, classify, count_consts=False):
    """plain Python computation of every input expression in which each distinct operation
    (`classify` says which operations are the same) is performed once; returns the tally
    (`count_consts`: integer constants are counting numbers too, so EVERY operation is counted)"""
    t = Tally()
    cenv = counting_env(env, t)
    memo = {}

    def ev(s):
        h = s[0]
        if h == "Int":
            return Cnt(Fraction(int(s[1])), t) if count_consts else int(s[1])
        if h == "Var":
            return cenv[s[1]]
        key = classify(s)
        if key in memo:
            return memo[key]
        if h == "Sum":
            acc = 0
            for c in s[1:]:
                acc = acc + ev(c)
        elif h == "Product":
            acc = 1
            for c in s[1:]:
                acc = acc * ev(c)
        elif h == "Quotient":
            a = ev(s[1]); b = ev(s[2])
            acc = a / b
        elif h == "Power":
            a = ev(s[1]); b = ev(s[2])
            acc = a ** b
        elif h == "Call":
            f = ev(s[1])
            acc = f(*[ev(c) for c in s[2]])
        else:
            raise KeyError(h)
        memo[key] = acc
        t.nodes.append(s)
        return acc
    vals = [ev(s) for s in sxs]
    return t, vals


def exceeds(got, want) -> bool:
    """some kind of operation, or some call, is performed more often in `got` than in `want`"""
    if any(got.n.get(k, 0) > want.n.get(k, 0) for k in got.n):
        return True
    rest = list(want.calls)
    for c in got.calls:
        if c in rest:
            rest.remove(c)
        else:
            return True
    return False


KIND_OF_HEAD = {"Sum": "add", "Product": "mul", "Quotient": "div", "Power": "pow"}
TALLY_KINDS = ("add", "mul", "div", "floordiv", "mod", "pow", "call")


def structural_plan(sxs, classify):
    """value-free reference: the operation nodes of the inputs in evaluation order, one per class
    of `classify` (an operation whose class has been met is not performed again and its operands
    are not looked at)"""
    seen = set()
    plan = []

    def walk(s):
        h = s[0]
        if h in ("Int", "Var"):
            return
        key = classify(s)
        if key in seen:
            return
        if h in ("Sum", "Product"):
            for c in s[1:]:
                walk(c)
        elif h in ("Quotient", "Power"):
            walk(s[1]); walk(s[2])
        elif h == "Call":
            walk(s[1])
            for c in s[2]:
                walk(c)
        else:
            raise KeyError(h)
        seen.add(key)
        plan.append(s)
    for s in sxs:
        walk(s)
    return plan


def structural_tally(nodes):
    """additions, multiplications, … the handlers of these operation nodes perform themselves:
    a sum of n operands is n additions (`sum(...)` starts from 0), a product n multiplications"""
    n = dict.fromkeys(TALLY_KINDS, 0)
    for s in nodes:
        h = s[0]
        if h in ("Sum", "Product"):
            n[KIND_OF_HEAD[h]] += len(s) - 1
        elif h == "Call":
            n["call"] += 1
        else:
            n[KIND_OF_HEAD[h]] += 1
    return n


def observed_counts(tagged, env):
    from pymbolic.mapper.evaluator import EvaluationMapper
    t = Tally()
    m = EvaluationMapper(counting_env(env, t))
    vals = [m(e) for e in tagged]
    return t, vals

# }}}


# {{{ generators

class SharedGen:
    """lists of expressions with heavy sharing: a pool of subterms is grown bottom-up and every new
    node draws its operands from the pool (repeated and nested repeated subterms); sums and
    products are re-emitted with their operands in another order; `wrapped` adds pre-existing
    wrappers with and without prefixes and scopes; `general` mixes in every other node type."""

    def __init__(self, rng, mode):
        self.rng, self.mode = rng, mode
        # float constants are exercised by the tree-only stream (values would need float equality)
        self.g = ExprGen(rng, cse=0.1, floats=0.0, malformed=0.02) if mode == "general" else None

    def leaf(self):
        r = self.rng
        if r.random() < 0.65:
            return p.Variable(r.choice(["x", "y", "z", "i"]))
        return r.randint(-2, 4)

    def lists(self):
        r = self.rng
        pool = [self.leaf() for _ in range(r.randint(2, 4))]
        ops = []

        def pick():
            if ops and r.random() < 0.55:
                return r.choice(ops[-4:])
            return r.choice(pool)
        for _ in range(r.randint(2, 8)):
            kinds = ["sum", "sum", "prod", "prod", "quot", "pow", "call", "commute", "commute"]
            if self.mode in ("wrapped", "general"):
                kinds += ["cse", "cse", "cse"]
            if self.mode == "general":
                kinds += ["other", "other", "around"]
            k = r.choice(kinds)
            if k in ("sum", "prod"):
                n = r.choice([2, 2, 2, 3, 3, 1, 0]) if r.random() < 0.3 else r.randint(2, 3)
                kids = tuple(pick() for _ in range(n))
                if kids and r.random() < 0.15:
                    kids = kids + (kids[0],)
                node = (p.Sum if k == "sum" else p.Product)(kids)
            elif k == "quot":
                node = p.Quotient(pick(), pick())
            elif k == "pow":
                node = p.Power(pick(), r.randint(0, 3))
            elif k == "call":
                node = p.Call(p.Variable(r.choice(["f", "g"])),
                              tuple(pick() for _ in range(r.randint(0, 2))))
            elif k == "commute":
                cands = [o for o in ops if isinstance(o, (p.Sum, p.Product)) and len(o.children) > 1]
                if not cands:
                    continue
                o = r.choice(cands)
                kids = list(o.children)
                r.shuffle(kids)
                node = type(o)(tuple(kids))
            elif k == "cse":
                child = pick()
                if r.random() < 0.15 and isinstance(child, p.Expression):
                    child = p.CommonSubexpression(child, r.choice([None, "in"]))
                node = p.CommonSubexpression(child, r.choice([None, None, "cs", "u"]),
                                             r.choice([EVAL, EVAL, EXPR, GLOB]))
            elif k == "other":
                node = self.g.gen(r.choice(["num", "int", "bool", "any"]), r.randint(1, 3))
            else:
                a, b = pick(), pick()
                node = r.choice([
                    lambda: p.If(p.Comparison(a, "<", b), a, b),
                    lambda: p.Min((a, b)), lambda: p.FloorDiv(a, b), lambda: p.Remainder(a, b),
                    lambda: p.LeftShift(a, 1), lambda: p.Subscript(p.Variable("t"), a),
                    lambda: p.CallWithKwargs(p.Variable("f"), (a,), {"k": b}),
                    lambda: (a, b), lambda: p.Substitution(a, ("x",), (b,)),
                    lambda: p.Derivative(a, ("x",)), lambda: p.Slice((a, None, b)),
                    lambda: p.LogicalNot(a), lambda: p.Lookup(a, "u"),
                ])()
            if size(node) > 70:
                continue
            ops.append(node)
        if not ops:
            ops = [p.Sum((pool[0], pool[-1]))]
        outs = []
        for _ in range(r.randint(1, 5)):
            e = r.choice(ops[-5:]) if r.random() < 0.8 else r.choice(ops)
            outs.append(e)
        return outs


def small_ops():
    x, y, f = p.Variable("x"), p.Variable("y"), p.Variable("f")
    leaves = [x, y, 2]
    res = []
    for a, b in itertools.product(leaves, leaves):
        res += [p.Sum((a, b)), p.Product((a, b)), p.Quotient(a, b), p.Power(a, b), p.Call(f, (a, b))]
    return res

# }}}


def mixed_constant_lists():
    """operands that are == but of different type (1, 1.0, True): one dict key in Python"""
    x, f = p.Variable("x"), p.Variable("f")
    res = []
    for a, b in itertools.permutations([1, 1.0, True], 2):
        res.append([p.Sum((x, a)), p.Sum((x, b))])
        res.append([p.Sum((x, a)), p.Sum((b, x))])
        res.append([p.Product((x, a, b)), p.Product((b, x, a))])
        res.append([p.Call(f, (a,)), p.Call(f, (b,))])
        res.append([p.Power(x, a), p.Power(x, b), p.Quotient(a, x), p.Quotient(b, x)])
        res.append([p.Sum((a, b, x)), p.Sum((x, a, a))])
        res.append([p.CommonSubexpression(p.Sum((x, a))), p.Sum((x, b)), p.Sum((x, b))])
    for a in (0, 0.0, False, 2, 2.0):
        res.append([p.Sum((x, a)), p.Sum((a, x)), p.Sum((x, 0))])
    return res


class TagStream(Stream):
    name = "tag"
    _n_sharing = 0           # cases in which the operation count was compared
    _n_repeated = 0          # … of which the input repeats an operation
    _n_collapsed = 0         # … fewer operations than one per one-level class were performed

    def cases(self, rng, tier):
        n = 2400 if tier == "quick" else 40000
        for i in range(n):
            mode = ["frag", "frag", "wrapped", "general"][i % 4]
            es = SharedGen(rng, mode).lists()
            env = rand_env(rng)
            if not all(is_safe(e, env) for e in es):
                continue
            try:
                yield {"mode": mode, "env": dumps(env_to_sx(env)),
                       "exprs": [dumps(expr_to_sx(e)) for e in es]}
            except Exception:
                continue
        # exhaustive small: every pair of two-operand operations over {x, y, 2}, and every such
        # operation next to an operation that contains it / a commuted copy of it
        ops = small_ops()
        env = {"x": 3, "y": Fraction(1, 2), "f": Func("f")}
        envs = dumps(env_to_sx(env))
        pairs = list(itertools.product(ops, ops))
        if tier == "quick":
            pairs = [pr for k, pr in enumerate(pairs) if k % 2 == 0]
        for a, b in pairs:
            yield {"mode": "frag", "env": envs, "exprs": [dumps(expr_to_sx(a)), dumps(expr_to_sx(b))]}
        for es in mixed_constant_lists():
            yield {"mode": "general", "env": dumps(env_to_sx({"x": Fraction(1, 3), "f": Func("f")})),
                   "exprs": [dumps(expr_to_sx(e)) for e in es]}
        z = p.Variable("z")
        for a in ops:
            outer = [p.Sum((a, z)), p.Product((z, a)), p.Call(p.Variable("f"), (a,)), p.Power(a, 2)]
            for o in outer:
                yield {"mode": "frag", "env": dumps(env_to_sx({**env, "z": -2})),
                       "exprs": [dumps(expr_to_sx(e)) for e in (o, a, o)]}

    def request(self, pl):
        return f"(cse-tag-trace {pl['env']} ({' '.join(pl['exprs'])}))"

    def _inputs(self, pl):
        return [sx_to_expr(loads(s)) for s in pl["exprs"]], sx_to_env(loads(pl["env"]))

    def run_impl(self, pl):
        from pymbolic.cse import tag_common_subexpressions
        exprs, env = self._inputs(pl)
        try:
            tagged = tag_common_subexpressions(exprs)
        except RecursionError:
            raise
        except Exception as ex:
            return tag_err_sx(ex)
        return dumps([A("ok"), [expr_to_sx(t) for t in tagged], run_traced(tagged, env)])

    def oracle(self, pl):
        from pymbolic.cse import tag_common_subexpressions
        from pymbolic.mapper.evaluator import EvaluationMapper
        exprs, env = self._inputs(pl)
        try:
            tagged = tag_common_subexpressions(exprs)
        except Exception:
            return None          # malformed input (foreign object / unhashable list): no claim
        if len(tagged) != len(exprs):
            return Failure("length-differs", f"{len(exprs)} expressions in, {len(tagged)} out", pl)
        in_sx = [loads(s) for s in pl["exprs"]]
        out_sx = [expr_to_sx(t) for t in tagged]
        # 1. equal value, expression by expression (independent interpreter on both trees) ...
        refs = [outcome(lambda e=e: pyeval(e, env)) for e in exprs]
        for k, (t, ref) in enumerate(zip(tagged, refs)):
            got = outcome(lambda t=t: pyeval(t, env))
            if ref[0] == "ok" and got[0] == "ok" and _exact(ref[1]) and isinstance(got[1], float) \
                    and not ref[1] == got[1] and "Flt" in " ".join(pl["exprs"]):
                return Failure("mixed-type-equal-constants-merged",
                               f"expression #{k}: original is exactly {ref[1]!r}, tagged "
                               f"{dumps(out_sx[k])} gives the float {got[1]!r}", pl)
            if not same_meaning(ref, got):
                return Failure("value-differs", f"expression #{k}: original means {ref!r}, tagged "
                               f"{dumps(out_sx[k])} means {got!r}", pl)
        # ... and when all of them are evaluated with one evaluator
        m = EvaluationMapper(dict(env))
        for k, (t, ref) in enumerate(zip(tagged, refs)):
            got = outcome(lambda t=t: m(t))
            if not same_meaning(ref, got):
                return Failure("shared-evaluation-differs", f"expression #{k}: original means "
                               f"{ref!r}, one evaluator over all tagged gives {got!r}", pl)
        # 2. no wrapper directly around a wrapper
        if not any(has_nested_wrapper(s) for s in in_sx) and any(has_nested_wrapper(s) for s in out_sx):
            return Failure("wrapper-around-wrapper", f"output {[dumps(s) for s in out_sx]}", pl)
        # 3. every repeated operation is performed once (fragment of the property)
        if all(in_fragment(s) for s in in_sx):
            return self._sharing(pl, in_sx, tagged, env)
        return None

    def _sharing(self, pl, in_sx, tagged, env):
        try:
            want, _ = reference_counts(in_sx, env, onelevel_class)
            want_rec, _ = reference_counts(in_sx, env, recursive_class)
            got, _ = observed_counts(tagged, env)
        except Exception:
            return None          # an operand fails to evaluate: nothing to count
        TagStream._n_sharing += 1
        plain, _ = reference_counts(in_sx, env, lambda s: object())     # nothing shared
        if plain.n != want.n:
            TagStream._n_repeated += 1
        # performing an operation class more than once is the violation; performing FEWER than one
        # per one-level class is not (theorem tagged_ops_once / tagged_tally_onelevel_cex: two
        # repeated classes that differ in the operand order of a nested sum get equal wrappers)
        if exceeds(got, want):
            return Failure("operation-repeated",
                           f"one evaluator over all tagged expressions performs {got.n}, each "
                           f"distinct operation of the input once is {want.n}", pl)
        if got.n != want.n:
            TagStream._n_collapsed += 1
        if got.n != want_rec.n:
            return Failure("nested-commuted-operands-not-merged",
                           f"performed {got.n}; with operands compared up to order recursively "
                           f"the distinct operations are {want_rec.n}", pl)
        return None

    def shrink(self, pl):
        ex = pl["exprs"]
        for i in range(len(ex)):
            if len(ex) > 1:
                yield {**pl, "exprs": ex[:i] + ex[i + 1:]}
        for i in range(len(ex)):
            for s in sx_shrinks(loads(ex[i])):
                yield {**pl, "exprs": ex[:i] + [dumps(s)] + ex[i + 1:]}

    def nontrivial_key(self, pl, model, impl):
        if "(CSE" not in impl:
            return None
        return " ".join(pl["exprs"]) + pl["env"]

    def stats(self, pl, mo, io, acc):
        acc.setdefault("mode", {})
        acc["mode"][pl["mode"]] = acc["mode"].get(pl["mode"], 0) + 1
        k = "err" if io.startswith("(err") else ("tagged" if "(CSE" in io else "untouched")
        acc.setdefault("outcomes", {})
        acc["outcomes"][k] = acc["outcomes"].get(k, 0) + 1
        acc["wrappers_computed"] = acc.get("wrappers_computed", 0) + io.count("(child ")
        acc["calls_logged"] = acc.get("calls_logged", 0) + io.count("(call ")
        acc["operation_counts_compared"] = TagStream._n_sharing
        acc["operation_counts_compared_with_repeats"] = TagStream._n_repeated
        acc["fewer_than_one_per_onelevel_class"] = TagStream._n_collapsed
        if any("CSE" in s for s in pl["exprs"]):
            acc["with_preexisting_wrappers"] = acc.get("with_preexisting_wrappers", 0) + 1
        nt = acc.setdefault("node_types", {})
        for s in pl["exprs"]:
            for h in sx_heads(loads(s)):
                nt[h] = nt.get(h, 0) + 1


class TagTreeStream(Stream):
    """tagged trees only (no evaluation, so float and bool constants are compared too)"""
    name = "tagtree"

    def cases(self, rng, tier):
        for es in mixed_constant_lists():
            yield {"exprs": [dumps(expr_to_sx(e)) for e in es]}
        n = 600 if tier == "quick" else 10000
        for i in range(n):
            gen = SharedGen(rng, ["general", "wrapped", "general"][i % 3])
            if gen.g is not None:
                gen.g.floats = 0.25
            es = gen.lists()
            if rng.random() < 0.5:
                es = [swap_constants(e, rng) for e in es] + es
            try:
                yield {"exprs": [dumps(expr_to_sx(e)) for e in es]}
            except Exception:
                continue

    def request(self, pl):
        return f"(cse-tag ({' '.join(pl['exprs'])}))"

    def run_impl(self, pl):
        from pymbolic.cse import tag_common_subexpressions
        exprs = [sx_to_expr(loads(s)) for s in pl["exprs"]]
        try:
            tagged = tag_common_subexpressions(exprs)
        except RecursionError:
            raise
        except Exception as ex:
            return tag_err_sx(ex)
        return dumps([A("ok"), [expr_to_sx(t) for t in tagged]])

    def nontrivial_key(self, pl, model, impl):
        return " ".join(pl["exprs"]) if "(CSE" in impl else None

    def stats(self, pl, mo, io, acc):
        k = "err" if io.startswith("(err") else ("tagged" if "(CSE" in io else "untouched")
        acc.setdefault("outcomes", {})
        acc["outcomes"][k] = acc["outcomes"].get(k, 0) + 1
        if any(("Flt" in s or "Bool" in s) for s in pl["exprs"]):
            acc["with_float_or_bool_constants"] = acc.get("with_float_or_bool_constants", 0) + 1


def swap_constants(e, rng):
    """an equal-under-== copy: small integer constants become floats or bools at random"""
    s = expr_to_sx(e)

    def go(t):
        if isinstance(t, list):
            if t and t[0] == "Int" and rng.random() < 0.6:
                v = int(t[1])
                if v in (0, 1) and rng.random() < 0.5:
                    return expr_to_sx(bool(v))
                return expr_to_sx(float(v))
            return [go(c) for c in t]
        return t
    try:
        return sx_to_expr(go(s))
    except Exception:
        return e


class UseCountStream(Stream):
    name = "usecount"

    def cases(self, rng, tier):
        n = 900 if tier == "quick" else 15000
        for i in range(n):
            mode = ["frag", "wrapped", "general"][i % 3]
            es = SharedGen(rng, mode).lists()
            try:
                yield {"exprs": [dumps(expr_to_sx(e)) for e in es]}
            except Exception:
                continue

    def request(self, pl):
        return f"(cse-count ({' '.join(pl['exprs'])}))"

    def run_impl(self, pl):
        from pymbolic.cse import NormalizedKeyGetter, UseCountMapper
        exprs = [sx_to_expr(loads(s)) for s in pl["exprs"]]
        ucm = UseCountMapper(NormalizedKeyGetter())
        try:
            for e in exprs:
                ucm(e)
        except RecursionError:
            raise
        except Exception as ex:
            return tag_err_sx(ex)
        items = []
        for key, cnt in ucm.subexpr_counts.items():
            if isinstance(key, tuple) and len(key) == 2 and isinstance(key[1], frozenset):
                kids = sorted(dumps([expr_to_sx(c), n]) for c, n in key[1])
                ks = "(comm " + key[0].__name__ + " " + " ".join(kids) + ")"
            else:
                ks = dumps([A("plain"), expr_to_sx(key)])
            items.append(f"({ks} {cnt})")
        return "(ok (" + " ".join(sorted(items)) + "))"

    def nontrivial_key(self, pl, model, impl):
        return " ".join(pl["exprs"]) if impl.startswith("(ok") else None

    def stats(self, pl, mo, io, acc):
        k = "counts" if io.startswith("(ok") else io
        acc.setdefault("outcomes", {})
        acc["outcomes"][k] = acc["outcomes"].get(k, 0) + 1


# {{{ the wrapping helpers

def wrap_subjects():
    x, y, a = p.Variable("x"), p.Variable("y"), p.Variable("a")
    C = p.CommonSubexpression
    return [3, True, 2.5, x, p.Subscript(a, x), p.Subscript(a, (x, 1)), p.Sum((x, y)),
            p.Product((x, 2)), p.Call(p.Variable("f"), (x,)), p.Lookup(a, "u"), p.Power(x, 2),
            C(x), C(x, "q"), C(x, None, EXPR), C(x, "q", EXPR), C(p.Sum((x, y)), None, GLOB),
            C(C(x)), C(3), p.If(p.Comparison(x, "<", y), x, y), (x, y), "abc", None, p.NaN(),
            p.Quotient(x, y), p.Derivative(x, ("x",))]


def call_helper(helper, e, prefix, scope):
    with warnings.catch_warnings():
        warnings.simplefilter("ignore")
        if helper == "wrap":
            return p.wrap_in_cse(e, prefix)
        return p.make_common_subexpression(e, prefix, scope)


def leaf_kind(e):
    if isinstance(e, (bool, int, float, complex)):
        return "constant"
    if isinstance(e, p.Variable):
        return "variable"
    if isinstance(e, p.Subscript):
        return "subscript"
    if isinstance(e, p.CommonSubexpression):
        return "wrapper"
    return None


def helper_name(h):
    return "wrap-in-cse" if h == "wrap" else "make-cse"


def same_tree(a, b) -> bool:
    """structural identity through the harness' own serialisation (no use of pymbolic's ==)"""
    try:
        return dumps(expr_to_sx(a)) == dumps(expr_to_sx(b))
    except Exception:
        return a is b


def check_scalar_wrap(helper, e, prefix, scope, r, component=False):
    """the property sentence for ONE field: constants, variables, subscripts and wrapped nodes stay
    unwrapped; everything else gets one wrapper carrying the prefix.  Returns a failure key.
    (`component`: the field is a component of an object array / multivector.)"""
    kind = leaf_kind(e)
    C = p.CommonSubexpression
    if kind in ("constant", "variable", "subscript"):
        if isinstance(r, C):
            return f"{helper_name(helper)}-wraps-{kind}"
        if type(r) is not type(e) or not same_tree(r, e):
            return f"{helper_name(helper)}-changes-{kind}"
        return None
    if kind == "wrapper":
        if isinstance(r, C) and isinstance(r.child, C) and same_tree(r.child, e):
            return f"{helper_name(helper)}-wraps-wrapper" + rewrap_request(helper, e, scope)
        if not isinstance(r, C) or not same_tree(r.child, e.child):
            return f"{helper_name(helper)}-changes-wrapper"
        return None
    if not isinstance(r, C) or type(r.child) is not type(e) or not same_tree(r.child, e):
        return f"{helper_name(helper)}-does-not-wrap"
    if component:
        # a component's prefix is derived from the requested one (index / blade name appended)
        ok = r.prefix is None if prefix is None else (isinstance(r.prefix, str)
                                                      and r.prefix.startswith(prefix))
        if not ok:
            return f"{helper_name(helper)}-loses-prefix"
    elif r.prefix != prefix:
        return f"{helper_name(helper)}-loses-prefix"
    return None


def rewrap_request(helper, e, scope) -> str:
    """which request re-wrapped the already wrapped node `e` (suffix of the failure key): the scope
    asked for is the default one (omitted / None / EVALUATION), the wrapper's own, or another
    non-default one (the last is the shape of the known finding `make-cse-wraps-wrapper`)"""
    if helper != "make":
        return ""
    if scope is None or scope == EVAL:
        return ":default-scope-requested"
    if scope == e.scope:
        return ":own-scope-requested"
    return ""


class WrapStream(Stream):
    name = "wrap"

    def cases(self, rng, tier):
        subj = wrap_subjects()
        g = ExprGen(rng, cse=0.3, floats=0.05)
        for _ in range(150 if tier == "quick" else 3000):
            subj.append(g.gen(rng.choice(["num", "any", "bool", "int"]), rng.randint(0, 3)))
        # already wrapped nodes of every flavour (prefix x scope) around generated children: each
        # is met by every request (prefix x scope) below
        for _ in range(24 if tier == "quick" else 400):
            child = g.gen(rng.choice(["num", "any", "int"]), rng.randint(0, 2))
            subj.append(p.CommonSubexpression(child, rng.choice([None, "w", "cs"]),
                                              rng.choice([EVAL, EXPR, GLOB])))
        for e in subj:
            try:
                es = dumps(expr_to_sx(e))
            except Exception:
                continue
            for prefix in (None, "p"):
                yield {"helper": "wrap", "expr": es, "prefix": prefix, "scope": None}
                for scope in (None, EVAL, EXPR, GLOB):
                    yield {"helper": "make", "expr": es, "prefix": prefix, "scope": scope}

    @staticmethod
    def _opt(s):
        return "nil" if s is None else dumps(s)

    def request(self, pl):
        if pl["helper"] == "wrap":
            return f"(cse-wrap {pl['expr']} {self._opt(pl['prefix'])})"
        return f"(cse-make {pl['expr']} {self._opt(pl['prefix'])} {self._opt(pl['scope'])})"

    def run_impl(self, pl):
        e = sx_to_expr(loads(pl["expr"]))
        try:
            return dumps(expr_to_sx(call_helper(pl["helper"], e, pl["prefix"], pl["scope"])))
        except RecursionError:
            raise
        except Exception as ex:
            return dumps(exc_to_sx(ex))

    def oracle(self, pl):
        e = sx_to_expr(loads(pl["expr"]))
        if e is None or isinstance(e, (str, tuple, list)):
            return None       # not an expression field
        try:
            r = call_helper(pl["helper"], e, pl["prefix"], pl["scope"])
        except Exception as ex:
            return Failure(f"{helper_name(pl['helper'])}-raises", repr(ex), pl)
        key = check_scalar_wrap(pl["helper"], e, pl["prefix"], pl["scope"], r)
        if key is not None:
            return Failure(key, f"{helper_name(pl['helper'])}({e!r}, prefix={pl['prefix']!r}, "
                           f"scope={pl['scope']!r}) = {r!r}", pl)
        return None

    def shrink(self, pl):
        for s in sx_shrinks(loads(pl["expr"])):
            yield {**pl, "expr": dumps(s)}

    def nontrivial_key(self, pl, model, impl):
        return f"{pl['helper']} {pl['expr']} {pl['prefix']} {pl['scope']}"

    def stats(self, pl, mo, io, acc):
        e = sx_to_expr(loads(pl["expr"]))
        k = leaf_kind(e) or "composite"
        acc.setdefault("subjects", {})
        acc["subjects"][k] = acc["subjects"].get(k, 0) + 1


def erase_prefixes(s, prefix):
    """replace every wrapper prefix that starts with `prefix` by a marker"""
    if isinstance(s, list):
        if s and s[0] == "CSE" and prefix is not None and isinstance(s[2], str) \
                and not isinstance(s[2], Atom) and s[2].startswith(prefix):
            return [s[0], erase_prefixes(s[1], prefix), "<component>", s[3]]
        return [erase_prefixes(c, prefix) for c in s]
    return s


class WrapArrayStream(Stream):
    """object arrays and multivectors: componentwise application (oracle only)"""
    name = "wraparray"
    has_model = False

    def cases(self, rng, tier):
        n = 200 if tier == "quick" else 3000
        nsub = len(wrap_subjects())
        for i in range(n):
            container = ["array1", "array2", "mv"][i % 3]
            k = rng.randint(1, 4) if container != "array2" else 4
            idx = [rng.randrange(nsub) for _ in range(k)]
            yield {"container": container, "subjects": idx, "helper": ["make", "make", "wrap"][i % 3],
                   "prefix": rng.choice([None, "pre"]), "scope": rng.choice([None, EVAL, EXPR])}
        # containers with already wrapped components of every flavour (prefix x scope) next to
        # composite ones, under every request
        n = 120 if tier == "quick" else 2000
        plain = [j for j, e in enumerate(wrap_subjects())
                 if isinstance(e, (int, float, p.Expression)) and leaf_kind(e) in (None, "constant")]
        for i in range(n):
            container = ["array1", "mv", "array2"][i % 3]
            k = rng.randint(1, 4) if container != "array2" else 4
            comps = []
            for _ in range(k):
                if rng.random() < 0.6:
                    comps.append(["w", rng.randrange(nsub), rng.choice([None, "w", "cs"]),
                                  rng.choice([EVAL, EXPR, GLOB])])
                else:
                    comps.append(rng.choice(plain))
            yield {"container": container, "subjects": comps, "helper": "make",
                   "prefix": rng.choice([None, "pre"]), "scope": rng.choice([None, EVAL, EXPR, GLOB])}

    @staticmethod
    def _subject(subj, i):
        """an entry of `subjects`: an index into wrap_subjects(), or `["w", index, prefix, scope]` =
        that subject (its wrapper removed, if it has one) inside a wrapper of that flavour"""
        if isinstance(i, int):
            return subj[i]
        c = subj[i[1]]
        while isinstance(c, p.CommonSubexpression):
            c = c.child
        if isinstance(c, (str, tuple)) or c is None:
            c = p.Variable("v")
        return p.CommonSubexpression(c, i[2], i[3])

    def _field(self, pl):
        import numpy as np
        subj = wrap_subjects()
        comps = [self._subject(subj, i) for i in pl["subjects"]]
        comps = [c if not isinstance(c, (str, tuple)) and c is not None else p.Variable("v")
                 for c in comps]
        if pl["container"] == "mv":
            from pymbolic.geometric_algebra import MultiVector, get_euclidean_space
            bits = [0, 1, 2, 3, 5, 6][:len(comps)]
            return MultiVector(dict(zip(bits, comps)), get_euclidean_space(3)), comps
        arr = np.empty(len(comps), dtype=object)
        for i, c in enumerate(comps):
            arr[i] = c
        if pl["container"] == "array2":
            arr = arr.reshape(2, 2)
        return arr, comps

    def run_impl(self, pl):
        field, _ = self._field(pl)
        try:
            r = call_helper(pl["helper"], field, pl["prefix"], pl["scope"])
        except Exception as ex:
            return dumps(exc_to_sx(ex))
        return type(r).__name__

    def oracle(self, pl):
        import numpy as np
        from pymbolic.geometric_algebra import MultiVector
        field, comps = self._field(pl)
        h = helper_name(pl["helper"])
        try:
            r = call_helper(pl["helper"], field, pl["prefix"], pl["scope"])
        except Exception as ex:
            return Failure(f"{h}-raises-on-{pl['container']}", repr(ex), pl)
        if pl["container"] == "mv":
            if not isinstance(r, MultiVector) or r.space is not field.space \
                    or set(r.data) != set(field.data):
                return Failure(f"{h}-not-componentwise", f"{type(r).__name__} for a multivector", pl)
            pairs = [(field.data[b], r.data[b]) for b in field.data]
        else:
            if not isinstance(r, np.ndarray) or r.shape != field.shape or r.dtype.char != "O":
                return Failure(f"{h}-not-componentwise", f"{type(r).__name__} for an object array "
                               f"of shape {field.shape}", pl)
            pairs = [(field[i], r[i]) for i in np.ndindex(field.shape)]
        # the property sentence component by component (independent of the helper itself)
        # (already wrapped components are judged first)
        for c, rc in sorted(pairs, key=lambda cr: leaf_kind(cr[0]) != "wrapper"):
            key = check_scalar_wrap(pl["helper"], c, pl["prefix"], pl["scope"], rc, component=True)
            if key is not None:
                return Failure(key, f"component {c!r} of the {pl['container']} became {rc!r} "
                               f"(prefix={pl['prefix']!r}, scope={pl['scope']!r})", pl)
        for c, rc in pairs:
            want = call_helper(pl["helper"], c, pl["prefix"], pl["scope"])
            try:
                a = erase_prefixes(expr_to_sx(rc), pl["prefix"])
                b = erase_prefixes(expr_to_sx(want), pl["prefix"])
            except Exception:
                return Failure(f"{h}-component-not-scalar", repr(rc), pl)
            if a != b:
                return Failure(f"{h}-component-differs", f"component {c!r}: {rc!r}, the helper on "
                               f"the component alone gives {want!r}", pl)
        return None

    def nontrivial_key(self, pl, model, impl):
        return dumps([pl["container"], pl["helper"], str(pl["prefix"]), str(pl["scope"]),
                      *[str(i) for i in pl["subjects"]]])

    def stats(self, pl, mo, io, acc):
        acc[pl["container"]] = acc.get(pl["container"], 0) + 1

# }}}


# {{{ evaluation histories with wrappers

class TraceGen:
    """hand-wrapped expressions: the same wrapper many times, equal-but-not-identical copies, the
    same child under different prefixes / scopes (distinct wrappers), wrappers inside wrappers,
    wrappers in branches that are not taken"""

    def __init__(self, rng):
        self.rng = rng

    def history(self):
        r = self.rng
        C = p.CommonSubexpression
        leaves = [p.Variable(v) for v in ("x", "y", "i")] + [1, 2, -1]
        pool = list(leaves)
        wrappers = []

        def pick():
            if wrappers and r.random() < 0.5:
                w = r.choice(wrappers)
                if r.random() < 0.4:
                    w = sx_to_expr(loads(dumps(expr_to_sx(w))))     # equal, not identical
                return w
            return r.choice(pool)
        for _ in range(r.randint(3, 9)):
            k = r.choice(["call", "call", "sum", "prod", "quot", "wrap", "wrap", "wrap", "if", "pow"])
            if k == "call":
                node = p.Call(p.Variable(r.choice(["f", "g"])), tuple(pick() for _ in range(r.randint(0, 2))))
            elif k == "sum":
                node = p.Sum(tuple(pick() for _ in range(r.randint(2, 3))))
            elif k == "prod":
                node = p.Product(tuple(pick() for _ in range(2)))
            elif k == "quot":
                node = p.Quotient(pick(), pick())
            elif k == "pow":
                node = p.Power(pick(), r.randint(0, 2))
            elif k == "if":
                node = p.If(p.Comparison(pick(), r.choice(["<", ">=", "=="]), pick()), pick(), pick())
            else:
                node = C(pick(), r.choice([None, None, "a", "b"]), r.choice([EVAL, EVAL, EXPR, GLOB]))
                wrappers.append(node)
            if size(node) > 60:
                continue
            pool.append(node)
        hist = []
        for _ in range(r.randint(1, 6)):
            hist.append(pick() if r.random() < 0.7 else r.choice(pool[-4:]))
        return hist


def trace_env(rng):
    env = {"x": rng.randint(-3, 4), "y": Fraction(rng.randint(-5, 5), rng.randint(1, 3)),
           "i": rng.randint(0, 3), "f": Func("f"), "g": Func("g")}
    if rng.random() < 0.15:
        del env["y"]          # an unknown variable: evaluations that raise, instance reused after
    return env


def reference_history(exprs, env):
    """plain Python computation of the history in which the child of each distinct wrapper is
    computed once per evaluator; returns the list of function invocations, or None when some
    evaluation raises"""
    calls = []
    memo = {}

    class F:
        def __init__(self, name):
            self.name = name

        def __call__(self, *args):
            r = App(self.name, args, {})
            calls.append(r)
            return r
    renv = {k: (F(v.name) if isinstance(v, Func) else v) for k, v in env.items()}

    def ev(s):
        h = s[0]
        if h == "Int":
            return int(s[1])
        if h == "Var":
            return renv[s[1]]
        if h == "CSE":
            key = dumps(s)
            if key not in memo:
                memo[key] = ev(s[1])
            return memo[key]
        if h == "Sum":
            acc = 0
            for c in s[1:]:
                acc = acc + ev(c)
            return acc
        if h == "Product":
            acc = 1
            for c in s[1:]:
                acc = acc * ev(c)
            return acc
        if h == "Quotient":
            a = ev(s[1]); b = ev(s[2])
            return a / b
        if h == "Power":
            a = ev(s[1]); b = ev(s[2])
            return a ** b
        if h == "Call":
            f = ev(s[1])
            return f(*[ev(c) for c in s[2]])
        if h == "If":
            return ev(s[2]) if ev(s[1]) else ev(s[3])
        if h == "Comparison":
            import operator as op
            a = ev(s[1]); b = ev(s[3])
            return {"<": op.lt, ">=": op.ge, "==": op.eq}[s[2]](a, b)
        raise NotImplementedError(h)
    try:
        vals = [ev(s) for s in exprs]
    except NotImplementedError:
        raise
    except Exception:
        return None, None
    return calls, vals


class TraceStream(Stream):
    name = "trace"

    def cases(self, rng, tier):
        n = 1200 if tier == "quick" else 20000
        for _ in range(n):
            hist = TraceGen(rng).history()
            env = trace_env(rng)
            if not all(is_safe(e, env) for e in hist):
                continue
            yield {"env": dumps(env_to_sx(env)), "exprs": [dumps(expr_to_sx(e)) for e in hist]}
        # one wrapper k times in one expression, and again in a second evaluation
        x, f = p.Variable("x"), p.Variable("f")
        for pref, scope, k in itertools.product([None, "a"], [EVAL, EXPR, GLOB], [1, 2, 3, 5]):
            w = p.CommonSubexpression(p.Call(f, (x,)), pref, scope)
            w2 = p.CommonSubexpression(p.Call(f, (x,)), "other", scope)
            e = p.Sum(tuple([w] * k))
            yield {"env": dumps(env_to_sx({"x": 1, "f": Func("f")})),
                   "exprs": [dumps(expr_to_sx(t)) for t in (e, w, p.Product((w, w2)), e)]}

    def request(self, pl):
        return f"(cse-trace {pl['env']} ({' '.join(pl['exprs'])}))"

    def run_impl(self, pl):
        exprs = [sx_to_expr(loads(s)) for s in pl["exprs"]]
        env = sx_to_env(loads(pl["env"]))
        return dumps(run_traced(exprs, env))

    def oracle(self, pl):
        from pymbolic.mapper.evaluator import EvaluationMapper
        exprs = [sx_to_expr(loads(s)) for s in pl["exprs"]]
        env = sx_to_env(loads(pl["env"]))
        want, vals = reference_history([loads(s) for s in pl["exprs"]], env)
        if want is None:
            return None
        log = []
        m = EvaluationMapper(logging_env(env, log))
        for k, e in enumerate(exprs):
            got = outcome(lambda e=e: m(e))
            if got[0] != "ok" or not close(got[1], vals[k]):
                return Failure("history-value-differs", f"call #{k}: {got!r}, plain computation "
                               f"{vals[k]!r}", pl)
        got_calls = [c[1] for c in log]
        if got_calls != want:
            if sorted(map(repr, got_calls)) == sorted(map(repr, want)):
                return Failure("call-order-differs", f"{got_calls!r} vs {want!r}", pl)
            return Failure("wrapper-child-not-once",
                           f"functions invoked: {got_calls!r}; with the child of each distinct "
                           f"wrapper computed once: {want!r}", pl)
        return None

    def shrink(self, pl):
        ex = pl["exprs"]
        for i in range(len(ex)):
            if len(ex) > 1:
                yield {**pl, "exprs": ex[:i] + ex[i + 1:]}
        for i in range(len(ex)):
            for s in sx_shrinks(loads(ex[i])):
                yield {**pl, "exprs": ex[:i] + [dumps(s)] + ex[i + 1:]}

    def nontrivial_key(self, pl, model, impl):
        return " ".join(pl["exprs"]) + pl["env"] if "(child" in impl else None

    def stats(self, pl, mo, io, acc):
        acc["evaluations"] = acc.get("evaluations", 0) + len(pl["exprs"])
        acc["wrappers_computed"] = acc.get("wrappers_computed", 0) + io.count("(child ")
        acc["wrapper_occurrences"] = acc.get("wrapper_occurrences", 0) + sum(s.count("(CSE") for s in pl["exprs"])
        acc["calls_logged"] = acc.get("calls_logged", 0) + io.count("(call ")
        if "(err" in io:
            acc["histories_with_errors"] = acc.get("histories_with_errors", 0) + 1

# }}}


# {{{ the histogram based tagger (pymbolic/mapper/cse_tagger.py)

def _falsy(sx):
    try:
        return p.is_zero(sx_to_expr(sx))
    except Exception:
        return False


class TagMapperStream(Stream):
    """CSEWalkMapper + CSETagMapper on one expression: equal value (oracle only)"""
    name = "tagmapper"
    has_model = False

    def cases(self, rng, tier):
        n = 600 if tier == "quick" else 10000
        for i in range(n):
            mode = ["frag", "frag", "wrapped"][i % 3]
            es = SharedGen(rng, mode).lists()
            env = rand_env(rng)
            e = es[0] if len(es) == 1 else p.Sum(tuple(es))
            if not is_safe(e, env):
                continue
            yield {"env": dumps(env_to_sx(env)), "expr": dumps(expr_to_sx(e))}

    def _tag(self, e):
        from pymbolic.mapper.cse_tagger import CSETagMapper, CSEWalkMapper
        w = CSEWalkMapper()
        w(e)
        return CSETagMapper(w)(e)

    def run_impl(self, pl):
        e = sx_to_expr(loads(pl["expr"]))
        try:
            return dumps(expr_to_sx(self._tag(e)))
        except Exception as ex:
            return dumps(exc_to_sx(ex))

    def oracle(self, pl):
        e = sx_to_expr(loads(pl["expr"]))
        env = sx_to_env(loads(pl["env"]))
        try:
            t = self._tag(e)
        except Exception as ex:
            return Failure("tagmapper-raises", repr(ex), pl)
        ref = outcome(lambda: pyeval(e, env))
        got = outcome(lambda: pyeval(t, env))
        if not same_meaning(ref, got):
            key = "tagmapper-value-differs"
            if ref[0] == "err" and got[0] == "ok" and any(
                    isinstance(t, list) and t[0] == "CSE" and _falsy(t[1])
                    for t in sx_subterms(loads(pl["expr"]))):
                key = "tagmapper-zero-wrapper-collapses"
            return Failure(key, f"original {ref!r}, tagged {dumps(expr_to_sx(t))} {got!r}", pl)
        if not has_nested_wrapper(loads(pl["expr"])) and has_nested_wrapper(expr_to_sx(t)):
            return Failure("tagmapper-wrapper-around-wrapper", f"output {dumps(expr_to_sx(t))}", pl)
        return None

    def shrink(self, pl):
        for s in sx_shrinks(loads(pl["expr"])):
            yield {**pl, "expr": dumps(s)}

    def nontrivial_key(self, pl, model, impl):
        return pl["expr"] if "(CSE" in impl else None

# }}}


# {{{ end to end: the operation tally of one evaluator over all tagged expressions

def make_tally_eval(cenv, t, nodes):
    """the real EvaluationMapper with (1) integer constants turned into counting numbers, so that
    every arithmetic operation is counted, and (2) the operation handlers logged as they return"""
    from pymbolic.mapper.evaluator import EvaluationMapper

    def logged(name):
        def handler(self, expr):
            r = getattr(EvaluationMapper, name)(self, expr)
            nodes.append(expr)
            if isinstance(r, (int, Fraction)) and not isinstance(r, bool):
                r = Cnt(Fraction(r), t)       # the 0 / 1 of an empty sum / product counts too
            return r
        return handler

    class TallyEval(EvaluationMapper):
        def map_constant(self, expr):
            if isinstance(expr, (int, Fraction)) and not isinstance(expr, bool):
                return Cnt(Fraction(expr), t)
            return expr
    for name in ("map_sum", "map_product", "map_quotient", "map_floor_div", "map_remainder",
                 "map_power", "map_call"):
        setattr(TallyEval, name, logged(name))
    return TallyEval(cenv)


def tally_env(rng):
    def num():
        if rng.random() < 0.5:
            return rng.choice([-3, -2, -1, 1, 2, 3, 4])
        return Fraction(rng.choice([-5, -3, -1, 1, 2, 5, 7]), rng.randint(1, 4))
    env = {v: num() for v in ("x", "y", "z")}
    env["i"] = rng.randint(-2, 3)
    env["f"] = Func("f")
    env["g"] = Func("g")
    return env


def collapse_lists(rng):
    """operations that differ only in the operand order of a NESTED sum / product, each possibly
    repeated: their keys differ (the operands are compared as written) but their canonical
    wrappers can coincide"""
    leaves = [p.Variable(v) for v in ("x", "y", "z")] + [2, 3]
    kids = rng.sample(leaves, rng.randint(2, 3))
    inner = rng.choice([p.Sum, p.Product])
    rot = kids[1:] + kids[:1]
    a, b = inner(tuple(kids)), inner(tuple(rot))
    other = rng.choice(leaves)
    kind = rng.randrange(7)

    def outer(x):
        if kind == 0:
            return p.Product((x, other))
        if kind == 1:
            return p.Sum((other, x))
        if kind == 2:
            return p.Call(p.Variable("f"), (x,))
        if kind == 3:
            return p.Power(x, 2)
        if kind == 4:
            return p.Quotient(x, other)
        if kind == 5:
            return p.Quotient(other, x)
        return p.Call(p.Variable("g"), (other, x))
    oa, ob = outer(a), outer(b)
    if rng.random() < 0.3:          # one level deeper
        oa, ob = p.Sum((oa, 1)), p.Sum((ob, 1))
    es = [oa] * rng.randint(1, 2) + [ob] * rng.randint(1, 2)
    if rng.random() < 0.5:
        rng.shuffle(es)
    if rng.random() < 0.3:
        es.append(p.Product((oa, ob)))
    return es


def _q(v):
    v = Fraction(v)
    return [A("q"), v.numerator, v.denominator]


def sx_list(head, items):
    return [A(head)] + list(items)


class TallyStream(Stream):
    name = "tally"
    _n_exact = 0
    _n_fewer = 0

    def cases(self, rng, tier):
        n = 1500 if tier == "quick" else 25000
        for i in range(n):
            es = collapse_lists(rng) if i % 5 == 4 else SharedGen(rng, "frag").lists()
            env = tally_env(rng)
            if not all(is_safe(e, env) for e in es):
                continue
            yield {"env": dumps(env_to_sx(env)), "exprs": [dumps(expr_to_sx(e)) for e in es]}
        ops = small_ops()
        env = {"x": 3, "y": Fraction(1, 2), "z": -2, "f": Func("f")}
        envs = dumps(env_to_sx(env))
        pairs = list(itertools.product(ops, ops))
        if tier == "quick":
            pairs = [pr for k, pr in enumerate(pairs) if k % 3 == 0]
        for a, b in pairs:
            yield {"env": envs, "exprs": [dumps(expr_to_sx(a)), dumps(expr_to_sx(b))]}
        z = p.Variable("z")
        for a in ops:
            for o in (p.Sum((a, z)), p.Product((z, a)), p.Call(p.Variable("f"), (a,)), p.Power(a, 2)):
                yield {"env": envs, "exprs": [dumps(expr_to_sx(e)) for e in (o, a, o)]}
        # the two witnesses of the theorems
        a, b, c = (p.Variable(v) for v in "abc")
        e0, e1 = p.Product((p.Sum((a, b)), c)), p.Product((p.Sum((b, a)), c))
        env3 = dumps(env_to_sx({"a": 1, "b": 2, "c": 3}))
        for es in ([e0, e0, e1, e1], [e0, p.Product((c, p.Sum((b, a))))], [e0, e0, e1], [e0, e1, e1, e0]):
            yield {"env": env3, "exprs": [dumps(expr_to_sx(e)) for e in es]}

    def request(self, pl):
        return f"(cse-tag-tally {pl['env']} ({' '.join(pl['exprs'])}))"

    def _inputs(self, pl):
        env = sx_to_env(loads(pl["env"]))
        return [sx_to_expr(loads(s)) for s in pl["exprs"]], env

    def _run(self, tagged, env):
        """evaluate all tagged expressions with ONE instrumented evaluator"""
        t = Tally()
        nodes = []
        m = make_tally_eval(counting_env(env, t), t, nodes)
        for e in tagged:
            m(e)
        return t, nodes

    def run_impl(self, pl):
        from pymbolic.cse import tag_common_subexpressions
        exprs, env = self._inputs(pl)
        in_sx = [loads(s) for s in pl["exprs"]]
        try:
            tagged = tag_common_subexpressions(exprs)
        except RecursionError:
            raise
        except Exception as ex:
            return tag_err_sx(ex)
        plan = structural_plan(in_sx, onelevel_class)
        ref = structural_tally(plan)
        try:
            t, nodes = self._run(tagged, env)
            run = [A("run"), sx_list("nodes", [expr_to_sx(n) for n in nodes]),
                   sx_list("tally", [t.n.get(k, 0) for k in ("add", "mul", "div", "floordiv", "mod", "pow")]
                           + [sum(v for k, v in t.n.items() if k.startswith("call:"))]),
                   sx_list("calls", [[name] + [_q(v) for v in vals] for name, vals in t.calls])]
        except RecursionError:
            raise
        except Exception as ex:
            run = [A("raised"), A(type(ex).__name__)]
        return dumps([A("ok"), run, sx_list("ref", [ref[k] for k in TALLY_KINDS]), sx_list("plan", plan)])

    def agree(self, model, impl, pl):
        if model == impl:
            return "ok"
        try:
            mo, io = loads(model), loads(impl)
        except Exception:
            return "diff"
        if not (isinstance(mo, list) and isinstance(io, list) and mo and io
                and mo[0] == "ok" and io[0] == "ok" and len(mo) == 4 and len(io) == 4):
            return "diff"
        if mo[2] != io[2] or mo[3] != io[3]:
            return "diff"                     # reference tally / plan: always comparable
        mrun, irun = mo[1], io[1]
        if mrun[0] == "noclaim":
            return "trivial"                  # floats reached: the exact model abstains
        if irun[0] == "raised":
            if mrun[0] == "raised":
                return "ok"
            # the counting numbers of the harness refuse non-integer / huge exponents
            return "trivial" if len(irun) > 1 and irun[1] == "OverflowError" else "diff"
        if mrun[0] != "run":
            return "diff"
        if mrun[1] != irun[1] or mrun[2] != irun[2]:
            return "diff"
        mc, ic = mrun[3][1:], irun[3][1:]
        if len(mc) != len(ic):
            return "diff"
        for a, b in zip(mc, ic):
            if a[0] != b[0] or len(a) != len(b):
                return "diff"
            for x, y in zip(a[1:], b[1:]):
                if x != "?" and x != y:       # `?`: int / int is a float in the model
                    return "diff"
        return "ok"

    def oracle(self, pl):
        """theorem `tagged_ops_once` on the real code: no operation class (one-level classifier) is
        performed more than once; never more than the reference, never fewer than the recursive
        reference"""
        from pymbolic.cse import tag_common_subexpressions
        exprs, env = self._inputs(pl)
        in_sx = [loads(s) for s in pl["exprs"]]
        if not all(in_fragment(s) for s in in_sx):
            return None
        try:
            tagged = tag_common_subexpressions(exprs)
        except Exception as ex:
            return Failure("tagging-raises-on-fragment", repr(ex), pl)
        try:
            t, nodes = self._run(tagged, env)
        except Exception:
            return None          # an operand fails to evaluate: nothing to count
        got = dict.fromkeys(TALLY_KINDS, 0)
        for k, v in t.n.items():
            got["call" if k.startswith("call:") else k] += v
        want = structural_tally(structural_plan(in_sx, onelevel_class))
        want_rec = structural_tally(structural_plan(in_sx, recursive_class))
        # the handlers that ran stand for exactly the arithmetic that was counted
        if structural_tally([expr_to_sx(n) for n in nodes]) != got:
            return Failure("handler-log-and-count-differ",
                           f"handlers {structural_tally([expr_to_sx(n) for n in nodes])}, counted {got}", pl)
        if any(got[k] > want[k] for k in TALLY_KINDS):
            return Failure("operation-repeated",
                           f"one evaluator over all tagged expressions performs {got}, each "
                           f"distinct operation of the input once is {want}", pl)
        if got == want:
            TallyStream._n_exact += 1
        else:
            TallyStream._n_fewer += 1
        if got != want_rec:
            return Failure("nested-commuted-operands-not-merged",
                           f"performed {got}; with operands compared up to order recursively "
                           f"the distinct operations are {want_rec}", pl)
        return None

    def shrink(self, pl):
        ex = pl["exprs"]
        for i in range(len(ex)):
            if len(ex) > 1:
                yield {**pl, "exprs": ex[:i] + ex[i + 1:]}
        for i in range(len(ex)):
            for s in sx_shrinks(loads(ex[i])):
                yield {**pl, "exprs": ex[:i] + [dumps(s)] + ex[i + 1:]}

    def nontrivial_key(self, pl, model, impl):
        if "(run " not in impl or "(CSE" not in impl:
            return None
        return " ".join(pl["exprs"]) + pl["env"]

    def stats(self, pl, mo, io, acc):
        k = ("run" if "(run " in io else "raised" if "(raised" in io else "err")
        acc.setdefault("outcomes", {})
        acc["outcomes"][k] = acc["outcomes"].get(k, 0) + 1
        if "(CSE" in io:
            acc["with_wrappers"] = acc.get("with_wrappers", 0) + 1
        acc["exactly_the_onelevel_reference"] = TallyStream._n_exact
        acc["fewer_than_one_per_onelevel_class"] = TallyStream._n_fewer

# }}}


# {{{ lists that already contain wrappers: the sharing clause with pre-existing wrappers

WRAP_HEADS = FRAG_HEADS | {"CSE"}


def in_wrapped_fragment(s) -> bool:
    return all(isinstance(t, list) and t[0] in WRAP_HEADS for t in sx_subterms(s))


def strip_wrappers(s):
    """the expression without its wrappers (a wrapper means what its child means)"""
    if isinstance(s, Atom) or not isinstance(s, list):
        return s
    if s and s[0] == "CSE":
        return strip_wrappers(s[1])
    return [strip_wrappers(c) for c in s]


def wrapper_flavour(*stack) -> str:
    """of a wrapper S-expression `(CSE child prefix scope)` (or of wrappers directly around one
    another, outermost first: prefixed / scoped if one of them is)"""
    prefixed = any(not isinstance(s[2], Atom) for s in stack)
    scoped = any(s[3] != EVAL for s in stack)
    return {(False, False): "in-plain", (True, False): "in-prefixed", (False, True): "in-scoped",
            (True, True): "in-prefixed-scoped"}[(prefixed, scoped)]


def operation_occurrences(sxs):
    """every operation node of the inputs (wrappers looked through) as
    `(class up to wrappers, class as written, tag, prefix of the wrapper directly around it, size)`;
    the first class is taken up to the operand order of nested sums / products as well (a tagged
    tree holds the canonical wrapper of an operand, whose child may be a commuted copy of it), the
    second (operands as written, wrappers included) is what may be performed once each;
    tag: `bare` (no wrapper above it), `below-wrapper` (inside a pre-existing wrapper, not directly),
    `in-plain` / `in-prefixed` / `in-scoped` / `in-prefixed-scoped` (the child of a wrapper)"""
    occ = []

    def walk(s, direct, below):
        if isinstance(s, Atom) or not isinstance(s, list):
            return
        if s[0] == "CSE":
            walk(s[1], direct + (s,), True)
            return
        if s[0] in OP_HEADS:
            tag = wrapper_flavour(*direct) if direct else ("below-wrapper" if below else "bare")
            # the prefix that names the operation: the innermost one of the wrappers around it
            pref = next((w[2] for w in reversed(direct) if not isinstance(w[2], Atom)), None)
            st = strip_wrappers(s)
            occ.append((recursive_class(st), onelevel_class(s), tag, pref, len(list(sx_subterms(st)))))
        for _p, c in sx_children(s):
            walk(c, (), below)
    for s in sxs:
        walk(s, (), False)
    return occ


def suboperation_classes(sxs):
    """{class up to wrappers: classes of the operations strictly inside an occurrence of it}"""
    inside = {}

    def walk(s):
        """returns the classes of all operations in `s` (wrappers looked through)"""
        if isinstance(s, Atom) or not isinstance(s, list):
            return set()
        if s[0] == "CSE":
            return walk(s[1])
        below = set()
        for _p, c in sx_children(s):
            below |= walk(c)
        if s[0] in OP_HEADS:
            k = recursive_class(strip_wrappers(s))
            inside.setdefault(k, set()).update(below)
            return below | {k}
        return below
    for s in sxs:
        walk(s)
    return inside


class PrewrappedGen:
    """lists in which a pre-existing wrapper (every combination of prefix and scope) and further
    occurrences of its child -- or of an operation strictly inside its child -- meet: bare, with the
    operands of a sum / product in another order, inside or directly under a second wrapper of
    another flavour, the same wrapper again; each occurrence in a random context, the list in a
    random order."""

    PREFIXES = (None, None, None, "a", "cs")
    SCOPES = (EVAL, EXPR, GLOB)
    OTHERS = ("bare", "commuted", "inside-other-wrapper", "under-other-wrapper", "wrapper-again")

    def __init__(self, rng):
        self.rng = rng

    def leaf(self):
        r = self.rng
        return p.Variable(r.choice("xyz")) if r.random() < 0.7 else r.choice([2, 3, -1, 5])

    def op(self, depth):
        """an operation node of the fragment"""
        r = self.rng

        def kid():
            return self.op(depth - 1) if depth > 1 and r.random() < 0.6 else self.leaf()
        k = r.choice(["sum", "prod", "sum", "prod", "quot", "pow", "call", "call"])
        if k in ("sum", "prod"):
            return (p.Sum if k == "sum" else p.Product)(tuple(kid() for _ in range(r.randint(2, 3))))
        if k == "quot":
            return p.Quotient(kid(), kid())
        if k == "pow":
            return p.Power(kid(), r.randint(2, 3))
        return p.Call(p.Variable(r.choice("fg")), tuple(kid() for _ in range(r.randint(1, 2))))

    def context(self, e):
        """`e` as an operand of a few enclosing operations (or as it is)"""
        r = self.rng
        for _ in range(r.choice([0, 1, 1, 1, 2])):
            lf = self.leaf()
            e = r.choice([
                lambda: p.Product((e, lf)), lambda: p.Sum((lf, e)), lambda: p.Quotient(e, lf),
                lambda: p.Quotient(lf, e), lambda: p.Power(e, 2),
                lambda: p.Call(p.Variable(r.choice("fg")), (e,)), lambda: p.Sum((e, lf, e)),
            ])()
        return e

    @staticmethod
    def strict_ops(e):
        """the operation nodes strictly inside `e`"""
        res = []

        def walk(c, top):
            if not isinstance(c, p.Expression) or isinstance(c, p.Variable):
                return
            if not top:
                res.append(c)
            if isinstance(c, (p.Sum, p.Product)):
                kids = c.children
            elif isinstance(c, p.Quotient):
                kids = (c.numerator, c.denominator)
            elif isinstance(c, p.Power):
                kids = (c.base, c.exponent)
            else:
                kids = c.parameters
            for k in kids:
                walk(k, False)
        walk(e, True)
        return res

    def commuted(self, e):
        if isinstance(e, (p.Sum, p.Product)) and len(e.children) > 1:
            kids = list(e.children)
            first = kids[0]
            for _ in range(4):
                self.rng.shuffle(kids)
                if kids[0] is not first:
                    break
            return type(e)(tuple(kids))
        return e

    def build(self, target, prefix, scope, other, wrapper_first=None):
        """one list: `target` = "whole" (the wrapper's child recurs) / "inner" (an operation strictly
        inside it recurs); (prefix, scope) the flavour of the wrapper; `other`: how it recurs"""
        r = self.rng
        body = self.op(r.randint(2, 3) if target == "inner" else r.randint(1, 2))
        inner = self.strict_ops(body)
        rep = r.choice(inner) if target == "inner" and inner else body
        w = p.CommonSubexpression(body, prefix, scope)
        C = p.CommonSubexpression
        p2, s2 = r.choice(self.PREFIXES), r.choice(self.SCOPES)
        if other == "bare":
            second = [rep]
        elif other == "commuted":
            second = [self.commuted(rep)]
        elif other == "inside-other-wrapper":
            lf = self.leaf()
            second = [C(r.choice([p.Sum((rep, lf)), p.Product((lf, rep)), p.Power(rep, 2)]), p2, s2)]
        elif other == "under-other-wrapper":
            second = [C(rep, p2, s2)]
        else:
            second = [w, self.commuted(rep) if r.random() < 0.5 else rep]
        if r.random() < 0.3:
            second.append(self.commuted(rep) if r.random() < 0.5 else rep)
        es = [self.context(w)] + [self.context(e) for e in second]
        if r.random() < 0.25:
            es.append(self.context(self.op(1)))
        first = es[0]
        r.shuffle(es)
        if wrapper_first is not None:
            es.remove(first)
            es.insert(0 if wrapper_first else len(es), first)
        return es


class PrewrappedStream(TallyStream):
    """tag a list that already contains wrappers, evaluate ALL tagged expressions with one
    evaluator (handlers logged, counting numbers): the handler log, tally and calls against the
    Lean counting evaluator, and the property's sharing clause read with wrappers looked through:
    an operation (operands as written, a sum / product up to their order) is performed once however
    often, and under whatever pre-existing wrappers, it occurs in the input."""
    name = "prewrapped"
    _n_repeating = 0
    _flavours: dict = {}

    def cases(self, rng, tier):
        g = PrewrappedGen(rng)
        grid = list(itertools.product(("whole", "inner"), (None, "a"), g.SCOPES, g.OTHERS, (True, False)))
        reps = 1 if tier == "quick" else 12
        for _ in range(reps):
            for target, prefix, scope, other, wfirst in grid:
                yield from self._case(g.build(target, prefix, scope, other, wfirst), rng,
                                      f"{target}/{other}")
        n = 700 if tier == "quick" else 12000
        for i in range(n):
            if i % 4 == 3:
                es, fam = SharedGen(rng, "wrapped").lists(), "pool"
            else:
                target, other = rng.choice(("whole", "inner")), rng.choice(g.OTHERS)
                es = g.build(target, rng.choice(g.PREFIXES), rng.choice(g.SCOPES), other)
                fam = f"{target}/{other}"
            yield from self._case(es, rng, fam)

    @staticmethod
    def _case(es, rng, family):
        env = tally_env(rng)
        try:
            sxs = [expr_to_sx(e) for e in es]
        except Exception:
            return
        if not all(in_wrapped_fragment(s) for s in sxs) or not all(is_safe(e, env) for e in es):
            return
        yield {"family": family, "env": dumps(env_to_sx(env)), "exprs": [dumps(s) for s in sxs]}

    def run_impl(self, pl):
        from pymbolic.cse import tag_common_subexpressions
        exprs, env = self._inputs(pl)
        try:
            tagged = tag_common_subexpressions(exprs)
        except RecursionError:
            raise
        except Exception as ex:
            return tag_err_sx(ex)
        try:
            t, nodes = self._run(tagged, env)
            run = [A("run"), sx_list("nodes", [expr_to_sx(n) for n in nodes]),
                   sx_list("tally", [t.n.get(k, 0) for k in ("add", "mul", "div", "floordiv", "mod", "pow")]
                           + [sum(v for k, v in t.n.items() if k.startswith("call:"))]),
                   sx_list("calls", [[name] + [_q(v) for v in vals] for name, vals in t.calls])]
        except RecursionError:
            raise
        except Exception as ex:
            run = [A("raised"), A(type(ex).__name__)]
        return dumps([A("ok"), run])

    def agree(self, model, impl, pl):
        # the model's reference plan / tally is defined for inputs without wrappers: only the run
        # (handler log, tally, calls) is compared here
        try:
            mo, io = loads(model), loads(impl)
        except Exception:
            return "diff"
        if isinstance(mo, list) and isinstance(io, list) and len(mo) == 4 and len(io) == 2 \
                and mo[0] == "ok" and io[0] == "ok":
            return super().agree(model, dumps(io + mo[2:]), pl)
        return "ok" if model == impl else "diff"

    def oracle(self, pl):
        from pymbolic.cse import tag_common_subexpressions
        exprs, env = self._inputs(pl)
        in_sx = [loads(s) for s in pl["exprs"]]
        if not all(in_wrapped_fragment(s) for s in in_sx):
            return None
        try:
            tagged = tag_common_subexpressions(exprs)
        except Exception as ex:
            return Failure("tagging-raises-on-fragment", repr(ex), pl)
        if len(tagged) != len(exprs):
            return Failure("length-differs", f"{len(exprs)} expressions in, {len(tagged)} out", pl)
        out_sx = [expr_to_sx(t) for t in tagged]
        if not any(has_nested_wrapper(s) for s in in_sx) and any(has_nested_wrapper(s) for s in out_sx):
            return Failure("wrapper-around-wrapper", f"output {[dumps(s) for s in out_sx]}", pl)
        stripped = [strip_wrappers(s) for s in in_sx]
        try:
            _, want_vals = reference_counts(stripped, env, onelevel_class, count_consts=True)
        except Exception:
            return None          # an operand fails to evaluate: nothing to compare / count
        t = Tally()
        nodes = []
        m = make_tally_eval(counting_env(env, t), t, nodes)
        for k, e in enumerate(tagged):
            try:
                got = m(e)
            except Exception as ex:
                return Failure("tagged-raises", f"expression #{k}: the original evaluates to "
                               f"{_v(want_vals[k])!r}, the tagged {dumps(out_sx[k])} raises {ex!r}", pl)
            if _v(got) != _v(want_vals[k]):
                return Failure("value-differs", f"expression #{k}: original means "
                               f"{_v(want_vals[k])!r}, tagged {dumps(out_sx[k])} evaluated with the "
                               f"one evaluator gives {_v(got)!r}", pl)
        # each operation once: how often was a handler run for it, how often may it be
        occ = operation_occurrences(in_sx)
        written = {}
        for sc, wc, _tag, _pref, _size in occ:
            written.setdefault(sc, set()).add(wc)
        performed = {}
        for n in nodes:
            sc = recursive_class(strip_wrappers(expr_to_sx(n)))
            performed[sc] = performed.get(sc, 0) + 1
        if any(len(v) > 1 for v in written.values()) or len(occ) > len(written):
            PrewrappedStream._n_repeating += 1
        over = {sc for sc, k in performed.items() if k > len(written.get(sc, ()))}
        if not over:
            return None
        # an operation inside a repeated one is repeated with it: report the outermost ones
        inside = suboperation_classes(in_sx)
        roots = [sc for sc in over if not any(sc in inside.get(o, ()) for o in over if o != sc)] \
            or sorted(over)
        found = []
        for sc in roots:
            mine = [o for o in occ if o[0] == sc]
            tags = sorted({o[2] for o in mine})
            # what distinct prefixes around the operation explain (one wrapper per prefix, plus one
            # for the occurrences without a prefix): the shape of the known finding
            by_prefix = 0
            for wc in written[sc]:
                prefs = {o[3] for o in mine if o[1] == wc}
                by_prefix += len(prefs)
            if performed[sc] <= by_prefix:
                # wrappers with different prefixes are DISTINCT wrappers: the property asks that
                # the child of each distinct wrapper is computed once, not that they merge (and
                # the sharing clause is about inputs without wrappers).  No verdict.
                continue
            key = "operation-repeated:" + "+".join(tags)
            found.append((key == "operation-repeated:under-distinct-prefixes", -max(o[4] for o in mine),
                          key, sc, performed[sc], len(written[sc])))
        if not found:
            return None
        found.sort()
        _known, _size, key, sc, k, allowed = found[0]
        return Failure(key, f"the operation {sc} of the input is performed {k} times by one "
                       f"evaluator over all tagged expressions ({allowed} allowed: once per way "
                       f"its operands are written); tagged = {[dumps(s) for s in out_sx]}", pl)

    def nontrivial_key(self, pl, model, impl):
        if "(run " not in impl or "(CSE" not in impl:
            return None
        return " ".join(pl["exprs"]) + pl["env"]

    def stats(self, pl, mo, io, acc):
        k = ("run" if "(run " in io else "raised" if "(raised" in io else "err")
        acc.setdefault("outcomes", {})
        acc["outcomes"][k] = acc["outcomes"].get(k, 0) + 1
        fam = acc.setdefault("family", {})
        fam[pl["family"]] = fam.get(pl["family"], 0) + 1
        fl = acc.setdefault("wrapper_flavours", {})
        for s in pl["exprs"]:
            for t in sx_subterms(loads(s)):
                if isinstance(t, list) and t and t[0] == "CSE":
                    f = wrapper_flavour(t)
                    fl[f] = fl.get(f, 0) + 1
        acc["inputs_repeating_an_operation"] = PrewrappedStream._n_repeating

# }}}


# {{{ T-gen: the table interpreters run on the regenerated tables, and the histogram tagger model

class TableTagStream(TagTreeStream):
    """`tag_common_subexpressions` against the compiled table interpreter `c12TagAllRun` run on the
    tables regenerated from the working tree (lean/PV/Generated/Cse.lean + Traversal.lean)"""
    name = "table-tag"

    def request(self, pl):
        return f"(cse-table-tag ({' '.join(pl['exprs'])}))"


class TableCountStream(UseCountStream):
    """`UseCountMapper` against the table-driven counting walk on the regenerated tables"""
    name = "table-count"

    def request(self, pl):
        return f"(cse-table-count ({' '.join(pl['exprs'])}))"


class TableWrapStream(WrapStream):
    """`wrap_in_cse` / `make_common_subexpression` against their regenerated decision trees"""
    name = "table-wrap"

    def request(self, pl):
        if pl["helper"] == "wrap":
            return f"(cse-table-wrap {pl['expr']} {self._opt(pl['prefix'])})"
        return f"(cse-table-make {pl['expr']} {self._opt(pl['prefix'])} {self._opt(pl['scope'])})"

    def oracle(self, pl):
        return None          # the property's statement is checked by the `wrap` stream


class HistTagStream(Stream):
    """CSEWalkMapper + CSETagMapper (pymbolic/mapper/cse_tagger.py) on one expression against the
    hand-written model `c12HistTagRun`: tagged trees, every node type"""
    name = "histtag"
    op = "cse-hist-tag"

    def cases(self, rng, tier):
        x, y = p.Variable("x"), p.Variable("y")
        C = p.CommonSubexpression
        for e in [p.Sum((C(p.Product((x, y))), p.Product((x, y)))), C(p.Quotient(0, x)),
                  p.Sum((p.Min((x, y)), p.Min((x, y)))), p.Sum((C(0), C(0.0), C(False), C(x))),
                  p.Sum((p.Sum((x, 1)), p.Sum((x, 1.0)), p.Sum((x, True)))),
                  p.Product((p.LeftShift(x, y), p.LeftShift(x, y), p.Lookup(x, "u"), p.Lookup(x, "u")))]:
            yield {"expr": dumps(expr_to_sx(e))}
        n = 700 if tier == "quick" else 12000
        for i in range(n):
            gen = SharedGen(rng, ["general", "wrapped", "frag", "general"][i % 4])
            if gen.g is not None:
                gen.g.floats = 0.2
            es = gen.lists()
            e = es[0] if len(es) == 1 else p.Sum(tuple(es))
            try:
                yield {"expr": dumps(expr_to_sx(e))}
            except Exception:
                continue

    def request(self, pl):
        return f"({self.op} {pl['expr']})"

    def run_impl(self, pl):
        from pymbolic.mapper.cse_tagger import CSETagMapper, CSEWalkMapper
        e = sx_to_expr(loads(pl["expr"]))
        try:
            w = CSEWalkMapper()
            w(e)
            return dumps(expr_to_sx(CSETagMapper(w)(e)))
        except RecursionError:
            raise
        except Exception as ex:
            return tag_err_sx(ex)

    def nontrivial_key(self, pl, model, impl):
        return pl["expr"] if "(CSE" in impl else None

    def stats(self, pl, mo, io, acc):
        k = "err" if io.startswith("(err") else ("tagged" if "(CSE" in io else "untouched")
        acc.setdefault("outcomes", {})
        acc["outcomes"][k] = acc["outcomes"].get(k, 0) + 1


class TableHistTagStream(HistTagStream):
    """the same against the table interpreter on the regenerated tables of cse_tagger.py"""
    name = "table-histtag"
    op = "cse-table-hist-tag"

# }}}


# {{{ probes: known findings replayed on the real code

def probe_findings():
    res = []
    x, y, a, b, c = (p.Variable(v) for v in "xyabc")
    C = p.CommonSubexpression
    r = p.wrap_in_cse(3)
    res.append(("wrap-in-cse-wraps-constant", isinstance(r, C), f"wrap_in_cse(3) = {r!r}"))
    r = p.make_common_subexpression(x)
    res.append(("make-cse-wraps-variable", isinstance(r, C), f"make_common_subexpression(x) = {r!r}"))
    r = p.make_common_subexpression(p.Subscript(a, x))
    res.append(("make-cse-wraps-subscript", isinstance(r, C),
                f"make_common_subexpression(a[x]) = {r!r}"))
    r = p.make_common_subexpression(C(x), "p", EXPR)
    res.append(("make-cse-wraps-wrapper", isinstance(r, C) and isinstance(r.child, C),
                f"make_common_subexpression(CSE(x), 'p', scope=EXPRESSION) = {r!r}"))
    import numpy as np
    arr = np.empty(2, dtype=object)
    arr[0], arr[1] = p.Sum((x, y)), p.Product((x, y))
    r = p.wrap_in_cse(arr)
    res.append(("wrap-in-cse-not-componentwise", not isinstance(r, np.ndarray),
                f"wrap_in_cse(object array of 2 expressions) = {type(r).__name__}"))
    from pymbolic.cse import tag_common_subexpressions
    ins = [p.Product((p.Sum((a, b)), c)), p.Product((c, p.Sum((b, a))))]
    env = {"a": 1, "b": 2, "c": 3}
    x1 = Fraction(1, 3)
    t = tag_common_subexpressions([p.Sum((x, 1.0)), p.Sum((x, 1))])
    v0, v1 = pyeval(p.Sum((x, 1)), {"x": x1}), pyeval(t[1], {"x": x1})
    res.append(("mixed-type-equal-constants-merged", not v0 == v1,
                f"tag([x + 1.0, x + 1])[1] = {t[1]!r}: at x = 1/3 the original is {v0!r}, the "
                f"tagged expression {v1!r}"))
    got, _ = observed_counts(tag_common_subexpressions(ins), env)
    res.append(("nested-commuted-operands-not-merged", got.n.get("mul", 0) > 2,
                f"tag([(a+b)*c, c*(b+a)]) evaluated with one evaluator performs {got.n}"))
    from pymbolic.mapper.cse_tagger import CSETagMapper, CSEWalkMapper
    e = p.Sum((C(p.Product((a, b))), p.Product((a, b))))
    w = CSEWalkMapper()
    w(e)
    r = CSETagMapper(w)(e)
    res.append(("tagmapper-wrapper-around-wrapper", has_nested_wrapper(expr_to_sx(r)),
                f"CSETagMapper on CSE(a*b) + a*b gives {r!r}"))
    e = C(p.Quotient(0, x))
    w = CSEWalkMapper()
    w(e)
    r = CSETagMapper(w)(e)
    res.append(("tagmapper-zero-wrapper-collapses", not isinstance(r, p.Expression),
                f"CSETagMapper on CSE(0/x) gives {r!r} (x = 0: ZeroDivisionError becomes 0)"))
    return res

# }}}


def extract(ctx=None):
    """lean/PV/Generated/Cse.lean (and Traversal.lean, whose walk / identity tables and node classes
    it builds on) from the live source of pymbolic/cse.py, pymbolic/mapper/cse_tagger.py and the
    wrapping helpers of pymbolic/primitives.py (extract/cse.py, extract/traversal.py)"""
    from extract.cse import extract_cse
    return extract_cse(ctx)


PROP = Prop(
    id="C12",
    title="Common-subexpression handling keeps meaning and shares work",
    lean_targets=["PV.Properties.C12", "PV.Properties.C12Table", "PV.Properties.C12Wrapped"],
    extractors=[extract],
    streams=[TagStream(), TagTreeStream(), UseCountStream(), WrapStream(), WrapArrayStream(), TraceStream(),
             TagMapperStream(), TallyStream(), PrewrappedStream(),
             FalsyResults("wrapper-falsy-results", "wrapper-child-recomputed"),
             TableTagStream(), TableCountStream(), TableWrapStream(), HistTagStream(), TableHistTagStream()],
    probes=[probe_findings],
    trusted_base=[
        "Lean 4.33 kernel; axioms propext, Classical.choice, Quot.sound only",
        "PV/Model/Cse.lean as a model of pymbolic/cse.py, wrap_in_cse, make_common_subexpression and "
        "of EvaluationMapper with the CSE result cache (event log), validated on every run by the "
        "tag / usecount / wrap / trace correspondence streams",
        "Python dict / frozenset keys modelled as insertion-ordered association lists under the "
        "model of Python == (PV/Model/PyEq.lean)",
        "harness/sexp.py serialisation; harness/oracles/pyeval.py (independent interpreter)",
        "PV/Model/CseTally.lean (`evalCnt`, `c12Plan`) as a model of the same evaluator observed with "
        "counting numbers / logged handlers and of the oracle's reference, validated on every run by "
        "the tally stream",
        "floats are outside the exact model (model abstains); object arrays and multivectors are "
        "checked on the real code only",
        "extract/cse.py + extract/traversal.py (ast readers of NormalizedKeyGetter, UseCountMapper, "
        "CSEMapper, tag_common_subexpressions, CSEWalkMapper, CSETagMapper, wrap_in_cse, "
        "make_common_subexpression, CommonSubexpression; unknown shapes are errors) and the meaning "
        "PV/Model/CseTable.lean gives the table languages, validated on every run by the table-tag / "
        "table-count / table-wrap / table-histtag streams (compiled interpreters on the regenerated "
        "tables vs the real code)",
        "PV/Model/CseTagger.lean as a model of pymbolic/mapper/cse_tagger.py (histtag stream)",
    ],
    level_text="Lean theorems (unbounded in list length, tree depth and history length) about the "
               "model of tag_common_subexpressions, the wrapping helpers and the evaluator's CSE "
               "cache; the model is tied to the code by correspondence of tagged trees, use counts, "
               "helper results and evaluation event logs, and the property's own statements are "
               "checked on the real code with an independent interpreter and counting values.  "
               "T-gen: the key getter, the statements of UseCountMapper.visit and of its wrapper "
               "handler, every handler CSEMapper binds (with get_cse and the map_sum aliases), the "
               "statement sequence and threshold of tag_common_subexpressions, the decision trees of "
               "wrap_in_cse and make_common_subexpression, the CommonSubexpression constructor and the "
               "two classes of cse_tagger.py are re-read from the source on every run (on top of the "
               "C04 walk / identity tables), and normalizedKey, useCount, cseMap, tagAll, wrapInCse, "
               "makeCse, c12HistWalk, c12HistTag are proved to be the table interpreters run on the "
               "regenerated tables / the unique solutions of their one-step equations, for all inputs.",
    level_note="Value and sharing theorems are stated for expressions on which Python == is "
               "structural identity (no bool/float constants, keyword calls, Python lists); "
               "the sharing and end-to-end theorems for the fragment named by the property; "
               "'exactly the one-level reference tally' needs pairwise distinct canonical wrappers "
               "(tagged_ops_reference_partial), 'at most once per key' does not (tagged_ops_once).",
    technique="Lean 4 proofs about a stateful traversal model + differential correspondence + "
              "operation counting with instrumented values and functions",
    design_ref="DESIGN.md §4 C12",
    assumptions=[
        "environment functions are pure",
        "the environment is not mutated during an evaluator's lifetime",
    ],
)

PROP.level_note += ' Shared oracle stream wrapper-falsy-results (harness/falsy_results.py): the child of a wrapper is computed exactly once also when its value is None or falsy.'
