"""C13 — generated Python code computes what the evaluator computes.

Four translation paths: compile (source text + argument list + pickling), expression → Python AST,
expression → source of a keyword-only function, Python AST → expression.

Correspondence: the compiled SOURCE and ARGUMENT LIST, the AST, the imported expression and the
meaning of an AST (`denAst`) against the Lean models of lean/PV/Model/Compile.lean.
Oracles: every generated program is EXECUTED by CPython on exact environments and compared with the
independent reference interpreter harness/oracles/pyeval.py.

T-gen (extract/codegen.py, theorems PV.C13.*_eq_table_current): the operator dictionaries and every
handler of the two AST mappers, the class body of CompileMapper and CompiledExpression statement by
statement are re-read from the source on every run; stream `table-run` runs the compiled table
interpreters on the regenerated tables against the real code, stream `function-def` ties the model
of to_evaluatable_python_function (signature and returned AST before ast.unparse).

Source text of compile() under Python's grammar (theorems PV.C13.compile_source_groups_*): stream
`py-table` ties the hand-written Python precedence table of the parser model to CPython's own
tokenizer and ast.parse; stream `source-groups` checks on the real compile() that every tree inside
the proved fragment is read by CPython as the tree itself.
"""
from __future__ import annotations

import ast
import itertools
import pickle
import random
import re
import warnings
from fractions import Fraction

import pymbolic.primitives as p

from ..core import Failure, Prop, Stream
from ..gen import ExprGen, rand_env, size
from ..oracles import scan
from ..oracles.pyeval import is_safe, outcome, pyeval
from ..sexp import (A, Atom, App, Unencodable, dumps, env_to_sx, exc_to_sx,
                    expr_to_sx, loads, q, sx_shrinks, sx_to_env, sx_to_expr, value_to_sx)
from ..syntax import SyntaxGen, three_level, two_level
from .c06 import extract as extract_syntax_tables
from .c06 import kind, minimal_failing_subterm, syntax_children



def extract(ctx=None):
    """T-gen: precedence / lexer tables (C06), the class table and `DependencyMapper.__init__`
    (C04 / C09: dispatch and dependency flags the code-generation tables rest on), and the handler
    tables of the code generators themselves (extract/codegen.py)"""
    extract_syntax_tables(ctx)
    from extract.analysis import extract_analysis
    from extract.codegen import extract_codegen
    from extract.traversal import extract_traversal
    extract_traversal(ctx)
    extract_analysis(ctx)
    return extract_codegen(ctx)


warnings.filterwarnings("ignore", category=SyntaxWarning)
warnings.filterwarnings("ignore", category=DeprecationWarning)

# {{{ Python ast <-> wire format

_BIN = {ast.Add: "Add", ast.Sub: "Sub", ast.Mult: "Mult", ast.MatMult: "MatMult", ast.Div: "Div",
        ast.FloorDiv: "FloorDiv", ast.Mod: "Mod", ast.Pow: "Pow", ast.LShift: "LShift",
        ast.RShift: "RShift", ast.BitOr: "BitOr", ast.BitXor: "BitXor", ast.BitAnd: "BitAnd"}
_UN = {ast.Invert: "Invert", ast.Not: "Not", ast.USub: "USub", ast.UAdd: "UAdd"}
_CMP = {ast.Eq: "==", ast.NotEq: "!=", ast.Lt: "<", ast.LtE: "<=", ast.Gt: ">", ast.GtE: ">="}
_BIN_R = {v: k for k, v in _BIN.items()}
_UN_R = {v: k for k, v in _UN.items()}
_CMP_R = {v: k for k, v in _CMP.items()}


def ast_to_sx(n):
    """wire form of a Python expression AST (generic: node class names and fields only)"""
    if n is None:
        return A("nil")
    if isinstance(n, ast.Constant):
        v = n.value
        if v is None or isinstance(v, (bool, int, float, str)):
            return [A("Constant"), expr_to_sx(v)]
        raise Unencodable(type(v))
    if isinstance(n, ast.Name):
        return [A("Name"), n.id]
    if isinstance(n, ast.BinOp):
        return [A("BinOp"), ast_to_sx(n.left), A(_BIN[type(n.op)]), ast_to_sx(n.right)]
    if isinstance(n, ast.UnaryOp):
        return [A("UnaryOp"), A(_UN[type(n.op)]), ast_to_sx(n.operand)]
    if isinstance(n, ast.BoolOp):
        return [A("BoolOp"), A("Or" if isinstance(n.op, ast.Or) else "And"),
                *[ast_to_sx(v) for v in n.values]]
    if isinstance(n, ast.IfExp):
        return [A("IfExp"), ast_to_sx(n.test), ast_to_sx(n.body), ast_to_sx(n.orelse)]
    if isinstance(n, ast.Compare):
        if any(type(o) not in _CMP for o in n.ops):
            raise Unencodable("cmpop")
        return [A("Compare"), ast_to_sx(n.left), [_CMP[type(o)] for o in n.ops],
                [ast_to_sx(c) for c in n.comparators]]
    if isinstance(n, ast.Call):
        if any(isinstance(a, ast.Starred) for a in n.args) or any(k.arg is None for k in n.keywords):
            raise Unencodable("star")
        return [A("Call"), ast_to_sx(n.func), [ast_to_sx(a) for a in n.args],
                [[k.arg, ast_to_sx(k.value)] for k in n.keywords]]
    if isinstance(n, ast.Attribute):
        return [A("Attribute"), ast_to_sx(n.value), n.attr]
    if isinstance(n, ast.Subscript):
        return [A("Subscript"), ast_to_sx(n.value), ast_to_sx(n.slice)]
    if isinstance(n, ast.Tuple):
        return [A("Tuple"), *[ast_to_sx(c) for c in n.elts]]
    if isinstance(n, ast.List):
        return [A("List"), *[ast_to_sx(c) for c in n.elts]]
    if isinstance(n, ast.Slice):
        parts = [getattr(n, "lower", None), getattr(n, "upper", None), getattr(n, "step", None)]
        while parts and parts[-1] is None:
            parts.pop()
        return [A("Slice"), *[ast_to_sx(c) for c in parts]]
    raise Unencodable(type(n))


def sx_to_ast(s):
    """a fresh, executable Python AST (Load contexts filled in)"""
    if isinstance(s, Atom):
        assert s == "nil"
        return None
    h = s[0]
    L = ast.Load()
    if h == "Constant":
        return ast.Constant(sx_to_expr(s[1]))
    if h == "Name":
        return ast.Name(id=s[1], ctx=L)
    if h == "BinOp":
        return ast.BinOp(sx_to_ast(s[1]), _BIN_R[s[2]](), sx_to_ast(s[3]))
    if h == "UnaryOp":
        return ast.UnaryOp(_UN_R[s[1]](), sx_to_ast(s[2]))
    if h == "BoolOp":
        return ast.BoolOp(ast.Or() if s[1] == "Or" else ast.And(), [sx_to_ast(c) for c in s[2:]])
    if h == "IfExp":
        return ast.IfExp(sx_to_ast(s[1]), sx_to_ast(s[2]), sx_to_ast(s[3]))
    if h == "Compare":
        return ast.Compare(sx_to_ast(s[1]), [_CMP_R[o]() for o in s[2]], [sx_to_ast(c) for c in s[3]])
    if h == "Call":
        return ast.Call(sx_to_ast(s[1]), [sx_to_ast(c) for c in s[2]],
                        [ast.keyword(arg=k, value=sx_to_ast(v)) for k, v in s[3]])
    if h == "Attribute":
        return ast.Attribute(sx_to_ast(s[1]), s[2], L)
    if h == "Subscript":
        return ast.Subscript(sx_to_ast(s[1]), sx_to_ast(s[2]), L)
    if h == "Tuple":
        return ast.Tuple([sx_to_ast(c) for c in s[1:]], L)
    if h == "List":
        return ast.List([sx_to_ast(c) for c in s[1:]], L)
    if h == "Slice":
        parts = [sx_to_ast(c) for c in s[1:]] + [None] * 3
        return ast.Slice(parts[0], parts[1], parts[2])
    raise ValueError(h)


class InvalidAst(Exception):
    """CPython's validator rejects the AST (before anything is evaluated)"""


def run_ast(node, env):
    """CPython's value of an expression AST (a fresh executable copy is made through the wire form,
    so shared / context-less nodes of the mapper's output are no obstacle)"""
    tree = ast.Expression(body=sx_to_ast(loads(dumps(ast_to_sx(node)))))
    try:
        code = compile(ast.fix_missing_locations(tree), "<c13-ast>", "eval")
    except (ValueError, TypeError) as ex:
        raise InvalidAst(str(ex)) from None
    return eval(code, {"__builtins__": {}}, dict(env))  # noqa: S307

# }}}


# {{{ environments, reference, comparison

GENERIC_INT = ["a", "a1", "x1", "foo", "d", "e", "k", "l", "u", "w", "z9", "q8", "h", "o", "p", "s",
               "B", "Z", "_c", "ab", "aa", "A", "_", "a_b", "b2"] + [f"q{i}" for i in range(12)]


def env_for(rng: random.Random, tuples=True):
    """exact values only: ints, Fractions, bools, tuples of them, environment functions, a record"""
    env = rand_env(rng)
    for n in GENERIC_INT:
        env[n] = rng.randint(-4, 5)
    env["v"] = tuple(rng.randint(-3, 3) for _ in range(3))
    return env


def _box():
    """fixed environments used to classify a failure: random ones, and uniform ones (every number
    the same value) so that accidental agreements such as `False == 0` do not hide a shape"""
    box = [env_for(random.Random(1000 + k)) for k in range(6)]
    for val in (0, 1, 2, -1, 3, Fraction(1, 2)):
        env = dict(box[0])
        for k, v in env.items():
            if isinstance(v, bool):
                env[k] = bool(val)
            elif isinstance(v, (int, Fraction)):
                env[k] = val if k not in ("i", "j", "n", "m") or isinstance(val, int) else 1
        box.append(env)
    return box


BOX = _box()


def free_names(e):
    """variable names of an expression by an independent scan (calls, subscripts, lookups entered)"""
    return sorted({v.name for v in scan.dependencies(e, subscripts=False, lookups=False,
                                                     calls=False, cses=False)})


def has_float(v):
    if isinstance(v, (float, complex)):
        return True
    if isinstance(v, (tuple, list)):
        return any(has_float(c) for c in v)
    if isinstance(v, App):
        return has_float(v.args) or any(has_float(c) for c in v.kw.values())
    return False


def float_involved(e, env):
    """outside exact arithmetic: some subterm is a float constant or evaluates (in the reference) to
    a float, or a sum / product has a sequence operand (repetition `n * tuple` is not associative
    for negative n; PyNum makes no claim about sequence arithmetic either)"""
    for s in scan.subterms(e):
        if isinstance(s, (float, complex)):
            return True
        if isinstance(s, (p.Expression, tuple)):
            o = outcome(lambda s=s: pyeval(s, env))
            if o[0] == "ok" and has_float(o[1]):
                return True
            if o[0] == "err" and o[1] == "OverflowError":
                return True
            if isinstance(s, (p.Sum, p.Product)) and o[0] == "ok" and isinstance(o[1], (tuple, list, str)):
                return True
    return False


def type_class(v):
    if isinstance(v, (bool, int)):
        return "int"
    return type(v).__name__


def same_exact(a, b):
    """== and the same type class (bool and int are one class), recursively"""
    if type_class(a) != type_class(b):
        return False
    if isinstance(a, (tuple, list)):
        return len(a) == len(b) and all(same_exact(x, y) for x, y in zip(a, b))
    if isinstance(a, App):
        return (a.f == b.f and same_exact(a.args, b.args) and a.kw.keys() == b.kw.keys()
                and all(same_exact(a.kw[k], b.kw[k]) for k in a.kw))
    return bool(a == b)


ARITH = ("ZeroDivisionError", "OverflowError")


def judge(ref, got):
    """None when the generated code did what the property demands given the reference outcome,
    else a short description.  The property speaks about values and arithmetic errors only: when
    the reference raises anything else (TypeError, …) nothing is demanded."""
    if ref[0] == "ok":
        if got[0] != "ok":
            return f"raises {got[1]} instead of returning {ref[1]!r}"
        if has_float(ref[1]) or has_float(got[1]):
            return None
        if not same_exact(ref[1], got[1]):
            return f"returns {got[1]!r} instead of {ref[1]!r}"
        return None
    if ref[1] in ARITH:
        if got[0] == "ok":
            return f"returns {got[1]!r} instead of raising {ref[1]}"
        if got[1] != ref[1]:
            return f"raises {got[1]} instead of {ref[1]}"
    return None


def check_path(run, e, env, syntax_fails=False):
    """`run(e, env)` executes one translation path; compare with the reference interpreter.
    `syntax_fails` (classification only): a program that does not parse counts whatever the
    reference does"""
    if not is_safe(e, env):
        return None
    ref = outcome(lambda: pyeval(e, env))
    if ref[0] == "err" and ref[1] in ("Unsupported", "UnknownVariable", "RecursionError"):
        return None
    got = outcome(lambda: run(e, env))
    if got[0] == "err" and got[1] == "Refused":
        return None
    if syntax_fails and got[0] == "err" and got[1] in ("SyntaxError", "InvalidAst"):
        return "does not parse"
    why = judge(ref, got)
    if why is not None and float_involved(e, env):
        return None
    return why


class Refused(Exception):
    """the path declined to translate (reported by raising): not a wrong program"""


def _refusal(ex):
    return isinstance(ex, (NotImplementedError, AssertionError)) or (
        isinstance(ex, ValueError) and "invalid foreign object" in str(ex)) or (
        isinstance(ex, TypeError) and "unhashable" in str(ex)) or isinstance(ex, IndexError)


# }}}


# {{{ the four paths (real code)

def expected_args(e, listed):
    """the property's argument order, from an independent scan"""
    names = free_names(e)
    return list(listed) + sorted(n for n in names if n not in listed and n not in ("math", "numpy"))


def run_compiled(e, env, listed=(), pickled=False):
    from pymbolic import compile as pcompile
    try:
        f = pcompile(e, list(listed))
    except SyntaxError:
        raise
    except Exception as ex:
        if _refusal(ex):
            raise Refused from None
        raise
    if pickled:
        f = pickle.loads(pickle.dumps(f))
    return f(*[env[n] if n in free_names(e) else 7 for n in expected_args(e, listed)])


def real_ast(e):
    from pymbolic.interop.ast import to_python_ast
    try:
        return to_python_ast(e)
    except Exception as ex:
        if _refusal(ex):
            raise Refused from None
        raise


def run_to_ast(e, env):
    return run_ast(real_ast(e), env)


def run_function_source(e, env):
    from pymbolic.interop.ast import to_evaluatable_python_function
    try:
        src = to_evaluatable_python_function(e, "fn")
    except Exception as ex:
        if _refusal(ex):
            raise Refused from None
        raise
    ns: dict = {}
    exec(src, ns)  # noqa: S102
    return ns["fn"](**{n: env[n] for n in free_names(e)})


def run_roundtrip(e, env):
    from pymbolic.interop.ast import ASTToPymbolic
    node = real_ast(e)
    try:
        back = ASTToPymbolic()(node)
    except NotImplementedError:
        raise Refused from None
    return pyeval(back, env)


# }}}


# {{{ classification by the smallest failing (parent, child) shape

def path_fails(run, extra_envs=()):
    def fails(s):
        if not isinstance(s, (p.Expression, tuple)):
            return False
        for env in list(extra_envs) + BOX:
            try:
                if check_path(run, s, env, syntax_fails=True) is not None:
                    return True
            except RecursionError:
                raise
            except Exception:
                return True
        return False
    return fails


def checked(run, e, env):
    return check_path(run, e, env)


def _fields(e):
    import dataclasses
    if isinstance(e, (tuple, list)):
        return [(None, e)]
    if isinstance(e, p.Expression) and dataclasses.is_dataclass(e):
        return [(f.name, getattr(e, f.name)) for f in dataclasses.fields(e)]
    return []


def edges(e, depth=0, path=()):
    """(depth, path, parent, child) for every expression-valued child position, all depths;
    a path is a tuple of steps (field name or None, index / key or None)"""
    for name, v in _fields(e):
        if isinstance(e, (tuple, list)):
            items = [((None, i), c) for i, c in enumerate(e)]
        elif isinstance(v, str) or v is None:
            continue
        elif isinstance(v, tuple) and name in ("children", "parameters", "values"):
            items = [((name, i), c) for i, c in enumerate(v)]
        elif hasattr(v, "items"):
            items = [((name, k), c) for k, c in v.items()]
        elif isinstance(e, (p.CommonSubexpression, p.Comparison, p.Lookup)) and name in (
                "prefix", "scope", "operator", "name"):
            continue
        elif isinstance(e, (p.Substitution, p.Derivative)) and name == "variables":
            continue
        else:
            items = [((name, None), v)]
        for step, c in items:
            if c is None:
                continue
            yield depth, path + (step,), e, c
            if isinstance(c, (p.Expression, tuple, list)):
                yield from edges(c, depth + 1, path + (step,))


def replace_at(e, path, new):
    if not path:
        return new
    (name, idx), rest = path[0], path[1:]
    if isinstance(e, (tuple, list)):
        return type(e)(replace_at(c, rest, new) if i == idx else c for i, c in enumerate(e))
    import dataclasses
    kw = {f.name: getattr(e, f.name) for f in dataclasses.fields(e)}
    v = kw[name]
    if idx is None:
        kw[name] = replace_at(v, rest, new)
    elif isinstance(v, tuple):
        kw[name] = tuple(replace_at(c, rest, new) if i == idx else c for i, c in enumerate(v))
    else:
        kw[name] = {k: (replace_at(c, rest, new) if k == idx else c) for k, c in v.items()}
    return type(e)(**kw)


NARY = (p.Sum, p.Product, p.BitwiseOr, p.BitwiseXor, p.BitwiseAnd, p.LogicalOr, p.LogicalAnd,
        p.Min, p.Max)


def child_name(c):
    neg = isinstance(c, (int, float)) and not isinstance(c, bool) and c < 0
    return ("negative-" if neg else "") + kind(c)


def few(m):
    return f"[n={len(m.children)}]" if isinstance(m, NARY) and len(m.children) < 2 else ""


def _composite(c):
    return isinstance(c, (p.Expression, tuple, list)) and not isinstance(c, p.Variable)


def blame_chain(m, fails):
    """Walk down from the failing tree `m`: at each node replace its composite children by plain
    variables; if the failure stays it is this node's own (a constant child whose replacement
    repairs it is named); otherwise descend into the first child whose presence alone (siblings
    still replaced) brings the failure back.  Returns the list of names along the walk."""
    cur, at, node = m, (), m
    chain = [kind(m) + few(m)]
    for _ in range(40):
        direct = [(path, c) for depth, path, _par, c in edges(node) if depth == 0]
        kids = [(path, c) for path, c in direct if _composite(c)]
        bare = cur
        for i, (path, _c) in enumerate(kids):
            bare = replace_at(bare, at + path, p.Variable(f"q{i}"))
        try:
            own = fails(bare)
        except RecursionError:
            raise
        except Exception:
            own = True
        if own:
            for path, c in direct:
                if _composite(c) or isinstance(c, p.Variable):
                    continue
                try:
                    if not fails(replace_at(bare, at + path, p.Variable("q11"))):
                        chain.append(child_name(c))
                        break
                except Exception:
                    pass
            return chain
        nxt = None
        for path, c in kids:
            t = replace_at(bare, at + path, c)
            try:
                if fails(t):
                    nxt = (path, c, t)
                    break
            except RecursionError:
                raise
            except Exception:
                nxt = (path, c, t)
                break
        if nxt is None:
            if kids:
                chain.append(",".join(sorted({kind(c) for _p, c in kids})))
            return chain
        path, c, cur = nxt
        at, node = at + path, c
        chain.append(kind(c) + few(c))
    return chain


def classify(prefix, run, e, env):
    fails = path_fails(run, [env])
    m = minimal_failing_subterm(e, fails)
    if m is None:
        return f"{prefix}:{kind(e)}", e
    chain = blame_chain(m, fails)
    # a CommonSubexpression wrapper is transparent (printed as / meaning its child): the shape is
    # named by the nodes around it, unless the wrapper is all there is
    chain = [c for c in chain if c.split("[")[0] != "CommonSubexpression"] or chain
    if len(chain) == 1:
        return f"{prefix}:{chain[0]}", m
    return f"{prefix}:" + ">".join(c.split("[")[0] for c in chain[-2:]), m

# }}}


# {{{ generators

WIDE_CLASSES = ("Sum", "Product", "BitwiseOr", "BitwiseXor", "BitwiseAnd", "LogicalOr", "LogicalAnd",
                "Min", "Max")
_PRIMES = (2, 3, 5, 7, 11, 13, 17, 19, 23, 29, 31, 37, 41, 43, 47, 53, 59, 61, 67, 71, 73, 79)


def wide_nary(rng, kmax=21):
    """every n-ary node class with 1 .. kmax operands (the loops / folds over `children` of the code
    generators must keep EVERY operand, in order, whatever the count): operands are chosen so that
    losing, duplicating or reordering one changes the value — distinct powers of two for `+ | ^`,
    all-ones-but-one-bit masks for `&`, distinct primes for `*`, distinct ints for min / max, one
    truthy / falsy operand at a random place for `or` / `and` — with a variable mixed in"""
    vs = [p.Variable(n) for n in ("i", "j", "n", "m")]
    for cls in WIDE_CLASSES:
        for k in range(1, kmax + 1):      # no operands at all: not an expression of the fragment
            if cls in ("Sum", "BitwiseOr", "BitwiseXor"):
                ops = [1 << t for t in range(k)]
            elif cls == "BitwiseAnd":
                full = (1 << (k + 2)) - 1
                ops = [full ^ (1 << t) for t in range(k)]
            elif cls == "Product":
                ops = list(_PRIMES[:k])
            elif cls in ("Min", "Max"):
                ops = [3 * t - k for t in range(k)]
                rng.shuffle(ops)
            else:
                neutral = 0 if cls == "LogicalOr" else 1
                ops = [neutral] * k
                if k:
                    ops[rng.randrange(k)] = 7 if cls == "LogicalOr" else 0
            if k and rng.random() < 0.5:
                ops[rng.randrange(k)] = rng.choice(vs)
            yield getattr(p, cls)(tuple(ops))
    # a wide node below another one
    for _ in range(12):
        k1, k2 = rng.randint(5, 16), rng.randint(5, 16)
        inner = p.Product(tuple(_PRIMES[:k2]))
        ops = [1 << t for t in range(k1)]
        ops[rng.randrange(k1)] = inner
        yield p.Sum(tuple(ops))


def gen_exprs(rng, tier, n_typed, n_syntax, cse=0.02, two=True, three=0):
    """(source tag, expression) of the Python-expressible fragment"""
    if two:
        for tag, e in two_level():
            yield "two-level", e
        for e in wide_nary(rng):
            yield "wide", e
    for e in three_level(rng, three):
        yield "three-level", e
    if two:
        for e in guarded():
            yield "guarded", e
        for e in guarded_random(rng, 40):
            yield "guarded", e
    g = ExprGen(rng, malformed=0.0, floats=0.0, extra_nodes=False, cse=cse, lists=False,
                foreign=False)
    for _ in range(n_typed):
        yield "typed", g.gen(rng.choice(["num", "num", "int", "bool", "any"]), rng.randint(1, 5))
    sg = SyntaxGen(rng)
    for _ in range(n_syntax):
        yield "syntax", sg.gen(rng.randint(1, 5))


GUARD = "k"      # an integer variable of every environment (GENERIC_INT)


def guarded():
    """Evaluation that is only defined because a conditional / `and` / `or` does NOT evaluate an
    operand: a subexpression that raises for the guard value 0 (division, remainder, negative
    power) occurs SEVERAL times, always behind the guard.  Generated code must keep it there."""
    g = p.Variable(GUARD)
    a = p.Variable("a")
    q, r, d, pw = p.FloorDiv(12, g), p.Remainder(7, g), p.Quotient(1, g), p.Power(g, -1)
    q3 = p.FloorDiv(12, p.Sum((g, -3)))          # raises at 3, fine at 0
    bodies = [p.Sum((q, q)), p.Product((q, p.Sum((q, 1)))), p.Sum((r, p.Product((2, r)))),
              p.Sum((d, d)), p.Sum((pw, pw)), p.Sum((q, p.Product((q, q)), r, r))]
    for t in bodies:
        yield p.If(g, t, 0)
        yield p.If(p.Comparison(g, "==", 0), 0, t)
        yield p.If(p.Comparison(g, "!=", 0), t, 1)
        yield p.If(p.LogicalNot(g), 1, t)
        yield p.LogicalAnd((g, p.Comparison(t, ">", 0)))
        yield p.LogicalOr((p.LogicalNot(g), p.Comparison(t, ">", 0)))
        yield p.LogicalAnd((p.Comparison(g, "!=", 0), p.Comparison(t, ">", 0), p.Comparison(t, "<", 99)))
        yield p.If(a, p.If(g, t, 1), p.If(g, 2, 3))
        yield p.Sum((1, p.If(g, t, 0)))
    for u in (q, r, d, pw):
        # repeated ACROSS two guarded places only
        yield p.Sum((p.If(g, u, 5), p.If(g, u, 7)))
        yield p.Product((p.If(g, u, 5), p.If(p.Comparison(g, "==", 0), 1, u)))
        yield p.LogicalOr((p.LogicalAnd((g, p.Comparison(u, ">", 1))), p.LogicalAnd((g, p.Comparison(u, "<", 0)))))
    # the SAME common-subexpression wrapper in several parts of a conditional / short-circuit
    # operator: whichever part is evaluated first (the condition, although the source text
    # starts with the then-branch), or is the only one evaluated, must find it computed
    C = p.CommonSubexpression
    for s_ in (C(p.Sum((g, a))), C(p.Product((g, a)), "t"), C(p.Sum((a, p.Product((2, g)))), "sub")):
        yield p.If(p.Comparison(s_, ">", 0), p.Product((s_, 2)), 0)
        yield p.If(p.Comparison(s_, ">", 0), 1, p.Sum((s_, 5)))
        yield p.If(p.Comparison(a, ">", 0), p.Sum((s_, 1)), p.Sum((s_, -1)))
        yield p.Sum((p.If(p.Comparison(s_, "<", a), a, s_), s_))
        yield p.If(p.LogicalAnd((p.Comparison(a, ">", 0), p.Comparison(s_, ">", 1))), s_, p.Product((-1, s_)))
        yield p.If(p.LogicalOr((p.Comparison(a, ">", 0), p.Comparison(s_, ">", 1))), 1, s_)
        yield p.Sum((p.If(p.Comparison(a, ">", 0), s_, 0), p.If(p.Comparison(g, ">", 1), s_, 1)))
        yield p.Sum((p.Product((s_, s_)), s_))
    for u in (q, r, d):
        w = C(u, "w")
        yield p.Sum((p.If(p.Comparison(g, "!=", 0), w, 0), p.If(g, w, 1)))
        yield p.If(g, p.Sum((w, w)), 0)
        yield p.LogicalAnd((g, p.Comparison(w, ">", 0), p.Comparison(w, "<", 9)))
    # nodes whose generated code mentions a NAME that is not a variable of the expression
    # (`float('nan')`): the signature is the free variables, nothing else
    for nan in (p.NaN(), p.NaN(float)):
        yield p.If(g, nan, p.Sum((a, 1)))
        yield p.If(p.Comparison(a, ">", 0), p.Sum((a, g)), nan)
        yield p.Sum((a, p.If(g, 1, nan)))
    # both branches guarded, by different values
    yield p.If(g, p.Sum((q, q)), p.Sum((q3, q3)))
    yield p.If(p.Comparison(g, "==", 3), p.Sum((q, q)), p.Sum((q3, q3)))
    # a negative shift count behind its guard
    for u in (p.LeftShift(5, g), p.RightShift(40, g)):
        yield p.If(p.Comparison(g, ">=", 0), p.Sum((u, u)), 0)
        yield p.If(p.Comparison(g, "<", 0), 1, p.Product((u, p.Sum((u, 1)))))
        yield p.Sum((p.If(p.Comparison(g, ">=", 0), u, 5), p.If(p.Comparison(g, "<", 0), 7, u)))


def guarded_random(rng, n):
    """the same family drawn at random: WHICH operation raises (division, remainder, negative
    power, negative shift count), at which guard value (0, 3, -2: the values `envs_of` tries),
    how often it is repeated and in what surrounding, and which lazy construct keeps it away"""
    g, a = p.Variable(GUARD), p.Variable("a")
    for _ in range(n):
        c, c2 = rng.randint(2, 40), rng.randint(1, 9)
        if rng.random() < 0.2:
            u = rng.choice([p.LeftShift(c, g), p.RightShift(c * 8, g), p.LeftShift(a, g)])   # raise at -2
            ok, no = p.Comparison(g, ">=", 0), p.Comparison(g, "<", 0)
        else:
            bad = rng.choice([0, 0, 3, -2])
            z = g if bad == 0 else p.Sum((g, -bad))
            u = rng.choice([p.FloorDiv(c, z), p.Remainder(c, z), p.Quotient(c, z), p.Power(z, -rng.randint(1, 2)),
                            p.FloorDiv(a, z), p.Remainder(p.Sum((a, c)), z)])
            ok, no = p.Comparison(g, "!=", bad), p.Comparison(g, "==", bad)
            if bad == 0 and rng.random() < 0.5:
                ok, no = g, p.LogicalNot(g)
        body = rng.choice([lambda: p.Sum((u, u)), lambda: p.Product((u, p.Sum((u, c2)))),
                           lambda: p.Sum((u, p.Product((c2, u)), u)), lambda: p.Sum((p.Product((u, u)), a)),
                           lambda: p.Quotient(p.Sum((u, c2)), p.Sum((p.Product((u, u)), 1))),
                           lambda: p.Sum((p.Power(u, 2), p.Product((a, u))))])()
        alt = rng.choice([0, 1, c2, a])
        form = rng.randrange(7)
        if form == 0:
            yield p.If(ok, body, alt)
        elif form == 1:
            yield p.If(no, alt, body)
        elif form == 2:
            yield p.LogicalAnd((ok, p.Comparison(body, rng.choice(["<", ">", "!="]), c2)))
        elif form == 3:
            yield p.LogicalOr((no, p.Comparison(body, rng.choice(["<", ">", "!="]), c2)))
        elif form == 4:
            yield p.Sum((p.If(ok, u, alt), p.Product((c2, p.If(no, alt, u)))))       # repeated ACROSS guards
        elif form == 5:
            yield p.Product((c2, p.Sum((a, p.If(ok, body, alt)))))
        else:
            yield p.If(a, p.If(ok, body, alt), p.If(no, alt, u))


def envs_of(rng, src, k):
    """environments of a case: random ones; for the `guarded` family also the guard values that
    make the unselected operand undefined"""
    if src != "guarded":
        return envs_payload(rng, k)
    out = []
    for gv in (0, 3, -2):
        env = env_for(rng)
        env[GUARD] = gv
        out.append(dumps(env_to_sx(env)))
    return out


def sprinkle_cse(rng, e, rate=0.12):
    """the tree with CommonSubexpression wrappers put around random subterms: with and without a
    prefix, both scopes, nested (wrapper around a wrapper) and shared (the same wrapper OBJECT at
    every occurrence of an equal subterm)"""
    import dataclasses
    pool = {}

    def wrap(c):
        key = repr(c)
        if key in pool and rng.random() < 0.5:
            return pool[key]
        w = p.CommonSubexpression(c, rng.choice([None, None, "t", "cse_x"]),
                                  rng.choice([p.cse_scope.EVALUATION, p.cse_scope.EXPRESSION]))
        if rng.random() < 0.2:
            w = p.CommonSubexpression(w, rng.choice([None, "u"]))
        pool[key] = w
        return w

    def go(e):
        if isinstance(e, tuple):
            return tuple(go(c) for c in e)
        if not isinstance(e, p.Expression) or not dataclasses.is_dataclass(e) \
                or isinstance(e, p.CommonSubexpression):
            r = e
        else:
            kw = {}
            for f in dataclasses.fields(e):
                v = getattr(e, f.name)
                if isinstance(e, (p.Call, p.CallWithKwargs)) and f.name == "function":
                    kw[f.name] = v
                elif isinstance(v, tuple) and f.name in ("children", "parameters"):
                    kw[f.name] = tuple(None if c is None else go(c) for c in v)
                elif hasattr(v, "items"):
                    kw[f.name] = {k: go(c) for k, c in v.items()}
                elif isinstance(v, p.Expression) or (isinstance(v, (int, Fraction)) and f.name not in (
                        "name", "operator", "prefix", "scope")):
                    kw[f.name] = go(v)
                else:
                    kw[f.name] = v
            r = type(e)(**kw)
        if isinstance(r, (p.Expression, int, Fraction)) and not isinstance(r, (bool, p.Slice)) \
                and rng.random() < rate:
            return wrap(r)
        return r
    return go(e)


def cse_directed():
    """wrappers in every position where the printer treats the operand specially"""
    a, b, c, f = (p.Variable(n) for n in "abcf")
    C = p.CommonSubexpression
    ab, adb, fdb, rem = p.Product((a, b)), p.Quotient(a, b), p.FloorDiv(a, b), p.Remainder(a, b)
    shared = C(p.Sum((a, b)), "s")
    out = [C(a), C(a, "pfx"), C(C(a)), C(C(a, "in"), "out"), C(p.Sum((a, 1))), C(-2), C(C(-2, "n")),
           p.Power(C(-2), a), p.Power(a, C(-2)), p.Power(C(p.Power(a, b)), c), p.Power(a, C(p.Power(b, c))),
           p.Product((shared, shared)), p.Sum((shared, p.Product((2, shared)), C(shared))),
           p.Call(f, (C(a), shared)), p.CallWithKwargs(f, (C(a),), {"k": shared}),
           p.Subscript(C(p.Variable("v")), C(1)), p.Subscript(p.Variable("v"), C((1,))),
           p.Subscript(p.Variable("v"), (C(1),)), p.If(C(p.Comparison(a, "<", b)), C(a), C(b)),
           p.LogicalNot(C(p.Comparison(a, "<", b))), p.Comparison(C(p.LogicalNot(a)), "==", b),
           p.BitwiseNot(C(p.BitwiseOr((a, b)))), p.LeftShift(C(p.LeftShift(a, 1)), C(p.Sum((b, 1)))),
           p.Min((C(a), b)), p.Max((C(a), C(b))), p.Lookup(C(p.Variable("r")), "u"),
           p.Sum((C(p.Sum((a, b))), c)), p.Product((C(ab), c)), p.Product((c, C(ab)))]
    for inner in (ab, adb, fdb, rem, p.Sum((a, b)), p.Power(a, 2), a):
        for w in (C(inner), C(C(inner, "t")), C(inner, "p")):
            out += [p.Quotient(c, w), p.Quotient(w, c), p.FloorDiv(c, w), p.FloorDiv(w, c),
                    p.Remainder(c, w), p.Remainder(w, c), p.Product((c, w)), p.Product((w, c)),
                    p.Product((c, w, a)), p.Sum((c, w)), p.Power(w, 2), p.Power(2, w),
                    p.Product((-1, w)), p.BitwiseNot(w) if inner is a else p.Sum((w, 1))]
    return out


def encodable(e):
    try:
        return dumps(expr_to_sx(e))
    except Unencodable:
        return None


def envs_payload(rng, k):
    return [dumps(env_to_sx(env_for(rng))) for _ in range(k)]


def load_env(s):
    return sx_to_env(loads(s))

# }}}


ERR_ORDER = re.compile(r"raises (\w+) instead of (?:ZeroDivisionError|OverflowError)$")


class PathStream(Stream):
    """common part of the expression-driven streams: payload {expr, envs, src[, listed]}"""
    prefix = "path"

    def run(self, e, env, pl):
        raise NotImplementedError

    def oracle(self, pl):
        e = sx_to_expr(loads(pl["expr"]))
        if any(isinstance(s, p.Slice) for s in scan.subterms(e)):
            return None     # the evaluator has no meaning for slices: nothing to compare with
        for es in pl["envs"]:
            env = load_env(es)
            run = lambda e, env: self.run(e, env, pl)  # noqa: E731
            why = checked(run, e, env)
            if why is not None:
                # classification uses the path with default options (no listed variables)
                run0 = lambda e, env: self.run(e, env, {})  # noqa: E731
                key, m = classify(self.prefix, run0, e, env)
                why_m, env_m = why, env
                for env2 in [env] + BOX:
                    w2 = checked(run0, m, env2)
                    if w2 is not None:
                        why_m, env_m = w2, env2
                        break
                mm = ERR_ORDER.match(why_m)
                if mm and mm.group(1) not in ("SyntaxError", "NameError", "InvalidAst"):
                    # both raise, different errors: an evaluation-order difference
                    key = f"{self.prefix}:error-order:{kind(m)}"
                at = {n: env_m[n] for n in free_names(m) if n in env_m}
                return Failure(key, f"{m!r} at {at!r}: generated code {why_m}"
                               + ("" if m is e else f" (found in {e!r})"),
                               {**pl, "expr": dumps(expr_to_sx(m)), "listed": [],
                                "envs": [dumps(env_to_sx(env_m))]})
        return None

    def shrink(self, pl):
        return ()          # classify() already reports the minimal failing subterm

    def nontrivial_key(self, pl, model, impl):
        return pl["expr"] if size(sx_to_expr(loads(pl["expr"]))) >= 3 else None

    def stats(self, pl, mo, io, acc):
        acc[pl["src"]] = acc.get(pl["src"], 0) + 1
        if io is not None and (io.startswith("(err") or io.startswith("(syntax")):
            k = io.split(" ")[0] + " " + io.split(" ")[1].rstrip(")") if io.startswith("(err") else "(syntax-error)"
            acc.setdefault("outcomes", {})
            acc["outcomes"][k] = acc["outcomes"].get(k, 0) + 1


def impl_exc(ex):
    if isinstance(ex, TypeError) and "unhashable" in str(ex):
        return "(err TypeError)"
    return dumps(exc_to_sx(ex))


ALIAS = [
    (p.Sum((1, p.Variable("x"))), p.Sum((True, p.Variable("x")))),
    p.Product((p.Sum((True, p.Variable("x"))), p.Sum((1, p.Variable("x"))))),
    p.CallWithKwargs(p.Variable("f"), (), {"z": p.Sum((1, p.Variable("x"))),
                                           "k": p.Sum((True, p.Variable("x")))}),
    p.CallWithKwargs(p.Variable("f"), (p.Sum((2, p.Variable("x"))),),
                     {"z": 1, "k": p.Sum((2.0, p.Variable("x"))), "a": True}),
    p.Sum((p.Power(p.Variable("x"), 1), p.Power(p.Variable("x"), True), 1, True)),
    p.If(p.Comparison(p.Variable("x"), "<", 1), 1, 2),
    p.Sum(()), p.Product(()), p.BitwiseOr(()), p.LogicalOr(()), p.LogicalAnd(()),
    p.Sum((p.Variable("x"),)), p.LogicalAnd((p.Variable("x"),)),
    p.Subscript(p.Variable("v"), p.Slice((1, 2, 3, 4))),
    p.Subscript(p.Variable("v"), p.Slice((p.Variable("n"),))),
    p.Subscript(p.Variable("v"), p.Slice((None, p.Variable("n")))),
    p.Subscript(p.Variable("v"), p.Slice(())),
    p.Sum((-0.0, float("inf"), -float("inf"), -2.5, 1e-7, 0)),
    p.NaN(), p.Min((p.Variable("x"), 1)), p.CommonSubexpression(p.Variable("x")),
    p.Derivative(p.Variable("x"), ("x",)), p.Wildcard(), p.FunctionSymbol(),
    [p.Variable("x")], p.Sum(([1], p.Min(()))), p.Sum((p.Min(()), [1])), "abc", None,
    p.Sum((None, p.Min(()))), p.Sum((p.Min(()), None)),
]


class CompileStream(PathStream):
    """compile(): source text and argument list (before and after a pickle round trip) vs the
    model; the compiled callable (and its unpickled copy) executed vs the reference interpreter"""
    name = "compile"
    prefix = "compile"

    def cases(self, rng, tier):
        n = 1 if tier == "quick" else 12
        population = list(gen_exprs(rng, tier, 1300 * n, 500 * n, three=300 * n))
        population += [("cse-directed", e) for e in cse_directed()]
        for src, e in population:
            if src in ("typed", "syntax", "three-level") and rng.random() < 0.25:
                e, src = sprinkle_cse(rng, e), src + "+cse"
            s = encodable(e)
            if s is None:
                continue
            names = free_names(e) if src != "two-level" else []
            listed = []
            if names and rng.random() < 0.6:
                listed = rng.sample(names, rng.randint(0, len(names)))
                if rng.random() < 0.15:
                    listed.insert(rng.randint(0, len(listed)), "unused_arg")
            listed = [n_ for n_ in listed if n_ not in ("math", "numpy")]
            yield {"expr": s, "listed": listed, "envs": envs_of(rng, src, 2), "src": src}
        # refusals / degenerate shapes: correspondence only
        for e in ALIAS + [p.CommonSubexpression([p.Variable("x")]), p.Substitution(p.Variable("x"), ("x",), (1,)),
                          p.Sum((p.Variable("x"), p.Derivative(p.Variable("y"), ("y",)))),
                          p.Sum((p.Variable("x"), None)), p.DotWildcard("w"), p.StarWildcard("w")]:
            s = encodable(e)
            if s is not None:
                yield {"expr": s, "listed": ["x"], "envs": [], "src": "directed"}
        # context names are never arguments
        for e, listed in [(p.Sum((p.Variable("math"), p.Variable("x"))), []),
                          (p.Sum((p.Variable("numpy"), p.Variable("x"), p.Variable("a"))), ["x"])]:
            yield {"expr": dumps(expr_to_sx(e)), "listed": listed, "envs": [], "src": "context"}

    def request(self, pl):
        return f"(c13-compile ({' '.join(q(n) for n in pl['listed'])}) {pl['expr']})"

    def run_impl(self, pl):
        from pymbolic import compile as pcompile
        from pymbolic.compiler import CompileMapper
        from pymbolic.mapper.stringifier import PREC_NONE
        e = sx_to_expr(loads(pl["expr"]))
        try:
            f = pcompile(e, list(pl["listed"]))
        except SyntaxError as ex:
            # the text handed to eval() is in the exception: "lambda <args>: <body>"
            head = (ex.text or "").split(":", 1)[0]
            args = [a for a in head[len("lambda "):].split(",") if a.strip()]
            src = CompileMapper()(e, PREC_NONE)
            return f"(ok ({' '.join(q(a) for a in args)}) {q(src)} syntax-error)"
        except RecursionError:
            raise
        except Exception as ex:
            if "Unsupported" in type(ex).__name__ or isinstance(ex, NotImplementedError):
                return "(err Unsupported)"
            return impl_exc(ex)
        src = CompileMapper()(e, PREC_NONE)       # the call _compile makes
        code = f._code.__code__
        args = list(code.co_varnames[:code.co_argcount])
        g = pickle.loads(pickle.dumps(f))
        code2 = g._code.__code__
        args2 = list(code2.co_varnames[:code2.co_argcount])
        src2 = CompileMapper()(g._Expression, PREC_NONE)
        return (f"(ok ({' '.join(q(a) for a in args)}) {q(src)} "
                f"({' '.join(q(a) for a in args2)}) {q(src2)})")

    def agree(self, model, impl, pl):
        if impl.endswith(" syntax-error)"):
            ms = loads(model)
            if isinstance(ms, list) and len(ms) == 5 and ms[0] == "ok":
                mine = f"(ok ({' '.join(q(a) for a in ms[1])}) {q(ms[2])} syntax-error)"
                return "ok" if mine == impl else "diff"
            return "diff"
        return super().agree(model, impl, pl)

    def run(self, e, env, pl):
        return run_compiled(e, env, pl.get("listed", []))

    def oracle(self, pl):
        e = sx_to_expr(loads(pl["expr"]))
        for es in pl["envs"]:
            env = load_env(es)
            if not is_safe(e, env):
                continue
            a = outcome(lambda: run_compiled(e, env, pl["listed"]))
            b = outcome(lambda: run_compiled(e, env, pl["listed"], pickled=True))
            if not _same_raw(a, b):
                return Failure("pickle-differs", f"compile({e!r}, {pl['listed']}): direct {a!r}, "
                               f"after a pickle round trip {b!r}", pl)
        return super().oracle(pl)


def _same_raw(a, b):
    if a[0] != b[0]:
        return False
    if a[0] == "ok":
        return same_exact(a[1], b[1]) or (has_float(a[1]) and has_float(b[1]))
    return a[1] == b[1]


class ArgOrderStream(Stream):
    """argument order: every ordered choice of listed variables (≤ 4 variables exhaustively), and
    many unlisted variables; model vs the real lambda's argument names; the call in the
    property's order vs the reference"""
    name = "arg-order"

    POOL = ["a", "B", "_c", "a1", "ab", "Z", "b", "aa", "x", "y10", "y2", "A", "a_b", "b2", "k"]

    @staticmethod
    def weighted(names):
        """a sum in which every variable has its own weight: any misplaced argument changes the
        value at pairwise distinct arguments"""
        terms = [p.Product((3 ** (i + 1), p.Variable(n))) for i, n in enumerate(names)]
        return p.Sum(tuple(terms)) if len(terms) != 1 else terms[0]

    def cases(self, rng, tier):
        sets = 10 if tier == "quick" else 120
        for _ in range(sets):
            k = rng.randint(1, 4)
            names = rng.sample(self.POOL, k)
            e = self.weighted(names)
            for r in range(k + 1):
                for listed in itertools.permutations(names, r):
                    yield {"expr": dumps(expr_to_sx(e)), "listed": list(listed),
                           "vals": [rng.randint(-50, 50) for _ in names], "names": names}
        for _ in range(40 if tier == "quick" else 600):
            k = rng.randint(2, len(self.POOL))
            names = rng.sample(self.POOL, k)
            listed = rng.sample(names, rng.randint(0, min(3, k)))
            yield {"expr": dumps(expr_to_sx(self.weighted(names))), "listed": listed,
                   "vals": [rng.randint(-50, 50) for _ in names], "names": names}

    def request(self, pl):
        return f"(c13-compile ({' '.join(q(n) for n in pl['listed'])}) {pl['expr']})"

    def run_impl(self, pl):
        return CompileStream.run_impl(self, pl)

    def oracle(self, pl):
        e = sx_to_expr(loads(pl["expr"]))
        env = dict(zip(pl["names"], pl["vals"]))
        ref = outcome(lambda: pyeval(e, env))
        for pickled in (False, True):
            got = outcome(lambda: run_compiled(e, env, pl["listed"], pickled=pickled))
            why = judge(ref, got)
            if why is not None:
                n_unlisted = len(pl["names"]) - len(pl["listed"])
                key = "arg-order" + (":unlisted>=2" if n_unlisted >= 2 and got[0] == "err" else "")
                return Failure(key + (":pickled" if pickled else ""),
                               f"compile({e!r}, {pl['listed']}) called with "
                               f"{expected_args(e, pl['listed'])} := values: {why}", pl)
        return None

    def nontrivial_key(self, pl, model, impl):
        return pl["expr"] + "|" + ",".join(pl["listed"])

    def stats(self, pl, mo, io, acc):
        k = f"vars={len(pl['names'])}"
        acc[k] = acc.get(k, 0) + 1


class ToAstStream(PathStream):
    """to_python_ast(): the AST vs the model (memo table included); the AST executed vs the
    reference interpreter"""
    name = "to-ast"
    prefix = "to-ast"

    def cases(self, rng, tier):
        n = 1 if tier == "quick" else 12
        for e in ALIAS:
            s = encodable(e)
            if s is not None:
                yield {"expr": s, "envs": [], "src": "directed"}
        for src, e in gen_exprs(rng, tier, 1300 * n, 600 * n, three=300 * n):
            s = encodable(e)
            if s is not None:
                yield {"expr": s, "envs": envs_of(rng, src, 2), "src": src}

    def request(self, pl):
        return f"(c13-toast {pl['expr']})"

    def run_impl(self, pl):
        from pymbolic.interop.ast import to_python_ast
        e = sx_to_expr(loads(pl["expr"]))
        try:
            node = to_python_ast(e)
        except RecursionError:
            raise
        except Exception as ex:
            return impl_exc(ex)
        return dumps(ast_to_sx(node))

    def run(self, e, env, pl):
        return run_to_ast(e, env)


class FunctionSourceStream(PathStream):
    """to_evaluatable_python_function(): the source is exec-ed and the function called with
    keyword arguments (oracle only: `ast.unparse` is CPython's)"""
    name = "function-source"
    prefix = "function-source"
    has_model = False

    def cases(self, rng, tier):
        n = 1 if tier == "quick" else 12
        for src, e in gen_exprs(rng, tier, 700 * n, 300 * n, three=200 * n):
            s = encodable(e)
            if s is not None:
                yield {"expr": s, "envs": envs_of(rng, src, 2), "src": src}

    def run_impl(self, pl):
        return "(oracle-only)"

    def run(self, e, env, pl):
        return run_function_source(e, env)

    def oracle(self, pl):
        f = super().oracle(pl)
        if f is not None:
            return f
        # the signature: keyword-only, the free variables in name order
        from pymbolic.interop.ast import to_evaluatable_python_function
        e = sx_to_expr(loads(pl["expr"]))
        try:
            src = to_evaluatable_python_function(e, "fn")
        except Exception:
            return None
        fd = ast.parse(src).body[0]
        got = [a.arg for a in fd.args.kwonlyargs]
        if fd.args.args or fd.args.posonlyargs or got != free_names(e):
            return Failure("function-source:signature", f"{src!r}: expected keyword-only "
                           f"{free_names(e)}", pl)
        return None


def signature_family():
    """trees whose generated code mentions names that are NOT variables of the expression
    (`float('nan')` of a typed NaN, `math`-style helpers), in guarded and unguarded positions;
    built in-process because the wire format does not carry a NaN's data type"""
    a, b, c, f = (p.Variable(n) for n in ("a", "b", "c", "float"))
    out = []
    for nan in (p.NaN(float),):
        out += [nan, p.Sum((a, nan)), p.If(c, nan, p.Sum((a, b))), p.If(p.LogicalNot(c), p.Product((a, b)), nan),
                p.Sum((a, p.If(b, 1, nan))), p.Call(p.Variable("g"), (nan, a)),
                # a VARIABLE that happens to be called like the helper, next to the helper
                p.Sum((f, p.If(c, nan, 1)))]
    out += [p.Sum((a, b)), p.If(c, a, b), p.Call(p.Variable("g"), (a,)), p.Sum((f, a))]
    return out


class SignatureStream(Stream):
    """to_evaluatable_python_function(): the parameters are keyword-only and are EXACTLY the free
    variables of the expression in name order, also when the generated body uses helper names
    (`float('nan')`); calling with exactly those arguments never fails for want of an argument
    (oracle only)"""
    name = "function-source-signature"
    has_model = False

    def cases(self, rng, tier):
        for i in range(len(signature_family())):
            yield {"i": i}

    def run_impl(self, pl):
        return "(oracle-only)"

    def oracle(self, pl):
        from pymbolic.interop.ast import to_evaluatable_python_function
        e = signature_family()[pl["i"]]
        try:
            src = to_evaluatable_python_function(e, "fn")
        except Exception as ex:
            if _refusal(ex):
                return None
            return Failure("function-source-signature:raises", f"{e!r}: {ex!r}", pl)
        fd = ast.parse(src).body[0]
        got = [x.arg for x in fd.args.kwonlyargs]
        want = free_names(e)
        if fd.args.args or fd.args.posonlyargs or fd.args.vararg or fd.args.kwarg or got != want:
            return Failure("function-source-signature:parameters",
                           f"{e!r}: parameters {got}, free variables {want}; source {src!r}", pl)
        ns: dict = {}
        exec(src, ns)  # noqa: S102
        env = {n: ((lambda *aa: 1) if n == "g" else 2) for n in want}
        try:
            ns["fn"](**env)
        except TypeError as ex:
            if "argument" in str(ex):
                return Failure("function-source-signature:call", f"{e!r}: fn(**free variables) -> {ex!r}", pl)
        except Exception:
            pass
        return None

    def nontrivial_key(self, pl, model, impl):
        return str(pl["i"])


class RoundTripStream(PathStream):
    """ASTToPymbolic()(to_python_ast(e)): the tree vs `fromAst (toAstC e)`; its reference value vs
    the reference value of e"""
    name = "ast-roundtrip"
    prefix = "ast-roundtrip"

    def cases(self, rng, tier):
        n = 1 if tier == "quick" else 12
        for src, e in gen_exprs(rng, tier, 900 * n, 400 * n, three=200 * n):
            s = encodable(e)
            if s is not None:
                yield {"expr": s, "envs": envs_of(rng, src, 1), "src": src}

    def request(self, pl):
        return f"(c13-roundtrip {pl['expr']})"

    def run_impl(self, pl):
        from pymbolic.interop.ast import ASTToPymbolic, to_python_ast
        e = sx_to_expr(loads(pl["expr"]))
        try:
            node = to_python_ast(e)
        except RecursionError:
            raise
        except Exception as ex:
            return f"(toast {impl_exc(ex)})"
        try:
            return dumps(expr_to_sx(ASTToPymbolic()(node)))
        except RecursionError:
            raise
        except Exception as ex:
            return impl_exc(ex)

    def run(self, e, env, pl):
        return run_roundtrip(e, env)


PY_STRINGS = [
    "a and b", "a or b and c", "a < b < c", "a < b == c", "not a", "-a", "+a", "~a", "- -a", "-(a, b)",
    "-2", "-2 ** a", "(-2) ** a", "a - b", "a - b - c", "a - (b - c)", "-a ** 2", "a @ b",
    "f(a, k=b)", "f(a)(b)", "a.u.w", "v[a]", "v[a, b]", "v[a:b]", "v[:]", "[a, b]", "(a, b)", "()",
    "a if b else c", "a | b ^ c & d", "a << b >> c", "a // b % c", "-True", "-2.5", "- 0.0", "'s'",
    "None", "a is b", "a in b", "lambda: a", "a < (b < c)", "(a < b) < c", "not a == b", "f(*a)",
    "f(**a)", "1 if a else 2 if b else 3", "-f(a)", "-v[0]", "-(a + b)", "-(a * b)", "-(2 * b)",
    "-(0 * b)", "-(1 * b)", "- (a - b)",
]


NONE_NODES = ['(Subscript (Name "v") nil)', '(Subscript (Subscript (Name "v") nil) (Name "i"))',
              '(BinOp (Name "a") Add nil)', '(UnaryOp USub nil)', '(Tuple (Name "a") nil)',
              '(Call (Name "f") ((Subscript (Name "v") nil)) ())', '(Subscript nil (Name "i"))']


class PyAstGen:
    """random Python expression ASTs built directly (every binary, unary, boolean and comparison
    operator, chains, conditionals, calls, subscripts, attributes): the importer's whole table"""

    def __init__(self, rng):
        self.rng = rng

    def leaf(self):
        r = self.rng
        if r.random() < 0.55:
            return ast.Name(id=r.choice(["a", "b", "c", "x", "y"]), ctx=ast.Load())
        return ast.Constant(r.choice([0, 1, 2, 3, 5, 7, True, False, 10]))

    def gen(self, d):
        r = self.rng
        if d <= 0 or r.random() < 0.12:
            return self.leaf()
        k = r.random()
        if k < 0.34:
            op = r.choice([o for o in _BIN if o is not ast.MatMult])
            return ast.BinOp(self.gen(d - 1), op(), self.gen(d - 1))
        if k < 0.46:
            return ast.UnaryOp(r.choice(list(_UN))(), self.gen(d - 1))
        if k < 0.58:
            return ast.BoolOp(r.choice([ast.And, ast.Or])(),
                              [self.gen(d - 1) for _ in range(r.randint(2, 3))])
        if k < 0.84:
            n = 1 if r.random() < 0.8 else 2
            return ast.Compare(self.gen(d - 1), [r.choice(list(_CMP))() for _ in range(n)],
                               [self.gen(d - 1) for _ in range(n)])
        if k < 0.92:
            return ast.IfExp(self.gen(d - 1), self.gen(d - 1), self.gen(d - 1))
        if k < 0.96:
            return ast.Call(ast.Name(id=r.choice(["f", "g"]), ctx=ast.Load()),
                            [self.gen(d - 1) for _ in range(r.randint(0, 2))], [])
        return ast.Subscript(ast.Name(id="v", ctx=ast.Load()), self.gen(d - 1), ast.Load())


class FromAstStream(Stream):
    """ASTToPymbolic on Python's own parse of source text and on the mapper's ASTs: the imported
    tree vs `fromAst`; its reference value vs CPython's value of the AST"""
    name = "from-ast"

    def cases(self, rng, tier):
        from .c07 import rand_string, skeletons2
        n = 1 if tier == "quick" else 12
        texts = [s for s, _k in skeletons2()] + PY_STRINGS
        texts += [rand_string(rng, rng.randint(1, 5)) for _ in range(700 * n)]
        for s in texts:
            try:
                sx = dumps(ast_to_sx(ast.parse(s, mode="eval").body))
            except (SyntaxError, Unencodable, KeyError):
                continue
            yield {"ast": sx, "envs": envs_payload(rng, 1), "src": "python-text"}
        pg = PyAstGen(rng)
        for _ in range(1200 * n):
            sx = dumps(ast_to_sx(pg.gen(rng.randint(1, 4))))
            yield {"ast": sx, "envs": envs_payload(rng, 2), "src": "python-ast"}
        # hand-made nodes `ast.parse` never produces (found by the regenerated handler table:
        # `none_or_rec` passes a None slice through; a None operand has no handler)
        for sx in NONE_NODES:
            yield {"ast": sx, "envs": [], "src": "none-nodes"}
        from pymbolic.interop.ast import to_python_ast
        for src, e in gen_exprs(rng, tier, 500 * n, 200 * n, two=False):
            try:
                sx = dumps(ast_to_sx(to_python_ast(e)))
            except Exception:
                continue
            yield {"ast": sx, "envs": envs_payload(rng, 1), "src": "mapper-output"}

    def request(self, pl):
        return f"(c13-fromast {pl['ast']})"

    def run_impl(self, pl):
        from pymbolic.interop.ast import ASTToPymbolic
        node = sx_to_ast(loads(pl["ast"]))
        try:
            r = ASTToPymbolic()(node)
        except RecursionError:
            raise
        except Exception as ex:
            return impl_exc(ex)
        try:
            return dumps(expr_to_sx(r))
        except Unencodable as ex:
            return f"(unencodable {ex})"

    def oracle(self, pl):
        from pymbolic.interop.ast import ASTToPymbolic
        sx = loads(pl["ast"])
        try:
            back = ASTToPymbolic()(sx_to_ast(sx))
        except Exception:
            return None                      # a refusal is not a wrong translation
        for es in pl["envs"]:
            env = load_env(es)
            if not is_safe(back, env):
                continue
            ref = outcome(lambda: eval(compile(ast.fix_missing_locations(  # noqa: S307
                ast.Expression(body=sx_to_ast(sx))), "<c13>", "eval"), {"__builtins__": {}}, dict(env)))
            if ref[0] == "err" and ref[1] not in ARITH:
                continue
            got = outcome(lambda: pyeval(back, env))
            if got[0] == "err" and got[1] == "Unsupported":
                continue
            why = judge(ref, got)
            if why is not None and not float_involved(back, env):
                text = ast.unparse(sx_to_ast(sx))
                if ref[0] == "err" and got[0] == "err":
                    return Failure("from-ast:error-order", f"ASTToPymbolic({text!r}) = {back!r}: "
                                   f"evaluating it {why}", pl)
                return Failure("from-ast:" + self.shape(sx), f"ASTToPymbolic({text!r}) = {back!r}: "
                               f"evaluating it {why}", pl)
        return None

    @staticmethod
    def shape(sx):
        """node type of the smallest sub-AST whose import changes the meaning is not searched:
        the head of the AST and of its first composite operand"""
        kids = [c[0] for c in sx[1:] if isinstance(c, list) and c and isinstance(c[0], Atom)
                and c[0] not in ("Name", "Constant")]
        return str(sx[0]) + (">" + str(kids[0]) if kids else "")

    def shrink(self, pl):
        sx = loads(pl["ast"])

        def subs(s):
            for c in s[1:] if isinstance(s, list) else []:
                if isinstance(c, list) and c and isinstance(c[0], Atom) and c[0][:1].isupper() \
                        and c[0] not in ("Int", "Bool", "Flt", "Str"):
                    yield c
                    yield from subs(c)
                elif isinstance(c, list):
                    for d in c:
                        if isinstance(d, list) and d and isinstance(d[0], Atom) and d[0][:1].isupper() \
                                and d[0] not in ("Int", "Bool", "Flt", "Str"):
                            yield d
                            yield from subs(d)
        for c in subs(sx):
            try:
                sx_to_ast(c)
            except Exception:
                continue
            yield {**pl, "ast": dumps(c)}

    def nontrivial_key(self, pl, model, impl):
        return pl["ast"] if not impl.startswith("(err") else None

    def stats(self, pl, mo, io, acc):
        acc[pl["src"]] = acc.get(pl["src"], 0) + 1
        if io.startswith("(err"):
            acc.setdefault("refusals", {})
            acc["refusals"][io] = acc["refusals"].get(io, 0) + 1


class DenAstStream(Stream):
    """the model's meaning of an AST (`denAst`, the oracle of the theorems) vs CPython executing
    that AST"""
    name = "denast"

    def cases(self, rng, tier):
        from .c07 import rand_string
        from pymbolic.interop.ast import to_python_ast
        n = 1 if tier == "quick" else 12
        for s in PY_STRINGS + [rand_string(rng, rng.randint(1, 4)) for _ in range(300 * n)]:
            try:
                sx = dumps(ast_to_sx(ast.parse(s, mode="eval").body))
            except (SyntaxError, Unencodable, KeyError):
                continue
            if "MatMult" in sx or "Slice" in sx:
                continue
            yield {"ast": sx, "env": envs_payload(rng, 1)[0]}
        for src, e in gen_exprs(rng, tier, 900 * n, 0, two=False):
            try:
                sx = dumps(ast_to_sx(to_python_ast(e)))
            except Exception:
                continue
            env = env_for(rng)
            if not is_safe(e, env):
                continue
            yield {"ast": sx, "env": dumps(env_to_sx(env))}

    def request(self, pl):
        return f"(c13-denast {pl['env']} {pl['ast']})"

    def run_impl(self, pl):
        env = load_env(pl["env"])
        node = sx_to_ast(loads(pl["ast"]))
        try:
            code = compile(ast.fix_missing_locations(ast.Expression(body=node)), "<c13>", "eval")
            v = eval(code, {"__builtins__": {}}, env)  # noqa: S307
        except NameError as ex:
            return f"(err UnknownVariable {q(ex.name)})"
        except RecursionError:
            raise
        except Exception as ex:
            return dumps(exc_to_sx(ex))
        return dumps(value_to_sx(v))

    def agree(self, model, impl, pl):
        if impl == "(err OverflowError)" or "(noclaim)" in model:
            return "trivial"
        return super().agree(model, impl, pl)

    def nontrivial_key(self, pl, model, impl):
        return pl["ast"] + pl["env"]


# {{{ the compiled SOURCE under Python's grammar (theorems PV.C13.compile_source_groups_*)

def py_tokens(s):
    """tokens of CPython's own tokenizer in the wire format of the parser model, or None when the
    tokenizer rejects the text (unbalanced brackets) or a token has no counterpart"""
    import io
    import keyword
    import tokenize
    out = []
    try:
        for t in tokenize.generate_tokens(io.StringIO(s).readline):
            if t.type in (tokenize.NEWLINE, tokenize.NL, tokenize.ENDMARKER, tokenize.INDENT,
                          tokenize.DEDENT, tokenize.COMMENT):
                continue
            if t.type == tokenize.NUMBER:
                txt = t.string.replace("_", "")
                if txt[-1] in "jJ":
                    out.append(f"(imag {q(txt)})")
                elif re.fullmatch(r"[0-9]+", txt):
                    out.append(f"(int {int(txt)})")
                elif re.fullmatch(r"0[xXoObB][0-9a-fA-F]+", txt):
                    return None
                else:
                    v = float(txt)
                    if v != v or v in (float("inf"), float("-inf")):
                        return None
                    n, d = v.as_integer_ratio()
                    out.append(f"(flt {q(repr(v))} {n} {d})")
            elif t.type == tokenize.NAME:
                if t.string == "True":
                    out.append("true")
                elif t.string == "False":
                    out.append("false")
                elif keyword.iskeyword(t.string):
                    out.append(f"(sym {q(t.string)})")
                else:
                    out.append(f"(id {q(t.string)})")
            elif t.type == tokenize.OP:
                out.append(f"(sym {q(t.string)})")
            else:
                return None
    except (tokenize.TokenError, SyntaxError, IndentationError, ValueError):
        return None
    return out


_SEP = {"and", "or", "if", "else", ",", ":", "="}
_CMPS = {"==", "!=", "<", "<=", ">", ">="}
_BINS = {"+", "-", "*", "/", "//", "%", "**", "<<", ">>", "&", "|", "^", "and", "or", "@"} | _CMPS
_OPEN = {"(": ")", "[": "]", "{": "}"}


def _groups(toks):
    """nest a flat list of token texts by brackets: items are texts or ('group', open, [items])"""
    stack = [[]]
    opens = []
    for t in toks:
        if t in _OPEN:
            stack.append([])
            opens.append(t)
        elif t in _OPEN.values():
            if not opens:
                return None
            inner = stack.pop()
            stack[-1].append(("group", opens.pop(), inner))
        else:
            stack[-1].append(t)
    return stack[0] if len(stack) == 1 else None


def _level_excuse(items):
    """the shapes (on ONE bracket level) that the parser SCHEME cannot read the way Python does,
    whatever the precedence numbers — see PV.C13.python_table_grouping / python_table_prefix:
    comparison chains, `not` followed by a tighter binary operator or standing where only an
    operand of a tighter operator may stand, `*` followed by `/ // %` (the right operand of `*`
    is read at the level of a sum), a conditional followed by `,` or `:` (its else-branch is
    read at the lowest level)"""
    def operand_before(i):
        return i > 0 and (not isinstance(items[i - 1], str) or
                          (items[i - 1] not in _BINS and items[i - 1] not in _SEP
                           and items[i - 1] not in ("not", "~", "lambda")))
    binary = [isinstance(t, str) and t in _BINS and operand_before(i) for i, t in enumerate(items)]
    n = len(items)
    for i, t in enumerate(items):
        if not isinstance(t, str):
            continue
        if t in _CMPS and binary[i]:
            for j in range(i + 1, n):
                u = items[j]
                if isinstance(u, str) and (u in _SEP or u == "not"):
                    break
                if isinstance(u, str) and u in _CMPS and binary[j]:
                    return "chain"
        if t == "*" and binary[i]:
            for j in range(i + 1, n):
                u = items[j]
                if not isinstance(u, str) or not binary[j]:
                    if isinstance(u, str) and u in _SEP:
                        break
                    continue
                if u in ("/", "//", "%"):
                    return "times-division"
                if u not in ("*", "**"):
                    break
        if t == "else":
            if any(isinstance(u, str) and u in (",", ":") for u in items[i + 1:]):
                return "else-comma"
        if t == "not":
            if i > 0 and not (isinstance(items[i - 1], str) and (items[i - 1] in _SEP or items[i - 1] == "not")):
                return "not-operand"
            for j in range(i + 1, n):
                u = items[j]
                if isinstance(u, str) and u in _SEP:
                    break
                if isinstance(u, str) and binary[j] and u != "**":
                    return "not-wide"
    return None


def excused(s):
    """None, or the name of the shape that puts the text outside the strings on which the parser
    model with the Python table is claimed (and checked) to agree with CPython"""
    import io
    import tokenize
    try:
        toks = [t.string for t in tokenize.generate_tokens(io.StringIO(s).readline)
                if t.type in (tokenize.NUMBER, tokenize.NAME, tokenize.OP)]
    except (tokenize.TokenError, SyntaxError, IndentationError):
        return "tokenizer"
    top = _groups(toks)
    if top is None:
        return "brackets"

    def walk(items):
        r = _level_excuse(items)
        if r is not None:
            return r
        for it in items:
            if not isinstance(it, str):
                r = walk(it[2])
                if r is not None:
                    return r
        return None
    return walk(top)


def cpython_tree(s):
    """('tree', wire form of CPython's reading, sums/products flattened) | ('syntax',) | ('foreign',)"""
    from .c07 import NotShared, py_tree
    from ..syntax import flatten_assoc
    try:
        node = ast.parse(s, mode="eval")
    except (SyntaxError, ValueError, RecursionError, MemoryError):
        return ("syntax",)
    try:
        return ("tree", dumps(expr_to_sx(flatten_assoc(py_tree(node)))))
    except (NotShared, Unencodable, TypeError, OverflowError):
        return ("foreign",)


PY_TABLE_EXTRA = [
    "not a", "not not a", "not a and b", "a and not b", "not a or not b", "x if not a else b",
    "not a if b else c", "f(not a, not b)", "not a == b", "a == not b", "not a + b", "a + not b",
    "~not a", "-not a", "not -a", "not ~a", "not a ** b", "not a.b", "not a(b)", "not a[b]",
    "-a ** b", "~a ** b", "a ** -b", "a ** ~b", "a ** -b ** c", "-a ** -b", "+a", "-+a", "- -a", "~~a",
    "-a * b", "-a + b", "a * -b", "a / -b", "a - -b", "-a.b ** c", "-f(a) ** 2", "-a[0] ** 2",
    "a < b < c", "a < b == c", "a < b and b < c", "(a < b) < c", "a < (b < c)", "a < b if c < d else e",
    "a * b / c", "a * b // c", "a * b % c", "a * b * c", "a / b * c", "a // b * c", "a % b * c",
    "a * (b / c)", "(a * b) / c", "a * b ** c / d", "a * -b / c", "a * b + c / d", "a / b / c",
    "a if b else c", "a if b else c if d else e", "a if b if c else d else e", "(a if b else c) if d else e",
    "a if b else c, d", "(a if b else c, d)", "f(a if b else c, d)", "f(a if b else c)", "f(d, a if b else c)",
    "f(a, k=b if c else d, l=e)", "f(a, k=b if c else d)", "a[b if c else d]", "a[b if c else d, e]",
    "a or b if c else d", "a if b or c else d", "a if b else c or d",
    "a | b ^ c & d", "a & b ^ c | d", "a | b | c", "a ^ b ^ c", "a & b & c", "a & b == c", "a == b & c",
    "a | b == c", "a == b | c", "a ^ b == c", "a << b + c", "a + b << c", "a << b << c", "a & b << c",
    "a and b and c", "a or b or c", "a or b and c", "a and b or c",
    "a, b", "(a, b)", "(a,)", "()", "a,", "f()", "f(a,)", "f(a)(b)", "a.b.c(d)[e]", "a[b, c]", "a[b][c]",
    "f(a, k=b)", "f(k=a, l=b)", "(a + b) * c", "a * (b + c)", "a ** (b ** c)", "(a ** b) ** c", "a ** b ** c",
    "2 ** -1", "-2 ** 2", "(-2) ** 2", "-2 * a", "a * -2", "a - 2", "a - -2", "1.5 * a", "1e-05 + a",
    "1e+20 * a", "True and a", "a == True", "-True", "a b", "a +", "(a", "a)", "a + * b", "f(a,, b)",
    "f(a b)", "a[", "a if b", "a if b else", "", "(", "a.", "1 +", "f(k=1, 2)", "not", "a not b",
]


class PyTableStream(Stream):
    """THE TIE OF THE PYTHON TABLE: the parser model run with `PV.C13.pythonPrec` on the tokens of
    CPython's tokenizer vs CPython's own `ast.parse` (converted by harness/props/c07.py: py_tree,
    not by the code under test) — exhaustively on all skeletons with at most two operators, a
    sample (thorough: all) of the three-operator skeletons, and random deeper strings with random
    parentheses.  Strings of the shapes the parser SCHEME cannot express (`excused`) are counted,
    not compared.  No code of /repo is involved: a disagreement means the table (or the list of
    excluded shapes) is wrong."""
    name = "py-table"

    def cases(self, rng, tier):
        from .c07 import rand_string, skeletons2, skeletons3
        for s, k in skeletons2():
            yield {"text": s, "kind": k[0]}
        for s in PY_TABLE_EXTRA:
            yield {"text": s, "kind": "directed"}
        sk3 = list(skeletons3())
        for s, k in (sk3 if tier != "quick" else rng.sample(sk3, 1200)):
            yield {"text": s, "kind": k[0]}
        for _ in range(2000 if tier == "quick" else 60000):
            yield {"text": rand_string(rng, rng.randint(2, 6)), "kind": "random"}
        # the same inside brackets: arguments, keyword values, tuples, lists of indices, callees
        wraps = ["f({0}, {1})", "({0}, {1})", "{0}, {1}", "v[{0}]", "v[{0}, {1}]", "f({0}, k={1})",
                 "f(k={0}, l={1})", "({0})({1})", "({0}).u", "({0})[{1}]", "f({0})", "({0},)",
                 "g(({0}), {1})", "-({0})", "~({0})", "not ({0})", "({0}) ** ({1})", "({0}) * {1}",
                 "{0} if ({1}) else {0}", "f({0} if {1} else {0})", "f(({0} if {1} else {0}), {1})"]
        for _ in range(700 if tier == "quick" else 20000):
            w = rng.choice(wraps)
            yield {"text": w.format(rand_string(rng, rng.randint(0, 3)), rand_string(rng, rng.randint(0, 3))),
                   "kind": "bracketed"}

    def request(self, pl):
        toks = py_tokens(pl["text"])
        if toks is None:
            return "(c13-pyparse ((sym \"$tokenizer-rejects$\")))"
        return f"(c13-pyparse ({' '.join(toks)}))"

    def run_impl(self, pl):
        r = cpython_tree(pl["text"])
        return r[1] if r[0] == "tree" else f"({r[0]})"

    def agree(self, model, impl, pl):
        if py_tokens(pl["text"]) is None or impl == "(foreign)" or "(noclaim)" in model:
            return "trivial"
        if excused(pl["text"]) is not None:
            return "trivial"
        if impl == "(syntax)":
            return "ok" if model.startswith("(err") else "diff"
        if model == "(err TypeError)":
            return "trivial"           # Python raises when the text is evaluated: -(a, b)
        return "ok" if model == impl else "diff"

    def nontrivial_key(self, pl, model, impl):
        return pl["text"] if not impl.startswith("(syntax") else None

    def stats(self, pl, mo, io, acc):
        acc[pl["kind"]] = acc.get(pl["kind"], 0) + 1
        ex = excused(pl["text"])
        if ex is not None:
            acc.setdefault("excluded", {})
            acc["excluded"][ex] = acc["excluded"].get(ex, 0) + 1
            same = (mo == io) or (io == "(syntax)" and mo is not None and mo.startswith("(err"))
            if same:
                acc["excluded-but-equal"] = acc.get("excluded-but-equal", 0) + 1


def _close(a, b):
    """same value, floats up to rounding (a regrouped float computation differs in the last bits)"""
    if isinstance(a, (tuple, list)) and isinstance(b, (tuple, list)):
        return len(a) == len(b) and all(_close(x, y) for x, y in zip(a, b))
    if isinstance(a, App) or isinstance(b, App):
        return isinstance(a, App) and isinstance(b, App) and a.f == b.f and _close(a.args, b.args) \
            and a.kw.keys() == b.kw.keys() and all(_close(a.kw[k], b.kw[k]) for k in a.kw)
    if isinstance(a, (float, complex)) or isinstance(b, (float, complex)):
        try:
            fa, fb = complex(a), complex(b)
        except Exception:
            return False
        if fa != fa or fb != fb:
            return (fa != fa) == (fb != fb)
        return abs(fa - fb) <= 1e-6 * max(1.0, abs(fa), abs(fb))
    return same_exact(a, b)


def grouping_witness(e, t, envs):
    """(env, what, reference outcome) such that (1) the evaluator's value of `e` is well defined,
    (2) the tree `t` CPython reads from the compiled source has ANOTHER value under the same
    reference interpreter (or the source does not parse: t is None) — so the difference is due to
    the grouping, not to what an operator computes —, and (3) the REAL compiled callable does not
    return the evaluator's value.  Floats are compared up to rounding (a sign or an operand
    moved to another operator is not a rounding effect)."""
    for env in envs:
        if not is_safe(e, env):
            continue
        ref = outcome(lambda: pyeval(e, env))
        if ref[0] == "err" and ref[1] not in ARITH:
            continue
        if t is not None:
            if not is_safe(t, env):
                continue
            alt = outcome(lambda: pyeval(t, env))
            if alt[0] == ref[0] and (_close(alt[1], ref[1]) if ref[0] == "ok" else alt[1] == ref[1]):
                continue
        got = outcome(lambda: run_compiled(e, env))
        if got[0] == "err" and got[1] == "Refused":
            return None
        if got[0] == "err" and got[1] == "SyntaxError":
            if ref[0] == "ok":
                return env, "does not parse", ref
            continue
        if ref[0] == "ok":
            if got[0] != "ok":
                return env, f"raises {got[1]} instead of returning {ref[1]!r}", ref
            if not _close(ref[1], got[1]):
                return env, f"returns {got[1]!r} instead of {ref[1]!r}", ref
        elif got[0] == "ok" or got[1] != ref[1]:
            return env, (f"returns {got[1]!r}" if got[0] == "ok" else f"raises {got[1]}") \
                + f" instead of raising {ref[1]}", ref
    return None


def _minmax_as_calls(e):
    """`Min` / `Max` are printed as calls of Python's `min` / `max`: that reading is the intended
    one (what the calls compute is the business of the executing oracle)"""
    import dataclasses
    if isinstance(e, tuple):
        return tuple(_minmax_as_calls(c) for c in e)
    if isinstance(e, (p.Min, p.Max)):
        return p.Call(p.Variable("min" if isinstance(e, p.Min) else "max"),
                      tuple(_minmax_as_calls(c) for c in e.children))
    if not isinstance(e, p.Expression) or not dataclasses.is_dataclass(e):
        return e
    kw = {}
    for f in dataclasses.fields(e):
        v = getattr(e, f.name)
        if isinstance(v, tuple) and f.name in ("children", "parameters", "values"):
            kw[f.name] = tuple(None if c is None else _minmax_as_calls(c) for c in v)
        elif hasattr(v, "items"):
            kw[f.name] = {k: _minmax_as_calls(c) for k, c in v.items()}
        elif isinstance(v, (p.Expression, tuple)):
            kw[f.name] = _minmax_as_calls(v)
        else:
            kw[f.name] = v
    return type(e)(**kw)


def _printed_shape(e):
    """shapes the printer does not distinguish and that have nothing to do with grouping (C06
    findings one-tuple-index, no-keywords): `a[(x,)]` prints as `a[x]`, a keyword call without
    keywords as a plain call"""
    import dataclasses
    if isinstance(e, tuple):
        return tuple(_printed_shape(c) for c in e)
    if not isinstance(e, p.Expression) or not dataclasses.is_dataclass(e):
        return e
    if isinstance(e, p.CommonSubexpression):
        return _printed_shape(e.child)          # a wrapper means (and is printed as) its child
    if isinstance(e, p.Subscript) and isinstance(e.index, tuple) and len(e.index) == 1:
        return p.Subscript(_printed_shape(e.aggregate), _printed_shape(e.index[0]))
    if isinstance(e, p.CallWithKwargs) and not e.kw_parameters:
        return p.Call(_printed_shape(e.function), tuple(_printed_shape(c) for c in e.parameters))
    kw = {}
    for f in dataclasses.fields(e):
        v = getattr(e, f.name)
        if isinstance(v, tuple) and f.name in ("children", "parameters", "values"):
            kw[f.name] = tuple(None if c is None else _printed_shape(c) for c in v)
        elif hasattr(v, "items"):
            kw[f.name] = {k: _printed_shape(c) for k, c in v.items()}
        elif isinstance(v, (p.Expression, tuple)):
            kw[f.name] = _printed_shape(v)
        else:
            kw[f.name] = v
    return type(e)(**kw)


def source_reading(e):
    """(source text, CPython's reading) of the REAL compiled source: 'same' when CPython's tree is
    the expression once nested sums and products are flattened, 'assoc' when it is the expression
    once EVERY associative n-ary operator is flattened (regrouping those does not change an exact
    value), 'regrouped' + tree otherwise, 'syntax', 'foreign' (a node type outside py_tree:
    slices, lists, strings)"""
    from pymbolic.compiler import CompileMapper
    from pymbolic.mapper.stringifier import PREC_NONE
    from .c06 import normalize_all
    from .c07 import NotShared, py_tree
    from ..syntax import flatten_assoc
    src = CompileMapper()(e, PREC_NONE)
    try:
        node = ast.parse(src, mode="eval")
    except SyntaxError:
        return src, "syntax", None
    try:
        t = py_tree(node)
    except NotShared:
        return src, "foreign", None
    want = _printed_shape(_minmax_as_calls(e))
    if flatten_assoc(t) == flatten_assoc(want):
        return src, "same", t
    if normalize_all(t) == normalize_all(want):
        return src, "assoc", t
    return src, "regrouped", t


def _mentions_foreign(e):
    return any(isinstance(s, (p.Slice, list, str, complex, p.Substitution,
                              p.Derivative, p.NaN, p.Wildcard, p.DotWildcard, p.StarWildcard,
                              p.FunctionSymbol)) or s is None for s in scan.subterms(e))


def _postorder(e):
    for c in syntax_children(e):
        if isinstance(c, (p.Expression, tuple)):
            yield from _postorder(c)
    yield e


def misread(s):
    """CPython rejects the compiled source of `s` or groups it differently (beyond regrouping an
    associative operator)"""
    if not isinstance(s, (p.Expression, tuple)) or _mentions_foreign(s):
        return False
    try:
        return source_reading(s)[1] in ("syntax", "regrouped")
    except RecursionError:
        raise
    except Exception:
        return False


def _printed(c):
    """a one-operand n-ary node prints as its operand: name what is really printed"""
    while (isinstance(c, NARY) and len(c.children) == 1) or isinstance(c, p.CommonSubexpression):
        c = c.child if isinstance(c, p.CommonSubexpression) else c.children[0]
    return c


def grouping_key(e):
    """(key, m): m = a smallest misread subterm of e; key = its node type > the type of the first
    child that is misread in m on its own (all other non-variable children replaced by plain
    variables), else of the first child whose replacement repairs the reading (a structural
    classification: no environment is involved)"""
    m = minimal_failing_subterm(e, misread)
    if m is None:
        m = e
    kids = [(path, c) for depth, path, _par, c in edges(m) if depth == 0 and not isinstance(c, p.Variable)]
    for path, c in kids:
        try:
            m2 = m
            for i, (path2, d) in enumerate(kids):
                if path2 != path and isinstance(d, (p.Expression, tuple)):
                    m2 = replace_at(m2, path2, p.Variable(f"q{i}"))
            if misread(m2):
                return f"compile:{kind(m)}>{child_name(_printed(c))}", m
        except RecursionError:
            raise
        except Exception:
            pass
    for path, c in kids:
        try:
            if not misread(replace_at(m, path, p.Variable("q11"))):
                return f"compile:{kind(m)}>{child_name(_printed(c))}", m
        except RecursionError:
            raise
        except Exception:
            pass
    return f"compile:{kind(m)}", m


class SourceGroupsStream(Stream):
    """the fragment of `PV.C13.compile_source_groups_current` against the REAL compile():
    model side: is the tree in the fragment, the token list of the compiled source, what the
    parser model with the Python table makes of it; real side: CompileMapper's text tokenised by
    CPython and parsed by CPython.  A tree INSIDE the proved fragment must be read by CPython as
    the tree itself (modulo flattening of sums and products), its text must tokenise to the
    model's token list and must avoid the shapes excluded from the `py-table` tie.  Oracle: when
    CPython groups the source differently, an environment is searched in which the compiled
    callable and the evaluator differ."""
    name = "source-groups"

    def cases(self, rng, tier):
        n = 1 if tier == "quick" else 12
        population = list(gen_exprs(rng, tier, 900 * n, 900 * n, cse=0.03, three=600 * n))
        population += [("cse-directed", e) for e in cse_directed()]
        for src, e in population:
            if src in ("typed", "syntax", "three-level") and rng.random() < 0.3:
                e, src = sprinkle_cse(rng, e), src + "+cse"
            s = encodable(e)
            if s is not None:
                yield {"expr": s, "envs": envs_of(rng, src, 1), "src": src}
        a, b, c = (p.Variable(n_) for n_ in "abc")
        for e in [p.Power(-2, a), p.Power(-2.5, a), p.Power(a, -2), p.Product((-1, a)), p.Product((a, -3)),
                  p.Quotient(-1, a), p.Sum((a, -1)), p.Comparison(a, "<", -1), p.BitwiseNot(-2),
                  p.BitwiseNot(p.Power(a, b)), p.LogicalNot(p.Power(a, b)), p.LogicalNot(p.LogicalNot(a)),
                  p.Call(a, (p.If(a, b, c), b)), p.Call(a, (b, p.If(a, b, c))),
                  p.BitwiseAnd((a, p.BitwiseAnd((b, c)))), p.BitwiseAnd((p.BitwiseAnd((a, b)), c)),
                  p.LogicalAnd((a, p.LogicalAnd((b, c)))), p.Sum((a, p.Sum((b, c)))),
                  p.Product((p.Product((a, b)), c)), p.Power(1e-05, a), p.Power(a, 1e-05),
                  p.Lookup(-2.5, "real"), p.Sum((1e+20, a)), p.Product((a, 1e-05))]:
            yield {"expr": dumps(expr_to_sx(e)), "envs": envs_payload(rng, 1), "src": "directed"}

    def request(self, pl):
        return f"(c13-groups {pl['expr']})"

    def run_impl(self, pl):
        e = sx_to_expr(loads(pl["expr"]))
        try:
            src, how, _t = source_reading(e)
        except RecursionError:
            raise
        except Exception as ex:
            return f"(noprint {type(ex).__name__})"
        toks = py_tokens(src)
        ex = excused(src)
        return dumps([A("real"), A(how), src, A("none") if toks is None else [loads(t) for t in toks],
                      A("plain") if ex is None else A(ex)])

    def agree(self, model, impl, pl):
        m = loads(model)
        if not (isinstance(m, list) and m and m[0] == "groups") or impl.startswith("(noprint"):
            return "trivial"
        r = loads(impl)
        frag, msrc, mtoks, back = m[1], m[2], m[3], m[4]
        how, src, toks, shape = r[1], r[2], r[3], r[4]
        if msrc != src:
            return "diff"                      # the model's source text is the real one
        if toks != "none" and dumps(toks) != dumps(mtoks):
            return "diff"                      # CPython's tokenizer yields the model's token list
        if frag in ("in", "flat"):
            if how == "foreign":
                return "trivial"
            # the theorem's conclusion on the model, CPython's reading, and the text inside the
            # tied domain of the `py-table` stream
            return "ok" if (back == "same" and how == "same" and shape == "plain") else "diff"
        return "trivial"

    def oracle(self, pl):
        e = sx_to_expr(loads(pl["expr"]))
        if not misread(e):
            return None
        envs = [load_env(es) for es in pl["envs"]] + BOX
        # the smallest misread subterm whose misreading changes a value (children first)
        seen = set()
        for m in _postorder(e):
            if id(m) in seen or not misread(m):
                continue
            seen.add(id(m))
            srcm, howm, tm = source_reading(m)
            w = grouping_witness(m, tm, envs)
            if w is None:
                continue
            env_m, why_m, _ref = w
            key, small = grouping_key(m)
            srcs, hows, ts = source_reading(small)
            at = {n_: env_m[n_] for n_ in free_names(m)
                  if n_ in env_m and isinstance(env_m[n_], (int, float, Fraction, tuple))}
            return Failure(key, f"compile({small!r}) has the source {srcs!r}, which Python "
                           + ("rejects" if hows == "syntax" else f"reads as {ts!r}")
                           + f"; at {at!r} the compiled function"
                           + ("" if small is m else f" of {m!r}") + f" {why_m}",
                           {**pl, "expr": dumps(expr_to_sx(m)), "envs": [dumps(env_to_sx(env_m))]})
        return None                              # regrouped, but no value differs: nothing to report

    def shrink(self, pl):
        return ()

    def nontrivial_key(self, pl, model, impl):
        return pl["expr"] if model.startswith("(groups in") or model.startswith("(groups flat") else None

    def stats(self, pl, mo, io, acc):
        if mo is None or not mo.startswith("(groups"):
            acc["noclaim"] = acc.get("noclaim", 0) + 1
            return
        frag = mo.split(" ")[1]
        how = io.split(" ")[1] if io.startswith("(real") else "noprint"
        k = f"{frag}/{how}"
        acc[k] = acc.get(k, 0) + 1

# }}}


# {{{ T-gen: the table interpreters on the regenerated tables vs the real code

class TableRunStream(Stream):
    """The compiled table interpreters of lean/PV/Model/CodegenTable.lean run on the tables that
    extract/codegen.py regenerated from the source on THIS run, against the real code: ties the
    reader and the meaning of the handler languages to the code (the hand-written models are tied
    by the streams above and proved equal to these interpreters: PV.C13.*_eq_table_current).
    When an edit of the source breaks those theorems, this stream still agrees (the table follows
    the source) while the streams above report the disagreeing / failing input."""
    name = "table-run"

    def cases(self, rng, tier):
        n = 1 if tier == "quick" else 10
        # importer
        fa = FromAstStream()
        k = 0
        for pl in fa.cases(random.Random(rng.random()), "quick"):
            k += 1
            if pl["src"] in ("none-nodes",) or k % (4 if tier == "quick" else 1) == 0:
                yield {"kind": "fromast", "ast": pl["ast"]}
        # exporter
        for e in ALIAS:
            s = encodable(e)
            if s is not None:
                yield {"kind": "toast", "expr": s}
        for src, e in gen_exprs(rng, tier, 250 * n, 120 * n, two=(tier != "quick"), three=60 * n):
            s = encodable(e)
            if s is not None:
                yield {"kind": "toast", "expr": s}
        # compile: source, argument list, pickle round trip
        cs = CompileStream()
        k = 0
        for pl in cs.cases(random.Random(rng.random()), "quick"):
            k += 1
            if pl["src"] in ("directed", "context", "cse-directed") or k % (6 if tier == "quick" else 1) == 0:
                yield {"kind": "compile", "expr": pl["expr"], "listed": pl["listed"]}
        for names in (["a"], ["b", "a"], [], ["x_1", "x"]):
            yield {"kind": "lambda", "args": names + ["zz"], "body": "zz"}

    def request(self, pl):
        k = pl["kind"]
        if k == "fromast":
            return f"(c13t-fromast {pl['ast']})"
        if k == "toast":
            return f"(c13t-toast {pl['expr']})"
        if k == "compile":
            return f"(c13t-compile ({' '.join(q(n) for n in pl['listed'])}) {pl['expr']})"
        return f"(c13t-lambda ({' '.join(q(n) for n in pl['args'])}) {q(pl['body'])})"

    def run_impl(self, pl):
        k = pl["kind"]
        if k == "fromast":
            return FromAstStream.run_impl(self, pl)
        if k == "toast":
            return ToAstStream.run_impl(self, pl)
        if k == "compile":
            return CompileStream.run_impl(self, {**pl, "envs": [], "src": "table"})
        # the text handed to eval(): `_compile` looks `eval` up in its module globals first
        import pymbolic.compiler as pc
        from pymbolic import compile as pcompile
        seen = {}

        def spy(text, ctx):
            seen["text"] = text
            return eval(text, ctx)  # noqa: S307
        had = "eval" in pc.__dict__
        old = pc.__dict__.get("eval")
        pc.eval = spy
        try:
            pcompile(p.Variable(pl["body"]), list(pl["args"]))
        finally:
            if had:
                pc.eval = old
            else:
                del pc.eval
        return q(seen.get("text", ""))

    def agree(self, model, impl, pl):
        if pl["kind"] == "compile":
            return CompileStream().agree(model, impl, pl)
        return super().agree(model, impl, pl)

    def nontrivial_key(self, pl, model, impl):
        return pl["kind"] + "|" + (pl.get("expr") or pl.get("ast") or ",".join(pl.get("args", [])))

    def stats(self, pl, mo, io, acc):
        acc[pl["kind"]] = acc.get(pl["kind"], 0) + 1


def real_function_def(e):
    """the `ast.Module` to_evaluatable_python_function hands to `ast.unparse` (spied on), as
    (keyword-only names, other parameter names, returned expression)"""
    from pymbolic.interop.ast import to_evaluatable_python_function
    seen = {}
    orig = ast.unparse

    def spy(node):
        seen["mod"] = node
        return orig(node)
    ast.unparse = spy
    try:
        to_evaluatable_python_function(e, "fn")
    finally:
        ast.unparse = orig
    fd = seen["mod"].body[0]
    a = fd.args
    other = [x.arg for x in a.posonlyargs + a.args] + [x.arg for x in (a.vararg, a.kwarg) if x]
    ret = fd.body[0]
    if not (len(fd.body) == 1 and isinstance(ret, ast.Return)) or any(d is not None for d in a.kw_defaults):
        raise ValueError("unexpected function shape")
    return [x.arg for x in a.kwonlyargs], other, ret.value


class FunctionDefStream(Stream):
    """to_evaluatable_python_function() up to `ast.unparse`: the keyword-only parameter list and
    the returned AST vs the model `funcSigModel` (= the regenerated table, PV.C13.
    funcSig_eq_table_current); the table interpreter itself on every third case"""
    name = "function-def"

    def cases(self, rng, tier):
        n = 1 if tier == "quick" else 10
        k = 0
        for e in ALIAS:
            s = encodable(e)
            if s is not None:
                yield {"expr": s, "table": True}
        for src, e in gen_exprs(rng, tier, 350 * n, 150 * n, two=(tier != "quick"), three=60 * n):
            s = encodable(e)
            if s is not None:
                k += 1
                yield {"expr": s, "table": k % 3 == 0}

    def request(self, pl):
        return f"({'c13t-funcsig' if pl['table'] else 'c13-funcsig'} {pl['expr']})"

    def run_impl(self, pl):
        e = sx_to_expr(loads(pl["expr"]))
        try:
            kwonly, other, ret = real_function_def(e)
        except RecursionError:
            raise
        except Exception as ex:
            if "Unsupported" in type(ex).__name__:
                return "(err Unsupported)"
            return impl_exc(ex)
        if other:
            return f"(other-parameters {other})"
        return f"(sig ({' '.join(q(a) for a in kwonly)}) {dumps(ast_to_sx(ret))})"

    def nontrivial_key(self, pl, model, impl):
        return pl["expr"] if impl.startswith("(sig") else None

    def stats(self, pl, mo, io, acc):
        k = io.split(" ")[0] + (" " + io.split(" ")[1].rstrip(")") if io.startswith("(err") else "")
        acc[k] = acc.get(k, 0) + 1

# }}}


# {{{ histories: compiled objects over time (the caller's list changes later, equal-but-differently
#     typed expressions compiled in one process, pickle round trips in between)

def strict_same(a, b):
    """the same value AND the same kind of number (int / Fraction / float), floats up to the last
    bits (the generated code performs the same operations in the same order as the reference: the
    histories only hold trees without a sum directly below a sum / a product below a product)"""
    if type_class(a) != type_class(b):
        return False
    if isinstance(a, (tuple, list)):
        return len(a) == len(b) and all(strict_same(x, y) for x, y in zip(a, b))
    if isinstance(a, (float, complex)):
        if a != a or b != b:
            return (a != a) == (b != b)
        return a == b or abs(a - b) <= 1e-9 * max(abs(a), abs(b))
    return bool(a == b)


def judge_strict(ref, got):
    """`judge` for the number-only trees of the history streams: float results count too (an exact
    value where the evaluator computes a float, or the other way round, is another value)"""
    if ref[0] == "ok":
        if got[0] != "ok":
            return f"raises {got[1]} instead of returning {ref[1]!r}"
        if not strict_same(ref[1], got[1]):
            return f"returns {got[1]!r} instead of {ref[1]!r}"
        return None
    if ref[1] in ARITH:
        if got[0] == "ok":
            return f"returns {got[1]!r} instead of raising {ref[1]}"
        if got[1] != ref[1]:
            return f"raises {got[1]} instead of {ref[1]}"
    return None


def retype_literals(rng, e, rate=0.6):
    """a tree that pymbolic's `==` cannot tell from `e` (same hash as well) although Python can:
    number literals get another Python type of the same value (2 / 2.0, 1 / True / 1.0, 0 / False /
    0.0).  At least one literal is changed when there is one that can be."""
    import dataclasses
    changed = [False]

    def lit(c, force=False):
        if not (force or rng.random() < rate):
            return c
        if isinstance(c, bool):
            new = rng.choice([int(c), float(c)])
        elif isinstance(c, int):
            if abs(c) > 2 ** 50:
                return c
            new = float(c) if c not in (0, 1) or rng.random() < 0.6 else bool(c)
        elif isinstance(c, float) and c == int(c) and abs(c) < 2 ** 50:
            new = int(c) if c not in (0.0, 1.0) or rng.random() < 0.6 else bool(c)
        else:
            return c
        changed[0] = True
        return new

    def go(e, force=False):
        if isinstance(e, (bool, int, float)):
            return lit(e, force)
        if isinstance(e, tuple):
            return tuple(go(c, force) for c in e)
        if not isinstance(e, p.Expression) or not dataclasses.is_dataclass(e) or isinstance(e, p.Variable):
            return e
        kw = {}
        for f in dataclasses.fields(e):
            v = getattr(e, f.name)
            if f.name in ("name", "operator", "prefix", "scope"):
                kw[f.name] = v
            elif isinstance(v, (p.Expression, tuple, bool, int, float)):
                kw[f.name] = go(v, force)
            else:
                kw[f.name] = v
        return type(e)(**kw)
    r = go(e)
    if not changed[0]:
        r = go(e, force=True)
    return r


def history_names(rng, k):
    """k distinct identifiers, never a keyword or a name of the compile context; text order differs
    from numeric order (`y10` < `y2`), cases and underscores are mixed"""
    out = []
    while len(out) < k:
        n = rng.choice("abcdefghkmnpqrstuwxyzABXYZ_") + rng.choice(["", "_", "x", "Q"]) + str(rng.randint(0, 120))
        if n not in out:
            out.append(n)
    return out


class NumTreeGen:
    """number-only trees over given variables: + * / // % ** (constant exponent 2 / 3), conditionals
    on comparisons; a literal in most nodes; never a sum below a sum or a product below a product
    (the source text then groups exactly as the tree does, floats included); every variable also
    occurs with a weight of its own, so a misplaced argument changes the value"""
    LITS = [0, 1, 2, 3, 5, 7, 10, -1, -2, -3, 4, 6, 2.0, 0.5, -1.5, 1.0, True]

    def __init__(self, rng, names):
        self.rng, self.names = rng, names

    def leaf(self):
        r = self.rng
        return p.Variable(r.choice(self.names)) if r.random() < 0.55 else r.choice(self.LITS)

    def gen(self, d, parent=None):
        r = self.rng
        if d <= 0 or r.random() < 0.1:
            return self.leaf()
        kinds = ["Sum", "Product", "Quotient", "FloorDiv", "Remainder", "Power", "If"]
        k = r.choice([x for x in kinds if x != parent])
        if k in ("Sum", "Product"):
            kids = [self.gen(d - 1, k) for _ in range(r.randint(2, 3))]
            if r.random() < 0.7:
                kids.insert(r.randint(0, len(kids)), r.choice(self.LITS))
            return getattr(p, k)(tuple(kids))
        if k in ("Quotient", "FloorDiv", "Remainder"):
            a, b = self.gen(d - 1, k), self.gen(d - 1, k)
            if r.random() < 0.5:
                b = r.choice([c for c in self.LITS if c])
            return getattr(p, k)(a, b)
        if k == "Power":
            return p.Power(self.gen(d - 1, k), r.choice([2, 3, 2, 2.0]))
        cond = p.Comparison(self.gen(d - 1, k), r.choice(["<", "<=", ">", ">=", "==", "!="]), self.gen(d - 1, k))
        return p.If(cond, self.gen(d - 1, k), self.gen(d - 1, k))

    def program(self, d):
        terms = [p.Product((3 ** (i + 1), p.Variable(n))) for i, n in enumerate(self.names)]
        t = self.gen(d, "Sum")
        terms.insert(self.rng.randint(0, len(terms)), t)
        return p.Sum(tuple(terms))


def history_envs(rng, names):
    """one environment per kind of exact number: small ints, proper fractions, integers beyond 2**53
    (where float arithmetic rounds), a mix; pairwise distinct values"""
    k = len(names)
    small = rng.sample(range(-9, 12), k)
    fracs = [Fraction(2 * n + 1, d) for n, d in zip(rng.sample(range(-9, 12), k),
                                                    [rng.choice([2, 4, 8, 3, 7]) for _ in names])]
    bigs = rng.sample([2 ** 53 + 1, 2 ** 53 + 3, -(2 ** 53) - 1, 10 ** 30 + 7, 2 ** 64 + 1, 2 ** 63 - 1,
                       -(10 ** 20) - 3, 3 ** 40 + 2, 2 ** 55 + 5], k)
    mix = [rng.choice(c) for c in zip(small, fracs, bigs)]
    return [dumps(env_to_sx(dict(zip(names, vals)))) for vals in (small, fracs, bigs, mix)]


def _spare(names):
    return [n + "_unused" for n in names[:2]]


def random_mutation(rng, cur, names):
    """one in-place change of the caller's list that keeps its members distinct: [how, args…]"""
    absent = [n for n in names + _spare(names) if n not in cur]
    hows = ["reverse", "sort", "clear"] if len(cur) > 1 else []
    if cur:
        hows += ["pop", "pop", "remove"]
    if absent:
        hows += ["append", "append", "insert", "insert"]
        if cur:
            hows += ["setitem"]
    if not hows:
        return None
    how = rng.choice(hows)
    if how == "append":
        return [how, rng.choice(absent)]
    if how == "insert":
        return [how, rng.randint(0, len(cur)), rng.choice(absent)]
    if how == "setitem":
        return [how, rng.randrange(len(cur)), rng.choice(absent)]
    if how == "pop":
        return [how, rng.randrange(len(cur))]
    if how == "remove":
        return [how, rng.choice(cur)]
    return [how]


def apply_mutation(lst, m):
    how = m[0]
    if how == "append":
        lst.append(m[1])
    elif how == "insert":
        lst.insert(m[1], m[2])
    elif how == "setitem":
        lst[m[1]] = m[2]
    elif how == "pop":
        lst.pop(m[1])
    elif how == "remove":
        lst.remove(m[1])
    elif how == "reverse":
        lst.reverse()
    elif how == "sort":
        lst.sort()
    elif how == "clear":
        lst.clear()
    else:
        raise ValueError(how)


PASS_MODES = ("alias", "alias", "alias", "copy", "tuple", "iter", "vars")


class CompileHistoryStream(Stream):
    """A PROGRAM over compiled objects instead of one call: the caller keeps ONE list of leading
    argument names and goes on changing it (append / insert / pop / reverse / …) while building
    several compiled functions from it; expressions that pymbolic's `==` identifies but Python
    distinguishes (a literal 2 / 2.0 / True in the same place) are compiled one after the other in
    the same process; objects are pickled and unpickled in between (every protocol), and called
    any number of times, early or late.

    Oracle = the property's own words per compiled object: `compile(e, listed)` takes the variables
    LISTED WHEN compile() WAS CALLED first and the remaining free variables in name order, returns
    exactly what evaluating `e` gives (reference interpreter harness/oracles/pyeval.py; the kind of
    number counts: an exact result where the evaluator computes a float is another value) and
    behaves identically after a pickle round trip — whatever happened to the caller's list later
    and whatever else was compiled before.  Oracle only (the model has immutable values: there is
    nothing a later step could change)."""
    name = "compile-history"

    # ---- generators --------------------------------------------------------------------------
    @staticmethod
    def _payload(exprs, lists, steps, envs, src):
        return {"exprs": [dumps(expr_to_sx(e)) for e in exprs], "lists": lists, "steps": steps,
                "envs": envs, "src": src}

    def _calls(self, rng, fids, n_envs, k=2):
        return [["call", f, i] for f in fids for i in rng.sample(range(n_envs), min(k, n_envs))]

    def growing_list(self, rng):
        """one list grown (or emptied) step by step, one compiled function per step, everything
        called (directly / through pickle) only at the end"""
        names = history_names(rng, rng.randint(2, 4))
        e = NumTreeGen(rng, names).program(rng.randint(0, 2))
        order = rng.sample(names + _spare(names)[:1], rng.randint(2, len(names)))
        start = [] if rng.random() < 0.6 else [n for n in names if n not in order][:1]
        cur, steps, fids = list(start), [], []
        how = rng.choice(["append", "insert0", "mixed"])
        for i, n in enumerate(order):
            m = ["append", n] if how == "append" or (how == "mixed" and rng.random() < 0.5) \
                else ["insert", 0 if how == "insert0" else rng.randint(0, len(cur)), n]
            apply_mutation(cur, m)
            steps.append(["mutate", 0, *m])
            steps.append(["compile", i, 0, 0, rng.choice(["alias", "alias", "iter"])])
            fids.append(i)
        if rng.random() < 0.4:
            m = random_mutation(rng, cur, names)
            if m:
                steps.append(["mutate", 0, *m])
        if rng.random() < 0.5:
            nf = len(fids)
            for f in list(fids):
                if rng.random() < 0.7:
                    steps.append(["pickle", nf, f, rng.randint(0, pickle.HIGHEST_PROTOCOL)])
                    fids.append(nf)
                    nf += 1
        envs = history_envs(rng, names)
        steps += self._calls(rng, fids, len(envs))
        return self._payload([e], [start], steps, envs, "growing-list")

    def twins(self, rng):
        """every one-operator shape with a literal × every pair of Python types of that literal,
        compiled one after the other (both orders), with and without listed variables"""
        shapes = [lambda x, c: p.Sum((x, c)), lambda x, c: p.Sum((c, x)), lambda x, c: p.Product((x, c)),
                  lambda x, c: p.Quotient(x, c), lambda x, c: p.Quotient(c, x),
                  lambda x, c: p.FloorDiv(x, c), lambda x, c: p.Remainder(x, c),
                  lambda x, c: p.Power(x, c), lambda x, c: p.Power(c, p.Remainder(x, 3)),
                  lambda x, c: p.If(p.Comparison(x, "<", 0), c, x), lambda x, c: p.Min((x, c)),
                  lambda x, c: p.Max((c, x)), lambda x, c: p.Sum((p.Product((c, x)), p.Variable("y")))]
        for mk in shapes:
            for val in (rng.choice([2, 3, 5]), 1):
                variants = [val, float(val)] + ([True] if val == 1 else [])
                for c1, c2 in itertools.permutations(variants, 2):
                    x = history_names(rng, 1)[0]
                    es = [mk(p.Variable(x), c1), mk(p.Variable(x), c2)]
                    names = free_names(es[0])
                    listed = rng.choice([[], [names[-1]]])
                    steps = [["compile", 0, 0, 0, "copy"], ["compile", 1, 1, 0, "copy"]]
                    fids = [0, 1]
                    if rng.random() < 0.5:
                        steps.append(["pickle", 2, rng.choice([0, 1]), pickle.HIGHEST_PROTOCOL])
                        fids.append(2)
                    envs = history_envs(rng, names)
                    steps += self._calls(rng, fids, len(envs), k=4)
                    yield self._payload(es, [listed], steps, envs, "twins")

    def random_history(self, rng):
        names = history_names(rng, rng.randint(1, 4))
        g = NumTreeGen(rng, names)
        exprs = [g.program(rng.randint(1, 3))]
        for _ in range(rng.randint(1, 2)):
            exprs.append(retype_literals(rng, rng.choice(exprs)))
        if rng.random() < 0.4:
            exprs.append(g.program(rng.randint(0, 2)))
        lists = [rng.sample(names, rng.randint(0, len(names)))]
        if rng.random() < 0.3:
            lists.append(rng.sample(names + _spare(names), rng.randint(0, len(names))))
        cur = [list(l) for l in lists]
        envs = history_envs(rng, names)
        steps, fids = [], []
        for _ in range(rng.randint(5, 14)):
            k = rng.random()
            if k < 0.3 or not fids:
                steps.append(["compile", len(fids), rng.randrange(len(exprs)), rng.randrange(len(lists)),
                              rng.choice(PASS_MODES)])
                fids.append(len(fids))
            elif k < 0.55:
                j = rng.randrange(len(lists))
                m = random_mutation(rng, cur[j], names)
                if m:
                    apply_mutation(cur[j], m)
                    steps.append(["mutate", j, *m])
            elif k < 0.7:
                steps.append(["pickle", len(fids), rng.choice(fids), rng.randint(0, pickle.HIGHEST_PROTOCOL)])
                fids.append(len(fids))
            else:
                steps.append(["call", rng.choice(fids), rng.randrange(len(envs))])
        steps += self._calls(rng, fids, len(envs))
        return self._payload(exprs, lists, steps, envs, "random")

    def cases(self, rng, tier):
        n = 1 if tier == "quick" else 12
        for _ in range(150 * n):
            yield self.growing_list(rng)
        for _ in range(1 if tier == "quick" else 4):
            yield from self.twins(rng)
        for _ in range(700 * n):
            yield self.random_history(rng)

    # ---- correspondence: the argument names of the lambdas that really run vs `HState.run` --------
    def request(self, pl):
        def step(st):
            if st[0] == "mutate":
                return "(" + " ".join(["mutate", str(st[1]), st[2]]
                                      + [q(a) if isinstance(a, str) else str(a) for a in st[3:]]) + ")"
            if st[0] == "compile":
                return f"(compile {st[1]} {st[2]} {st[3]})"
            if st[0] == "pickle":
                return f"(pickle {st[1]} {st[2]})"
            return f"(call {st[1]})"
        lists = " ".join("(" + " ".join(q(n_) for n_ in l) + ")" for l in pl["lists"])
        return (f"(c13-history ({' '.join(pl['exprs'])}) ({lists}) "
                f"({' '.join(step(st) for st in pl['steps'])}))")

    def run_impl(self, pl):
        """every call step: the object is called (in the property's order) and the argument names
        of the lambda it then holds are recorded"""
        from pymbolic import compile as pcompile
        exprs = [sx_to_expr(loads(s)) for s in pl["exprs"]]
        envs = [load_env(s) for s in pl["envs"]]
        lists = [list(l) for l in pl["lists"]]
        fns: dict = {}
        seen = []
        for st in pl["steps"]:
            op = st[0]
            if op == "mutate":
                try:
                    apply_mutation(lists[st[1]], st[2:])
                except (IndexError, ValueError):
                    pass
            elif op == "compile":
                _op, fid, ei, lj, mode = st
                L = lists[lj]
                if fid in fns or len(set(L)) != len(L):
                    continue
                arg = {"alias": L, "copy": list(L), "tuple": tuple(L), "iter": iter(L),
                       "vars": [p.Variable(n_) for n_ in L]}[mode]
                try:
                    fns[fid] = (pcompile(exprs[ei], arg), ei, list(L))
                except RecursionError:
                    raise
                except Exception as ex:
                    seen.append(f"({fid} compile-raises {type(ex).__name__})")
            elif op == "pickle":
                _op, fid, src, proto = st
                if fid in fns or src not in fns:
                    continue
                try:
                    fns[fid] = (pickle.loads(pickle.dumps(fns[src][0], proto)),) + fns[src][1:]
                except RecursionError:
                    raise
                except Exception as ex:
                    seen.append(f"({fid} pickle-raises {type(ex).__name__})")
            else:
                _op, fid, envi = st
                if fid not in fns:
                    continue
                f, ei, snap = fns[fid]
                env = envs[envi]
                if is_safe(exprs[ei], env):
                    outcome(lambda: f(*[env.get(n_, 7) for n_ in expected_args(exprs[ei], snap)]))
                code = getattr(getattr(f, "_code", None), "__code__", None)
                if code is None:
                    seen.append(f"({fid} no-lambda)")
                else:
                    seen.append("(" + " ".join([str(fid)] + [q(a) for a in code.co_varnames[:code.co_argcount]]) + ")")
        return "(" + " ".join(["seen"] + seen) + ")"

    # ---- the history on the real code, judged step by step -----------------------------------
    @staticmethod
    def render(pl, upto=None):
        """the history as Python text"""
        out = [f"e{i} = {sx_to_expr(loads(s))!r}" for i, s in enumerate(pl["exprs"])]
        out += [f"L{j} = {list(l)!r}" for j, l in enumerate(pl["lists"])]
        wrap = {"alias": "L{0}", "copy": "list(L{0})", "tuple": "tuple(L{0})", "iter": "iter(L{0})",
                "vars": "[Variable(n) for n in L{0}]"}
        for i, st in enumerate(pl["steps"]):
            if upto is not None and i > upto:
                break
            if st[0] == "compile":
                out.append(f"f{st[1]} = compile(e{st[2]}, {wrap[st[4]].format(st[3])})")
            elif st[0] == "mutate":
                out.append(f"L{st[1]}.{st[2]}({', '.join(repr(a) for a in st[3:])})")
            elif st[0] == "pickle":
                out.append(f"f{st[1]} = pickle.loads(pickle.dumps(f{st[2]}, {st[3]}))")
            else:
                out.append(f"f{st[1]}(<env {st[2]}>)")
        return "; ".join(out)

    def simulate(self, pl):
        """None, or (step index, function id, circumstances, tail, what) of the first step at which
        a compiled object does not do what the property says.  `circumstances`: what the history
        before that step contains that could matter (read off the steps, nothing is executed
        for it)"""
        from pymbolic import compile as pcompile
        exprs = [sx_to_expr(loads(s)) for s in pl["exprs"]]
        envs = [load_env(s) for s in pl["envs"]]
        lists = [list(l) for l in pl["lists"]]
        fns: dict = {}           # id -> dict(f, ei, snap, lj, mode, born, pickled)
        compiled = []            # (step, ei, snapshot) of every compile step so far
        mutated: dict = {}       # list index -> steps at which it was changed

        def flags(fn, idx):
            fl = []
            if fn["mode"] in ("alias", "iter") and any(fn["born"] < s < idx for s in mutated.get(fn["lj"], [])):
                fl.append("listed-changed-after-compile")
            e = exprs[fn["ei"]]
            others = [(s, ei, snap) for s, ei, snap in compiled if s != fn["born"] and s < idx]
            if any(exprs[ei] == e and repr(exprs[ei]) != repr(e) for _s, ei, _n in others):
                fl.append("equal-expression-compiled-too")
            if any(repr(exprs[ei]) == repr(e) for _s, ei, snap in others):
                fl.append("same-expression-compiled-too")
            if fn["pickled"]:
                fl.append("pickled")
            return fl

        for idx, st in enumerate(pl["steps"]):
            op = st[0]
            if op == "mutate":
                if st[1] < len(lists):
                    try:
                        apply_mutation(lists[st[1]], st[2:])
                    except (IndexError, ValueError):
                        continue                     # (a shrunk history: the step no longer applies)
                    mutated.setdefault(st[1], []).append(idx)
            elif op == "compile":
                _op, fid, ei, lj, mode = st
                L = lists[lj]
                if fid in fns or len(set(L)) != len(L):
                    continue                     # (an id is bound once; no argument twice)
                snap = list(L)
                arg = {"alias": L, "copy": list(L), "tuple": tuple(L), "iter": iter(L),
                       "vars": [p.Variable(n_) for n_ in L]}[mode]
                fn = {"ei": ei, "snap": snap, "lj": lj, "mode": mode, "born": idx, "pickled": False}
                compiled.append((idx, ei, snap))
                try:
                    fn["f"] = pcompile(exprs[ei], arg)
                except Exception as ex:
                    return idx, fid, flags(fn, idx), ":compile-raises", \
                        f"compile(e{ei}, {snap!r}) raises {type(ex).__name__}: {ex}"
                fns[fid] = fn
            elif op == "pickle":
                _op, fid, src, proto = st
                if fid in fns or src not in fns:
                    continue
                fn = dict(fns[src], pickled=True)
                try:
                    fn["f"] = pickle.loads(pickle.dumps(fns[src]["f"], proto))
                except Exception as ex:
                    return idx, fid, flags(fn, idx), ":pickle-raises", \
                        f"pickling f{src} raises {type(ex).__name__}: {ex}"
                fns[fid] = fn
            elif op == "call":
                _op, fid, envi = st
                if fid not in fns:
                    continue
                fn, env = fns[fid], envs[envi]
                e = exprs[fn["ei"]]
                if not is_safe(e, env):
                    continue
                ref = outcome(lambda: pyeval(e, env))
                if ref[0] == "err" and ref[1] not in ARITH:
                    continue
                order = expected_args(e, fn["snap"])
                args = [env.get(n_, 7) for n_ in order]
                got = outcome(lambda: fn["f"](*args))
                why = judge_strict(ref, got)
                if why is not None:
                    at = dict(zip(order, args))
                    return idx, fid, flags(fn, idx), "", (
                        f"f{fid} = compile(e{fn['ei']}, {fn['snap']!r})"
                        + (" after a pickle round trip" if fn["pickled"] else "")
                        + f", called in the property's order {order!r} := {at!r}: {why}")
        return None

    # ---- which circumstance is the cause: the history re-run without it ---------------------------
    _fresh = 0

    @classmethod
    def renamed(cls, pl):
        """the same history over other variable names (one prefix for all: the text order of the
        names is unchanged), so that nothing compiled earlier in this process is met again"""
        import dataclasses
        cls._fresh += 1
        pre = f"r{cls._fresh}_"

        def go(e):
            if isinstance(e, p.Variable):
                return p.Variable(pre + e.name)
            if isinstance(e, tuple):
                return tuple(go(c) for c in e)
            if not isinstance(e, p.Expression) or not dataclasses.is_dataclass(e):
                return e
            return type(e)(**{f.name: go(getattr(e, f.name)) if f.name not in ("operator",) else
                              getattr(e, f.name) for f in dataclasses.fields(e)})
        steps = [[st[0], st[1], st[2], *[pre + a if isinstance(a, str) else a for a in st[3:]]]
                 if st[0] == "mutate" else list(st) for st in pl["steps"]]
        envs = [dumps(env_to_sx({pre + k: v for k, v in load_env(s).items()})) for s in pl["envs"]]
        return {**pl, "exprs": [dumps(expr_to_sx(go(sx_to_expr(loads(s))))) for s in pl["exprs"]],
                "lists": [[pre + n_ for n_ in l] for l in pl["lists"]], "steps": steps, "envs": envs}

    @staticmethod
    def without(pl, flag, fid):
        """the history with one circumstance taken away (the failing call stays the last step)"""
        steps = [list(st) for st in pl["steps"]]
        maker = {st[1]: st for st in steps if st[0] in ("compile", "pickle")}
        root = maker.get(fid)
        while root is not None and root[0] == "pickle":
            root = maker.get(root[2])
        if root is None:
            return None
        if flag == "listed-changed-after-compile":
            root[4] = "copy"
            return {**pl, "steps": steps}
        if flag == "pickled":
            if steps[-1][0] != "call":
                return None
            steps[-1][1] = root[1]
            return {**pl, "steps": steps}
        exprs = [sx_to_expr(loads(s)) for s in pl["exprs"]]
        e = exprs[root[2]]
        if flag == "equal-expression-compiled-too":
            drop = [st for st in steps if st[0] == "compile" and st is not root
                    and exprs[st[2]] == e and repr(exprs[st[2]]) != repr(e)]
        else:
            drop = [st for st in steps if st[0] == "compile" and st is not root
                    and repr(exprs[st[2]]) == repr(e)]
        return {**pl, "steps": [st for st in steps if not any(st is d for d in drop)]}

    def causes(self, cut, fid, flags):
        """the circumstances without which the failure disappears (each taken away on its own, in
        a copy of the history over fresh names); all of them when no single one is responsible or
        the failure does not reproduce in isolation"""
        try:
            base = self.renamed(cut)
            if self.simulate(base) is None:
                return flags + ["process-history"]
            out = []
            for fl in flags:
                cf = self.without(self.renamed(cut), fl, fid)
                if cf is not None and self.simulate(cf) is None:
                    out.append(fl)
            return out
        except RecursionError:
            raise
        except Exception:
            return flags

    def oracle(self, pl):
        r = self.simulate(pl)
        if r is None:
            return None
        idx, fid, flags, tail, what = r
        cut = {**pl, "steps": pl["steps"][:idx + 1]}
        causal = self.causes(cut, fid, flags)
        key = "compile-history:" + ("+".join(causal) or "plain") + tail
        return Failure(key, f"{what}.  History: {self.render(cut)}", cut)

    def shrink(self, pl):
        steps = pl["steps"]
        for i in range(len(steps) - 2, -1, -1):
            yield {**pl, "steps": steps[:i] + steps[i + 1:]}

    def nontrivial_key(self, pl, model, impl):
        return json_key(pl)

    def stats(self, pl, mo, io, acc):
        acc[pl["src"]] = acc.get(pl["src"], 0) + 1
        for st in pl["steps"]:
            acc["step:" + st[0]] = acc.get("step:" + st[0], 0) + 1


def json_key(pl):
    import json
    return json.dumps([pl["exprs"], pl["lists"], pl["steps"]])

# }}}


def probes():
    from pymbolic import compile as pcompile, evaluate
    from pymbolic.interop.ast import (ASTToPymbolic, to_evaluatable_python_function,
                                      to_python_ast)
    a, b, c, f = (p.Variable(n) for n in "abcf")
    res = []

    def attempt(key, fn, detail):
        """fn() -> True when the defect is present"""
        try:
            bad = bool(fn())
            res.append((key, bad, detail))
        except Exception as ex:
            res.append((key, True, f"{detail}: {type(ex).__name__}: {ex}"))

    # repaired defects: must stay repaired
    attempt("compile-sorts-variables", lambda: pcompile(p.Sum((p.Product((2, c)), b, a)))(1, 2, 3) != 9,
            "compile(2*c + b + a) with three unlisted variables")
    attempt("ast-right-shift", lambda: run_ast(to_python_ast(p.RightShift(a, b)), {"a": 12, "b": 2}) != 3,
            "to_python_ast(RightShift(a, b))")
    attempt("ast-import-invert",
            lambda: ASTToPymbolic()(ast.parse("~a", mode="eval").body) != p.BitwiseNot(a),
            "ASTToPymbolic('~a')")
    attempt("ast-import-bitwise",
            lambda: [ASTToPymbolic()(ast.parse(s, mode="eval").body) for s in ("a | b", "a ^ b", "a & b")]
            != [p.BitwiseOr((a, b)), p.BitwiseXor((a, b)), p.BitwiseAnd((a, b))],
            "ASTToPymbolic('a | b', 'a ^ b', 'a & b')")
    attempt("ast-negative-constant",
            lambda: eval(ast.unparse(to_python_ast(p.Power(-2, a))), {"a": 2}) != 4,  # noqa: S307
            "ast.unparse(to_python_ast(Power(-2, a))) at a = 2")

    def fsrc():
        e = p.Sum((p.Call(f, (a,)), p.Subscript(b, c)))
        ns: dict = {}
        exec(to_evaluatable_python_function(e, "fn"), ns)  # noqa: S102
        return ns["fn"](a=1, b=(5, 7), c=1, f=lambda t: t + 10) != 18
    attempt("function-source-composite-leaves", fsrc,
            "to_evaluatable_python_function(f(a) + b[c])")
    attempt("compile-power-base", lambda: pcompile(p.Power(p.Power(a, b), c))(2, 3, 2) != 64,
            "compile(Power(Power(a, b), c))(2, 3, 2)")
    nested = p.Comparison(p.Comparison(a, "<", b), "<", c)
    attempt("compile-nested-comparison",
            lambda: pcompile(nested)(3, 2, 5) != evaluate(nested, {"a": 3, "b": 2, "c": 5}),
            "compile(Comparison(Comparison(a, '<', b), '<', c))(3, 2, 5)")

    attempt("compile:Power>negative-int", lambda: pcompile(p.Power(-2, a))(2) != 4,
            "compile(Power(-2, a))(2): a negative constant base of a power must be parenthesised")
    attempt("compile:Power>negative-float", lambda: pcompile(p.Power(-2.5, a))(2) != 6.25,
            "compile(Power(-2.5, a))(2)")

    C = p.CommonSubexpression
    attempt("compile:CommonSubexpression",
            lambda: [pcompile(C(a))(2), pcompile(C(C(p.Sum((a, 1)), "t")))(2),
                     pickle.loads(pickle.dumps(pcompile(p.Product((C(p.Sum((a, b))), C(a, "u"))))))(2, 3)]
            != [2, 3, 10],
            "compile(CommonSubexpression(a))(2), nested / prefixed / pickled wrappers")
    attempt("compile:CommonSubexpression",
            lambda: [pcompile(p.Quotient(c, C(p.Product((a, b)))))(2, 3, 12),
                     pcompile(p.Product((c, C(p.FloorDiv(a, b)))))(7, 2, 12),
                     pcompile(p.FloorDiv(c, C(C(p.Remainder(a, b), "t"))))(7, 2, 12)] != [2, 36, 12],
            "wrappers around products / divisions where the printer forces parentheses: "
            "compile(Quotient(c, CSE(a*b)))(2, 3, 12) must be 2 (source 'c / (a*b)')")

    # open findings (listed in known_findings.C13.jsonl): replayed through the oracle
    cs = CompileStream()
    for e in [p.Comparison(p.LogicalNot(a), "==", b), p.Product((a, p.LogicalNot(b))),
              p.Sum((p.LogicalNot(a), b)), p.BitwiseNot(p.LogicalNot(a)),
              p.LogicalAnd((a, b)), p.LogicalOr((a, b))]:
        pl = {"expr": dumps(expr_to_sx(e)), "listed": [], "src": "probe",
              "envs": [dumps(env_to_sx({"a": 2, "b": 3})), dumps(env_to_sx({"a": False, "b": False})),
                       dumps(env_to_sx({"a": True, "b": 0}))]}
        fl = cs.oracle(pl)
        if fl is not None:
            res.append((fl.key, True, fl.detail))
    sg = SourceGroupsStream()
    for e in [p.Comparison(p.LogicalNot(a), "==", b), p.BitwiseNot(p.LogicalNot(a))]:
        pl = {"expr": dumps(expr_to_sx(e)), "src": "probe", "envs": [dumps(env_to_sx({"a": 2, "b": 3}))]}
        fl = sg.oracle(pl)
        if fl is not None:
            res.append((fl.key, True, fl.detail))
    ts = ToAstStream()
    for e in [p.LogicalAnd((a, b)), p.LogicalOr((a, b))]:
        pl = {"expr": dumps(expr_to_sx(e)), "src": "probe",
              "envs": [dumps(env_to_sx({"a": 2, "b": 3})), dumps(env_to_sx({"a": 0, "b": 0}))]}
        fl = ts.oracle(pl)
        if fl is not None:
            res.append((fl.key, True, fl.detail))
    return res


PROP = Prop(
    id="C13",
    title="Generated Python code computes what the evaluator computes",
    lean_targets=["PV.Properties.C13", "PV.Properties.C13Table", "PV.Properties.C13History"],
    partial={"PV.C13.toAst_run_value_partial":
             "executing the generated AST equals the evaluator on the fragment AstOk: or/and need "
             "two or more boolean operands (Python returns an operand; a one-value BoolOp is "
             "rejected by CPython), a one-operand sum/product must not be a bool, operands of + * "
             "are exact numbers and of | ^ & ints/bools (else a different error can surface); "
             "keyword calls, floats, slices: executing oracle only",
             "PV.C13.compile_source_groups_partial":
             "the compiled SOURCE TEXT (= the stringifier's text of the tree without its "
             "CommonSubexpression wrappers, since the repairs of CompileMapper.map_constant and of "
             "its wrapper handlers: compile_text_is_str, on cseShapeOk: no wrapper directly around a "
             "tuple index or a None slice part) groups, under any parser table, the way the "
             "wrapper-free tree does (which has the tree's value: strip_cse_value) on the decidable "
             "fragment InFragment of C06 (covered node shapes: "
             "n-ary | ^ & and or with two operands, sums/products with two or more; every child "
             "passes the local condition; source_bad_pairs_current lists the 40 failing (position, "
             "child class) pairs for the Python table: the known findings "
             "compile:<Parent>>LogicalNot, plus value-preserving regroupings and limits of the "
             "parser scheme).  Python's grammar itself is the hand-written table PV.C13.pythonPrec, "
             "tied to CPython's ast.parse by the stream py-table outside four excluded shapes "
             "(comparison chains, `not` before a tighter operator, `*` followed by `/ // %`, an "
             "else-branch followed by `,` or `:`), none of which occurs in a source of the fragment "
             "(checked per case by the stream source-groups).  What the grouped operators COMPUTE "
             "(and/or returning operands, min/max) stays with the executing oracle",
             "PV.C13.compile_source_groups_flat_partial": "the same with nested sums and products"},
    extractors=[extract],
    streams=[CompileStream(), ArgOrderStream(), ToAstStream(), FunctionSourceStream(),
             RoundTripStream(), FromAstStream(), DenAstStream(), PyTableStream(),
             SourceGroupsStream(), TableRunStream(), FunctionDefStream(), CompileHistoryStream(),
             SignatureStream()],
    probes=[probes],
    trusted_base=["Lean 4.33 kernel; axioms propext, Classical.choice, Quot.sound only",
                  "CPython (eval, compile, ast.unparse, pickle) executes the generated programs: "
                  "tied by running them, not modelled (the model's meaning of an AST, denAst, is "
                  "compared with CPython on every run)",
                  "Python's expression grammar = the parser model of C06/C07 run with the hand-written "
                  "table PV.C13.pythonPrec: tied to CPython's tokenizer and ast.parse on every run "
                  "(streams py-table, source-groups; converter harness/props/c07.py: py_tree)",
                  "harness/oracles/pyeval.py (independent reference interpreter)",
                  "extract/prec.py (stringifier precedences read from the live module)",
                  "extract/codegen.py (ast reader of pymbolic/interop/ast.py and pymbolic/compiler.py: "
                  "operator dictionaries, handler bodies, the class body of CompileMapper, "
                  "CompiledExpression statement by statement; unknown shapes are errors) and the "
                  "meaning of its table languages (lean/PV/Model/CodegenTable.lean): tied to the real "
                  "code by the streams table-run and function-def on every run"],
    assumptions=["exact environments (int, bool, Fraction, tuples, uninterpreted functions); "
                 "results involving floats are not compared",
                 "a path that refuses an expression by raising (NotImplementedError, invalid "
                 "foreign object, unhashable list) is not counted as a wrong program",
                 "when the reference raises a non-arithmetic error (TypeError, …) nothing is "
                 "demanded of the generated code"],
    level_text="Lean theorems: executing the generated Python AST equals the evaluator, value or "
               "error (toAst_value, toAst_run_value_partial); importing it back gives the tree "
               "(fromAst_toAst, nary_roundtrip); compile() takes the listed variables first and the "
               "remaining free variables in name order for any number of them (arg_order_spec, "
               "listed_first, perm, compile_args) and is unchanged by a pickle round trip (pickle_same); "
               "the compiled SOURCE TEXT is the stringifier's text of the wrapper-free tree "
               "(compile_printer_strips_cse, strip_cse_value) and, read under Python's own precedence "
               "table, groups as the tree does on the decidable fragment InFragmentPy "
               "(compile_source_groups_partial / _current; exactly 40 bad (position, child) pairs = "
               "known findings and listed non-defects). T-gen: operator maps, every handler of "
               "PymbolicToASTMapper / ASTToPymbolic, CompileMapper overrides and the "
               "CompiledExpression protocol are re-read from the source on every run and the models "
               "are proved equal to the table interpreters (toAst/fromAst/compileModel_eq_table_current).",
    level_note="Partial: what and/or/min/max compute on the source path, n-ary | ^ & and or with != 2 "
               "operands, keyword calls / floats / slices on the AST path are judged by executing "
               "oracles only (CPython eval/exec of the generated code). Trusted: Lean kernel; CPython's "
               "ast constructors and ast.unparse; the reader extract/codegen.py (tied by table-run).",
    technique="Lean 4 proofs about AST export/import and compile models + regenerated handler tables with "
              "interpreter-equals-model theorems + Python precedence table (decide) + differential "
              "correspondence with CPython eval/exec as executing oracle",
    design_ref="DESIGN.md §4 C13",
)

PROP.level_note += ' Sixth seeded round: the guarded family also puts the SAME wrapper object into several parts of a conditional / and / or (evaluation order differs from text order), and function-source-signature checks that helper names of the generated body (float of a typed NaN) never become parameters.'
