"""C13 — generated Python code computes what the evaluator computes.

Four translation paths: compile (source text + argument list + pickling), expression → Python AST,
expression → source of a keyword-only function, Python AST → expression.

Correspondence: the compiled SOURCE and ARGUMENT LIST, the AST, the imported expression and the
meaning of an AST (`denAst`) against the Lean models of lean/PV/Model/Compile.lean.
Oracles: every generated program is EXECUTED by CPython on exact environments and compared with the
independent reference interpreter harness/oracles/pyeval.py.
"""
from __future__ import annotations

import ast
import itertools
import pickle
import random
import re
import warnings
from fractions import Fraction

import pymbolic.primitives as p

from ..core import Failure, Prop, Stream
from ..gen import ExprGen, rand_env, size
from ..oracles import scan
from ..oracles.pyeval import is_safe, outcome, pyeval
from ..sexp import (A, Atom, App, Unencodable, dumps, env_to_sx, exc_to_sx,
                    expr_to_sx, loads, q, sx_shrinks, sx_to_env, sx_to_expr, value_to_sx)
from ..syntax import SyntaxGen, three_level, two_level
from .c06 import extract, kind, minimal_failing_subterm, syntax_children

warnings.filterwarnings("ignore", category=SyntaxWarning)
warnings.filterwarnings("ignore", category=DeprecationWarning)

# {{{ Python ast <-> wire format

_BIN = {ast.Add: "Add", ast.Sub: "Sub", ast.Mult: "Mult", ast.MatMult: "MatMult", ast.Div: "Div",
        ast.FloorDiv: "FloorDiv", ast.Mod: "Mod", ast.Pow: "Pow", ast.LShift: "LShift",
        ast.RShift: "RShift", ast.BitOr: "BitOr", ast.BitXor: "BitXor", ast.BitAnd: "BitAnd"}
_UN = {ast.Invert: "Invert", ast.Not: "Not", ast.USub: "USub", ast.UAdd: "UAdd"}
_CMP = {ast.Eq: "==", ast.NotEq: "!=", ast.Lt: "<", ast.LtE: "<=", ast.Gt: ">", ast.GtE: ">="}
_BIN_R = {v: k for k, v in _BIN.items()}
_UN_R = {v: k for k, v in _UN.items()}
_CMP_R = {v: k for k, v in _CMP.items()}


def ast_to_sx(n):
    """wire form of a Python expression AST (generic: node class names and fields only)"""
    if n is None:
        return A("nil")
    if isinstance(n, ast.Constant):
        v = n.value
        if v is None or isinstance(v, (bool, int, float, str)):
            return [A("Constant"), expr_to_sx(v)]
        raise Unencodable(type(v))
    if isinstance(n, ast.Name):
        return [A("Name"), n.id]
    if isinstance(n, ast.BinOp):
        return [A("BinOp"), ast_to_sx(n.left), A(_BIN[type(n.op)]), ast_to_sx(n.right)]
    if isinstance(n, ast.UnaryOp):
        return [A("UnaryOp"), A(_UN[type(n.op)]), ast_to_sx(n.operand)]
    if isinstance(n, ast.BoolOp):
        return [A("BoolOp"), A("Or" if isinstance(n.op, ast.Or) else "And"),
                *[ast_to_sx(v) for v in n.values]]
    if isinstance(n, ast.IfExp):
        return [A("IfExp"), ast_to_sx(n.test), ast_to_sx(n.body), ast_to_sx(n.orelse)]
    if isinstance(n, ast.Compare):
        if any(type(o) not in _CMP for o in n.ops):
            raise Unencodable("cmpop")
        return [A("Compare"), ast_to_sx(n.left), [_CMP[type(o)] for o in n.ops],
                [ast_to_sx(c) for c in n.comparators]]
    if isinstance(n, ast.Call):
        if any(isinstance(a, ast.Starred) for a in n.args) or any(k.arg is None for k in n.keywords):
            raise Unencodable("star")
        return [A("Call"), ast_to_sx(n.func), [ast_to_sx(a) for a in n.args],
                [[k.arg, ast_to_sx(k.value)] for k in n.keywords]]
    if isinstance(n, ast.Attribute):
        return [A("Attribute"), ast_to_sx(n.value), n.attr]
    if isinstance(n, ast.Subscript):
        return [A("Subscript"), ast_to_sx(n.value), ast_to_sx(n.slice)]
    if isinstance(n, ast.Tuple):
        return [A("Tuple"), *[ast_to_sx(c) for c in n.elts]]
    if isinstance(n, ast.List):
        return [A("List"), *[ast_to_sx(c) for c in n.elts]]
    if isinstance(n, ast.Slice):
        parts = [getattr(n, "lower", None), getattr(n, "upper", None), getattr(n, "step", None)]
        while parts and parts[-1] is None:
            parts.pop()
        return [A("Slice"), *[ast_to_sx(c) for c in parts]]
    raise Unencodable(type(n))


def sx_to_ast(s):
    """a fresh, executable Python AST (Load contexts filled in)"""
    if isinstance(s, Atom):
        assert s == "nil"
        return None
    h = s[0]
    L = ast.Load()
    if h == "Constant":
        return ast.Constant(sx_to_expr(s[1]))
    if h == "Name":
        return ast.Name(id=s[1], ctx=L)
    if h == "BinOp":
        return ast.BinOp(sx_to_ast(s[1]), _BIN_R[s[2]](), sx_to_ast(s[3]))
    if h == "UnaryOp":
        return ast.UnaryOp(_UN_R[s[1]](), sx_to_ast(s[2]))
    if h == "BoolOp":
        return ast.BoolOp(ast.Or() if s[1] == "Or" else ast.And(), [sx_to_ast(c) for c in s[2:]])
    if h == "IfExp":
        return ast.IfExp(sx_to_ast(s[1]), sx_to_ast(s[2]), sx_to_ast(s[3]))
    if h == "Compare":
        return ast.Compare(sx_to_ast(s[1]), [_CMP_R[o]() for o in s[2]], [sx_to_ast(c) for c in s[3]])
    if h == "Call":
        return ast.Call(sx_to_ast(s[1]), [sx_to_ast(c) for c in s[2]],
                        [ast.keyword(arg=k, value=sx_to_ast(v)) for k, v in s[3]])
    if h == "Attribute":
        return ast.Attribute(sx_to_ast(s[1]), s[2], L)
    if h == "Subscript":
        return ast.Subscript(sx_to_ast(s[1]), sx_to_ast(s[2]), L)
    if h == "Tuple":
        return ast.Tuple([sx_to_ast(c) for c in s[1:]], L)
    if h == "List":
        return ast.List([sx_to_ast(c) for c in s[1:]], L)
    if h == "Slice":
        parts = [sx_to_ast(c) for c in s[1:]] + [None] * 3
        return ast.Slice(parts[0], parts[1], parts[2])
    raise ValueError(h)


class InvalidAst(Exception):
    """CPython's validator rejects the AST (before anything is evaluated)"""


def run_ast(node, env):
    """CPython's value of an expression AST (a fresh executable copy is made through the wire form,
    so shared / context-less nodes of the mapper's output are no obstacle)"""
    tree = ast.Expression(body=sx_to_ast(loads(dumps(ast_to_sx(node)))))
    try:
        code = compile(ast.fix_missing_locations(tree), "<c13-ast>", "eval")
    except (ValueError, TypeError) as ex:
        raise InvalidAst(str(ex)) from None
    return eval(code, {"__builtins__": {}}, dict(env))  # noqa: S307

# }}}


# {{{ environments, reference, comparison

GENERIC_INT = ["a", "a1", "x1", "foo", "d", "e", "k", "l", "u", "w", "z9", "q8", "h", "o", "p", "s",
               "B", "Z", "_c", "ab", "aa", "A", "_", "a_b", "b2"] + [f"q{i}" for i in range(12)]


def env_for(rng: random.Random, tuples=True):
    """exact values only: ints, Fractions, bools, tuples of them, environment functions, a record"""
    env = rand_env(rng)
    for n in GENERIC_INT:
        env[n] = rng.randint(-4, 5)
    env["v"] = tuple(rng.randint(-3, 3) for _ in range(3))
    return env


def _box():
    """fixed environments used to classify a failure: random ones, and uniform ones (every number
    the same value) so that accidental agreements such as `False == 0` do not hide a shape"""
    box = [env_for(random.Random(1000 + k)) for k in range(6)]
    for val in (0, 1, 2, -1, 3, Fraction(1, 2)):
        env = dict(box[0])
        for k, v in env.items():
            if isinstance(v, bool):
                env[k] = bool(val)
            elif isinstance(v, (int, Fraction)):
                env[k] = val if k not in ("i", "j", "n", "m") or isinstance(val, int) else 1
        box.append(env)
    return box


BOX = _box()


def free_names(e):
    """variable names of an expression by an independent scan (calls, subscripts, lookups entered)"""
    return sorted({v.name for v in scan.dependencies(e, subscripts=False, lookups=False,
                                                     calls=False, cses=False)})


def has_float(v):
    if isinstance(v, (float, complex)):
        return True
    if isinstance(v, (tuple, list)):
        return any(has_float(c) for c in v)
    if isinstance(v, App):
        return has_float(v.args) or any(has_float(c) for c in v.kw.values())
    return False


def float_involved(e, env):
    """outside exact arithmetic: some subterm is a float constant or evaluates (in the reference) to
    a float, or a sum / product has a sequence operand (repetition `n * tuple` is not associative
    for negative n; PyNum makes no claim about sequence arithmetic either)"""
    for s in scan.subterms(e):
        if isinstance(s, (float, complex)):
            return True
        if isinstance(s, (p.Expression, tuple)):
            o = outcome(lambda s=s: pyeval(s, env))
            if o[0] == "ok" and has_float(o[1]):
                return True
            if o[0] == "err" and o[1] == "OverflowError":
                return True
            if isinstance(s, (p.Sum, p.Product)) and o[0] == "ok" and isinstance(o[1], (tuple, list, str)):
                return True
    return False


def type_class(v):
    if isinstance(v, (bool, int)):
        return "int"
    return type(v).__name__


def same_exact(a, b):
    """== and the same type class (bool and int are one class), recursively"""
    if type_class(a) != type_class(b):
        return False
    if isinstance(a, (tuple, list)):
        return len(a) == len(b) and all(same_exact(x, y) for x, y in zip(a, b))
    if isinstance(a, App):
        return (a.f == b.f and same_exact(a.args, b.args) and a.kw.keys() == b.kw.keys()
                and all(same_exact(a.kw[k], b.kw[k]) for k in a.kw))
    return bool(a == b)


ARITH = ("ZeroDivisionError", "OverflowError")


def judge(ref, got):
    """None when the generated code did what the property demands given the reference outcome,
    else a short description.  The property speaks about values and arithmetic errors only: when
    the reference raises anything else (TypeError, …) nothing is demanded."""
    if ref[0] == "ok":
        if got[0] != "ok":
            return f"raises {got[1]} instead of returning {ref[1]!r}"
        if has_float(ref[1]) or has_float(got[1]):
            return None
        if not same_exact(ref[1], got[1]):
            return f"returns {got[1]!r} instead of {ref[1]!r}"
        return None
    if ref[1] in ARITH:
        if got[0] == "ok":
            return f"returns {got[1]!r} instead of raising {ref[1]}"
        if got[1] != ref[1]:
            return f"raises {got[1]} instead of {ref[1]}"
    return None


def check_path(run, e, env, syntax_fails=False):
    """`run(e, env)` executes one translation path; compare with the reference interpreter.
    `syntax_fails` (classification only): a program that does not parse counts whatever the
    reference does"""
    if not is_safe(e, env):
        return None
    ref = outcome(lambda: pyeval(e, env))
    if ref[0] == "err" and ref[1] in ("Unsupported", "UnknownVariable", "RecursionError"):
        return None
    got = outcome(lambda: run(e, env))
    if got[0] == "err" and got[1] == "Refused":
        return None
    if syntax_fails and got[0] == "err" and got[1] in ("SyntaxError", "InvalidAst"):
        return "does not parse"
    why = judge(ref, got)
    if why is not None and float_involved(e, env):
        return None
    return why


class Refused(Exception):
    """the path declined to translate (reported by raising): not a wrong program"""


def _refusal(ex):
    return isinstance(ex, (NotImplementedError, AssertionError)) or (
        isinstance(ex, ValueError) and "invalid foreign object" in str(ex)) or (
        isinstance(ex, TypeError) and "unhashable" in str(ex)) or isinstance(ex, IndexError)


# }}}


# {{{ the four paths (real code)

def expected_args(e, listed):
    """the property's argument order, from an independent scan"""
    names = free_names(e)
    return list(listed) + sorted(n for n in names if n not in listed and n not in ("math", "numpy"))


def run_compiled(e, env, listed=(), pickled=False):
    from pymbolic import compile as pcompile
    try:
        f = pcompile(e, list(listed))
    except SyntaxError:
        raise
    except Exception as ex:
        if _refusal(ex):
            raise Refused from None
        raise
    if pickled:
        f = pickle.loads(pickle.dumps(f))
    return f(*[env[n] if n in free_names(e) else 7 for n in expected_args(e, listed)])


def real_ast(e):
    from pymbolic.interop.ast import to_python_ast
    try:
        return to_python_ast(e)
    except Exception as ex:
        if _refusal(ex):
            raise Refused from None
        raise


def run_to_ast(e, env):
    return run_ast(real_ast(e), env)


def run_function_source(e, env):
    from pymbolic.interop.ast import to_evaluatable_python_function
    try:
        src = to_evaluatable_python_function(e, "fn")
    except Exception as ex:
        if _refusal(ex):
            raise Refused from None
        raise
    ns: dict = {}
    exec(src, ns)  # noqa: S102
    return ns["fn"](**{n: env[n] for n in free_names(e)})


def run_roundtrip(e, env):
    from pymbolic.interop.ast import ASTToPymbolic
    node = real_ast(e)
    try:
        back = ASTToPymbolic()(node)
    except NotImplementedError:
        raise Refused from None
    return pyeval(back, env)


# }}}


# {{{ classification by the smallest failing (parent, child) shape

def path_fails(run, extra_envs=()):
    def fails(s):
        if not isinstance(s, (p.Expression, tuple)):
            return False
        for env in list(extra_envs) + BOX:
            try:
                if check_path(run, s, env, syntax_fails=True) is not None:
                    return True
            except RecursionError:
                raise
            except Exception:
                return True
        return False
    return fails


def checked(run, e, env):
    return check_path(run, e, env)


def _fields(e):
    import dataclasses
    if isinstance(e, (tuple, list)):
        return [(None, e)]
    if isinstance(e, p.Expression) and dataclasses.is_dataclass(e):
        return [(f.name, getattr(e, f.name)) for f in dataclasses.fields(e)]
    return []


def edges(e, depth=0, path=()):
    """(depth, path, parent, child) for every expression-valued child position, all depths;
    a path is a tuple of steps (field name or None, index / key or None)"""
    for name, v in _fields(e):
        if isinstance(e, (tuple, list)):
            items = [((None, i), c) for i, c in enumerate(e)]
        elif isinstance(v, str) or v is None:
            continue
        elif isinstance(v, tuple) and name in ("children", "parameters", "values"):
            items = [((name, i), c) for i, c in enumerate(v)]
        elif hasattr(v, "items"):
            items = [((name, k), c) for k, c in v.items()]
        elif isinstance(e, (p.CommonSubexpression, p.Comparison, p.Lookup)) and name in (
                "prefix", "scope", "operator", "name"):
            continue
        elif isinstance(e, (p.Substitution, p.Derivative)) and name == "variables":
            continue
        else:
            items = [((name, None), v)]
        for step, c in items:
            if c is None:
                continue
            yield depth, path + (step,), e, c
            if isinstance(c, (p.Expression, tuple, list)):
                yield from edges(c, depth + 1, path + (step,))


def replace_at(e, path, new):
    if not path:
        return new
    (name, idx), rest = path[0], path[1:]
    if isinstance(e, (tuple, list)):
        return type(e)(replace_at(c, rest, new) if i == idx else c for i, c in enumerate(e))
    import dataclasses
    kw = {f.name: getattr(e, f.name) for f in dataclasses.fields(e)}
    v = kw[name]
    if idx is None:
        kw[name] = replace_at(v, rest, new)
    elif isinstance(v, tuple):
        kw[name] = tuple(replace_at(c, rest, new) if i == idx else c for i, c in enumerate(v))
    else:
        kw[name] = {k: (replace_at(c, rest, new) if k == idx else c) for k, c in v.items()}
    return type(e)(**kw)


NARY = (p.Sum, p.Product, p.BitwiseOr, p.BitwiseXor, p.BitwiseAnd, p.LogicalOr, p.LogicalAnd,
        p.Min, p.Max)


def child_name(c):
    neg = isinstance(c, (int, float)) and not isinstance(c, bool) and c < 0
    return ("negative-" if neg else "") + kind(c)


def few(m):
    return f"[n={len(m.children)}]" if isinstance(m, NARY) and len(m.children) < 2 else ""


def _composite(c):
    return isinstance(c, (p.Expression, tuple, list)) and not isinstance(c, p.Variable)


def blame_chain(m, fails):
    """Walk down from the failing tree `m`: at each node replace its composite children by plain
    variables; if the failure stays it is this node's own (a constant child whose replacement
    repairs it is named); otherwise descend into the first child whose presence alone (siblings
    still replaced) brings the failure back.  Returns the list of names along the walk."""
    cur, at, node = m, (), m
    chain = [kind(m) + few(m)]
    for _ in range(40):
        direct = [(path, c) for depth, path, _par, c in edges(node) if depth == 0]
        kids = [(path, c) for path, c in direct if _composite(c)]
        bare = cur
        for i, (path, _c) in enumerate(kids):
            bare = replace_at(bare, at + path, p.Variable(f"q{i}"))
        try:
            own = fails(bare)
        except RecursionError:
            raise
        except Exception:
            own = True
        if own:
            for path, c in direct:
                if _composite(c) or isinstance(c, p.Variable):
                    continue
                try:
                    if not fails(replace_at(bare, at + path, p.Variable("q11"))):
                        chain.append(child_name(c))
                        break
                except Exception:
                    pass
            return chain
        nxt = None
        for path, c in kids:
            t = replace_at(bare, at + path, c)
            try:
                if fails(t):
                    nxt = (path, c, t)
                    break
            except RecursionError:
                raise
            except Exception:
                nxt = (path, c, t)
                break
        if nxt is None:
            if kids:
                chain.append(",".join(sorted({kind(c) for _p, c in kids})))
            return chain
        path, c, cur = nxt
        at, node = at + path, c
        chain.append(kind(c) + few(c))
    return chain


def classify(prefix, run, e, env):
    fails = path_fails(run, [env])
    m = minimal_failing_subterm(e, fails)
    if m is None:
        return f"{prefix}:{kind(e)}", e
    chain = blame_chain(m, fails)
    if len(chain) == 1:
        return f"{prefix}:{chain[0]}", m
    return f"{prefix}:" + ">".join(c.split("[")[0] for c in chain[-2:]), m

# }}}


# {{{ generators

def gen_exprs(rng, tier, n_typed, n_syntax, cse=0.02, two=True, three=0):
    """(source tag, expression) of the Python-expressible fragment"""
    if two:
        for tag, e in two_level():
            yield "two-level", e
    for e in three_level(rng, three):
        yield "three-level", e
    g = ExprGen(rng, malformed=0.0, floats=0.0, extra_nodes=False, cse=cse, lists=False,
                foreign=False)
    for _ in range(n_typed):
        yield "typed", g.gen(rng.choice(["num", "num", "int", "bool", "any"]), rng.randint(1, 5))
    sg = SyntaxGen(rng)
    for _ in range(n_syntax):
        yield "syntax", sg.gen(rng.randint(1, 5))


def encodable(e):
    try:
        return dumps(expr_to_sx(e))
    except Unencodable:
        return None


def envs_payload(rng, k):
    return [dumps(env_to_sx(env_for(rng))) for _ in range(k)]


def load_env(s):
    return sx_to_env(loads(s))

# }}}


ERR_ORDER = re.compile(r"raises (\w+) instead of (?:ZeroDivisionError|OverflowError)$")


class PathStream(Stream):
    """common part of the expression-driven streams: payload {expr, envs, src[, listed]}"""
    prefix = "path"

    def run(self, e, env, pl):
        raise NotImplementedError

    def oracle(self, pl):
        e = sx_to_expr(loads(pl["expr"]))
        if any(isinstance(s, p.Slice) for s in scan.subterms(e)):
            return None     # the evaluator has no meaning for slices: nothing to compare with
        for es in pl["envs"]:
            env = load_env(es)
            run = lambda e, env: self.run(e, env, pl)  # noqa: E731
            why = checked(run, e, env)
            if why is not None:
                # classification uses the path with default options (no listed variables)
                run0 = lambda e, env: self.run(e, env, {})  # noqa: E731
                key, m = classify(self.prefix, run0, e, env)
                why_m, env_m = why, env
                for env2 in [env] + BOX:
                    w2 = checked(run0, m, env2)
                    if w2 is not None:
                        why_m, env_m = w2, env2
                        break
                mm = ERR_ORDER.match(why_m)
                if mm and mm.group(1) not in ("SyntaxError", "NameError", "InvalidAst"):
                    # both raise, different errors: an evaluation-order difference
                    key = f"{self.prefix}:error-order:{kind(m)}"
                at = {n: env_m[n] for n in free_names(m) if n in env_m}
                return Failure(key, f"{m!r} at {at!r}: generated code {why_m}"
                               + ("" if m is e else f" (found in {e!r})"),
                               {**pl, "expr": dumps(expr_to_sx(m)), "listed": [],
                                "envs": [dumps(env_to_sx(env_m))]})
        return None

    def shrink(self, pl):
        return ()          # classify() already reports the minimal failing subterm

    def nontrivial_key(self, pl, model, impl):
        return pl["expr"] if size(sx_to_expr(loads(pl["expr"]))) >= 3 else None

    def stats(self, pl, mo, io, acc):
        acc[pl["src"]] = acc.get(pl["src"], 0) + 1
        if io is not None and (io.startswith("(err") or io.startswith("(syntax")):
            k = io.split(" ")[0] + " " + io.split(" ")[1].rstrip(")") if io.startswith("(err") else "(syntax-error)"
            acc.setdefault("outcomes", {})
            acc["outcomes"][k] = acc["outcomes"].get(k, 0) + 1


def impl_exc(ex):
    if isinstance(ex, TypeError) and "unhashable" in str(ex):
        return "(err TypeError)"
    return dumps(exc_to_sx(ex))


ALIAS = [
    (p.Sum((1, p.Variable("x"))), p.Sum((True, p.Variable("x")))),
    p.Product((p.Sum((True, p.Variable("x"))), p.Sum((1, p.Variable("x"))))),
    p.CallWithKwargs(p.Variable("f"), (), {"z": p.Sum((1, p.Variable("x"))),
                                           "k": p.Sum((True, p.Variable("x")))}),
    p.CallWithKwargs(p.Variable("f"), (p.Sum((2, p.Variable("x"))),),
                     {"z": 1, "k": p.Sum((2.0, p.Variable("x"))), "a": True}),
    p.Sum((p.Power(p.Variable("x"), 1), p.Power(p.Variable("x"), True), 1, True)),
    p.If(p.Comparison(p.Variable("x"), "<", 1), 1, 2),
    p.Sum(()), p.Product(()), p.BitwiseOr(()), p.LogicalOr(()), p.LogicalAnd(()),
    p.Sum((p.Variable("x"),)), p.LogicalAnd((p.Variable("x"),)),
    p.Subscript(p.Variable("v"), p.Slice((1, 2, 3, 4))),
    p.Subscript(p.Variable("v"), p.Slice((p.Variable("n"),))),
    p.Subscript(p.Variable("v"), p.Slice((None, p.Variable("n")))),
    p.Subscript(p.Variable("v"), p.Slice(())),
    p.Sum((-0.0, float("inf"), -float("inf"), -2.5, 1e-7, 0)),
    p.NaN(), p.Min((p.Variable("x"), 1)), p.CommonSubexpression(p.Variable("x")),
    p.Derivative(p.Variable("x"), ("x",)), p.Wildcard(), p.FunctionSymbol(),
    [p.Variable("x")], p.Sum(([1], p.Min(()))), p.Sum((p.Min(()), [1])), "abc", None,
    p.Sum((None, p.Min(()))), p.Sum((p.Min(()), None)),
]


class CompileStream(PathStream):
    """compile(): source text and argument list (before and after a pickle round trip) vs the
    model; the compiled callable (and its unpickled copy) executed vs the reference interpreter"""
    name = "compile"
    prefix = "compile"

    def cases(self, rng, tier):
        n = 1 if tier == "quick" else 12
        for src, e in gen_exprs(rng, tier, 1300 * n, 500 * n, three=300 * n):
            s = encodable(e)
            if s is None:
                continue
            names = free_names(e) if src != "two-level" else []
            listed = []
            if names and rng.random() < 0.6:
                listed = rng.sample(names, rng.randint(0, len(names)))
                if rng.random() < 0.15:
                    listed.insert(rng.randint(0, len(listed)), "unused_arg")
            listed = [n_ for n_ in listed if n_ not in ("math", "numpy")]
            yield {"expr": s, "listed": listed, "envs": envs_payload(rng, 2), "src": src}
        # refusals / degenerate shapes: correspondence only
        for e in ALIAS + [p.CommonSubexpression([p.Variable("x")]), p.Substitution(p.Variable("x"), ("x",), (1,)),
                          p.Sum((p.Variable("x"), p.Derivative(p.Variable("y"), ("y",)))),
                          p.Sum((p.Variable("x"), None)), p.DotWildcard("w"), p.StarWildcard("w")]:
            s = encodable(e)
            if s is not None:
                yield {"expr": s, "listed": ["x"], "envs": [], "src": "directed"}
        # context names are never arguments
        for e, listed in [(p.Sum((p.Variable("math"), p.Variable("x"))), []),
                          (p.Sum((p.Variable("numpy"), p.Variable("x"), p.Variable("a"))), ["x"])]:
            yield {"expr": dumps(expr_to_sx(e)), "listed": listed, "envs": [], "src": "context"}

    def request(self, pl):
        return f"(c13-compile ({' '.join(q(n) for n in pl['listed'])}) {pl['expr']})"

    def run_impl(self, pl):
        from pymbolic import compile as pcompile
        from pymbolic.compiler import CompileMapper
        from pymbolic.mapper.stringifier import PREC_NONE
        e = sx_to_expr(loads(pl["expr"]))
        try:
            f = pcompile(e, list(pl["listed"]))
        except SyntaxError as ex:
            # the text handed to eval() is in the exception: "lambda <args>: <body>"
            head = (ex.text or "").split(":", 1)[0]
            args = [a for a in head[len("lambda "):].split(",") if a.strip()]
            src = CompileMapper()(e, PREC_NONE)
            return f"(ok ({' '.join(q(a) for a in args)}) {q(src)} syntax-error)"
        except RecursionError:
            raise
        except Exception as ex:
            if "Unsupported" in type(ex).__name__ or isinstance(ex, NotImplementedError):
                return "(err Unsupported)"
            return impl_exc(ex)
        src = CompileMapper()(e, PREC_NONE)       # the call _compile makes
        code = f._code.__code__
        args = list(code.co_varnames[:code.co_argcount])
        g = pickle.loads(pickle.dumps(f))
        code2 = g._code.__code__
        args2 = list(code2.co_varnames[:code2.co_argcount])
        src2 = CompileMapper()(g._Expression, PREC_NONE)
        return (f"(ok ({' '.join(q(a) for a in args)}) {q(src)} "
                f"({' '.join(q(a) for a in args2)}) {q(src2)})")

    def agree(self, model, impl, pl):
        if impl.endswith(" syntax-error)"):
            ms = loads(model)
            if isinstance(ms, list) and len(ms) == 5 and ms[0] == "ok":
                mine = f"(ok ({' '.join(q(a) for a in ms[1])}) {q(ms[2])} syntax-error)"
                return "ok" if mine == impl else "diff"
            return "diff"
        return super().agree(model, impl, pl)

    def run(self, e, env, pl):
        return run_compiled(e, env, pl.get("listed", []))

    def oracle(self, pl):
        e = sx_to_expr(loads(pl["expr"]))
        for es in pl["envs"]:
            env = load_env(es)
            if not is_safe(e, env):
                continue
            a = outcome(lambda: run_compiled(e, env, pl["listed"]))
            b = outcome(lambda: run_compiled(e, env, pl["listed"], pickled=True))
            if not _same_raw(a, b):
                return Failure("pickle-differs", f"compile({e!r}, {pl['listed']}): direct {a!r}, "
                               f"after a pickle round trip {b!r}", pl)
        return super().oracle(pl)


def _same_raw(a, b):
    if a[0] != b[0]:
        return False
    if a[0] == "ok":
        return same_exact(a[1], b[1]) or (has_float(a[1]) and has_float(b[1]))
    return a[1] == b[1]


class ArgOrderStream(Stream):
    """argument order: every ordered choice of listed variables (≤ 4 variables exhaustively), and
    many unlisted variables; model vs the real lambda's argument names; the call in the
    property's order vs the reference"""
    name = "arg-order"

    POOL = ["a", "B", "_c", "a1", "ab", "Z", "b", "aa", "x", "y10", "y2", "A", "a_b", "b2", "k"]

    @staticmethod
    def weighted(names):
        """a sum in which every variable has its own weight: any misplaced argument changes the
        value at pairwise distinct arguments"""
        terms = [p.Product((3 ** (i + 1), p.Variable(n))) for i, n in enumerate(names)]
        return p.Sum(tuple(terms)) if len(terms) != 1 else terms[0]

    def cases(self, rng, tier):
        sets = 10 if tier == "quick" else 120
        for _ in range(sets):
            k = rng.randint(1, 4)
            names = rng.sample(self.POOL, k)
            e = self.weighted(names)
            for r in range(k + 1):
                for listed in itertools.permutations(names, r):
                    yield {"expr": dumps(expr_to_sx(e)), "listed": list(listed),
                           "vals": [rng.randint(-50, 50) for _ in names], "names": names}
        for _ in range(40 if tier == "quick" else 600):
            k = rng.randint(2, len(self.POOL))
            names = rng.sample(self.POOL, k)
            listed = rng.sample(names, rng.randint(0, min(3, k)))
            yield {"expr": dumps(expr_to_sx(self.weighted(names))), "listed": listed,
                   "vals": [rng.randint(-50, 50) for _ in names], "names": names}

    def request(self, pl):
        return f"(c13-compile ({' '.join(q(n) for n in pl['listed'])}) {pl['expr']})"

    def run_impl(self, pl):
        return CompileStream.run_impl(self, pl)

    def oracle(self, pl):
        e = sx_to_expr(loads(pl["expr"]))
        env = dict(zip(pl["names"], pl["vals"]))
        ref = outcome(lambda: pyeval(e, env))
        for pickled in (False, True):
            got = outcome(lambda: run_compiled(e, env, pl["listed"], pickled=pickled))
            why = judge(ref, got)
            if why is not None:
                n_unlisted = len(pl["names"]) - len(pl["listed"])
                key = "arg-order" + (":unlisted>=2" if n_unlisted >= 2 and got[0] == "err" else "")
                return Failure(key + (":pickled" if pickled else ""),
                               f"compile({e!r}, {pl['listed']}) called with "
                               f"{expected_args(e, pl['listed'])} := values: {why}", pl)
        return None

    def nontrivial_key(self, pl, model, impl):
        return pl["expr"] + "|" + ",".join(pl["listed"])

    def stats(self, pl, mo, io, acc):
        k = f"vars={len(pl['names'])}"
        acc[k] = acc.get(k, 0) + 1


class ToAstStream(PathStream):
    """to_python_ast(): the AST vs the model (memo table included); the AST executed vs the
    reference interpreter"""
    name = "to-ast"
    prefix = "to-ast"

    def cases(self, rng, tier):
        n = 1 if tier == "quick" else 12
        for e in ALIAS:
            s = encodable(e)
            if s is not None:
                yield {"expr": s, "envs": [], "src": "directed"}
        for src, e in gen_exprs(rng, tier, 1300 * n, 600 * n, three=300 * n):
            s = encodable(e)
            if s is not None:
                yield {"expr": s, "envs": envs_payload(rng, 2), "src": src}

    def request(self, pl):
        return f"(c13-toast {pl['expr']})"

    def run_impl(self, pl):
        from pymbolic.interop.ast import to_python_ast
        e = sx_to_expr(loads(pl["expr"]))
        try:
            node = to_python_ast(e)
        except RecursionError:
            raise
        except Exception as ex:
            return impl_exc(ex)
        return dumps(ast_to_sx(node))

    def run(self, e, env, pl):
        return run_to_ast(e, env)


class FunctionSourceStream(PathStream):
    """to_evaluatable_python_function(): the source is exec-ed and the function called with
    keyword arguments (oracle only: `ast.unparse` is CPython's)"""
    name = "function-source"
    prefix = "function-source"
    has_model = False

    def cases(self, rng, tier):
        n = 1 if tier == "quick" else 12
        for src, e in gen_exprs(rng, tier, 700 * n, 300 * n, three=200 * n):
            s = encodable(e)
            if s is not None:
                yield {"expr": s, "envs": envs_payload(rng, 2), "src": src}

    def run_impl(self, pl):
        return "(oracle-only)"

    def run(self, e, env, pl):
        return run_function_source(e, env)

    def oracle(self, pl):
        f = super().oracle(pl)
        if f is not None:
            return f
        # the signature: keyword-only, the free variables in name order
        from pymbolic.interop.ast import to_evaluatable_python_function
        e = sx_to_expr(loads(pl["expr"]))
        try:
            src = to_evaluatable_python_function(e, "fn")
        except Exception:
            return None
        fd = ast.parse(src).body[0]
        got = [a.arg for a in fd.args.kwonlyargs]
        if fd.args.args or fd.args.posonlyargs or got != free_names(e):
            return Failure("function-source:signature", f"{src!r}: expected keyword-only "
                           f"{free_names(e)}", pl)
        return None


class RoundTripStream(PathStream):
    """ASTToPymbolic()(to_python_ast(e)): the tree vs `fromAst (toAstC e)`; its reference value vs
    the reference value of e"""
    name = "ast-roundtrip"
    prefix = "ast-roundtrip"

    def cases(self, rng, tier):
        n = 1 if tier == "quick" else 12
        for src, e in gen_exprs(rng, tier, 900 * n, 400 * n, three=200 * n):
            s = encodable(e)
            if s is not None:
                yield {"expr": s, "envs": envs_payload(rng, 1), "src": src}

    def request(self, pl):
        return f"(c13-roundtrip {pl['expr']})"

    def run_impl(self, pl):
        from pymbolic.interop.ast import ASTToPymbolic, to_python_ast
        e = sx_to_expr(loads(pl["expr"]))
        try:
            node = to_python_ast(e)
        except RecursionError:
            raise
        except Exception as ex:
            return f"(toast {impl_exc(ex)})"
        try:
            return dumps(expr_to_sx(ASTToPymbolic()(node)))
        except RecursionError:
            raise
        except Exception as ex:
            return impl_exc(ex)

    def run(self, e, env, pl):
        return run_roundtrip(e, env)


PY_STRINGS = [
    "a and b", "a or b and c", "a < b < c", "a < b == c", "not a", "-a", "+a", "~a", "- -a", "-(a, b)",
    "-2", "-2 ** a", "(-2) ** a", "a - b", "a - b - c", "a - (b - c)", "-a ** 2", "a @ b",
    "f(a, k=b)", "f(a)(b)", "a.u.w", "v[a]", "v[a, b]", "v[a:b]", "v[:]", "[a, b]", "(a, b)", "()",
    "a if b else c", "a | b ^ c & d", "a << b >> c", "a // b % c", "-True", "-2.5", "- 0.0", "'s'",
    "None", "a is b", "a in b", "lambda: a", "a < (b < c)", "(a < b) < c", "not a == b", "f(*a)",
    "f(**a)", "1 if a else 2 if b else 3", "-f(a)", "-v[0]", "-(a + b)", "-(a * b)", "-(2 * b)",
    "-(0 * b)", "-(1 * b)", "- (a - b)",
]


class PyAstGen:
    """random Python expression ASTs built directly (every binary, unary, boolean and comparison
    operator, chains, conditionals, calls, subscripts, attributes): the importer's whole table"""

    def __init__(self, rng):
        self.rng = rng

    def leaf(self):
        r = self.rng
        if r.random() < 0.55:
            return ast.Name(id=r.choice(["a", "b", "c", "x", "y"]), ctx=ast.Load())
        return ast.Constant(r.choice([0, 1, 2, 3, 5, 7, True, False, 10]))

    def gen(self, d):
        r = self.rng
        if d <= 0 or r.random() < 0.12:
            return self.leaf()
        k = r.random()
        if k < 0.34:
            op = r.choice([o for o in _BIN if o is not ast.MatMult])
            return ast.BinOp(self.gen(d - 1), op(), self.gen(d - 1))
        if k < 0.46:
            return ast.UnaryOp(r.choice(list(_UN))(), self.gen(d - 1))
        if k < 0.58:
            return ast.BoolOp(r.choice([ast.And, ast.Or])(),
                              [self.gen(d - 1) for _ in range(r.randint(2, 3))])
        if k < 0.84:
            n = 1 if r.random() < 0.8 else 2
            return ast.Compare(self.gen(d - 1), [r.choice(list(_CMP))() for _ in range(n)],
                               [self.gen(d - 1) for _ in range(n)])
        if k < 0.92:
            return ast.IfExp(self.gen(d - 1), self.gen(d - 1), self.gen(d - 1))
        if k < 0.96:
            return ast.Call(ast.Name(id=r.choice(["f", "g"]), ctx=ast.Load()),
                            [self.gen(d - 1) for _ in range(r.randint(0, 2))], [])
        return ast.Subscript(ast.Name(id="v", ctx=ast.Load()), self.gen(d - 1), ast.Load())


class FromAstStream(Stream):
    """ASTToPymbolic on Python's own parse of source text and on the mapper's ASTs: the imported
    tree vs `fromAst`; its reference value vs CPython's value of the AST"""
    name = "from-ast"

    def cases(self, rng, tier):
        from .c07 import rand_string, skeletons2
        n = 1 if tier == "quick" else 12
        texts = [s for s, _k in skeletons2()] + PY_STRINGS
        texts += [rand_string(rng, rng.randint(1, 5)) for _ in range(700 * n)]
        for s in texts:
            try:
                sx = dumps(ast_to_sx(ast.parse(s, mode="eval").body))
            except (SyntaxError, Unencodable, KeyError):
                continue
            yield {"ast": sx, "envs": envs_payload(rng, 1), "src": "python-text"}
        pg = PyAstGen(rng)
        for _ in range(1200 * n):
            sx = dumps(ast_to_sx(pg.gen(rng.randint(1, 4))))
            yield {"ast": sx, "envs": envs_payload(rng, 2), "src": "python-ast"}
        from pymbolic.interop.ast import to_python_ast
        for src, e in gen_exprs(rng, tier, 500 * n, 200 * n, two=False):
            try:
                sx = dumps(ast_to_sx(to_python_ast(e)))
            except Exception:
                continue
            yield {"ast": sx, "envs": envs_payload(rng, 1), "src": "mapper-output"}

    def request(self, pl):
        return f"(c13-fromast {pl['ast']})"

    def run_impl(self, pl):
        from pymbolic.interop.ast import ASTToPymbolic
        node = sx_to_ast(loads(pl["ast"]))
        try:
            r = ASTToPymbolic()(node)
        except RecursionError:
            raise
        except Exception as ex:
            return impl_exc(ex)
        try:
            return dumps(expr_to_sx(r))
        except Unencodable as ex:
            return f"(unencodable {ex})"

    def oracle(self, pl):
        from pymbolic.interop.ast import ASTToPymbolic
        sx = loads(pl["ast"])
        try:
            back = ASTToPymbolic()(sx_to_ast(sx))
        except Exception:
            return None                      # a refusal is not a wrong translation
        for es in pl["envs"]:
            env = load_env(es)
            if not is_safe(back, env):
                continue
            ref = outcome(lambda: eval(compile(ast.fix_missing_locations(  # noqa: S307
                ast.Expression(body=sx_to_ast(sx))), "<c13>", "eval"), {"__builtins__": {}}, dict(env)))
            if ref[0] == "err" and ref[1] not in ARITH:
                continue
            got = outcome(lambda: pyeval(back, env))
            if got[0] == "err" and got[1] == "Unsupported":
                continue
            why = judge(ref, got)
            if why is not None and not float_involved(back, env):
                text = ast.unparse(sx_to_ast(sx))
                if ref[0] == "err" and got[0] == "err":
                    return Failure("from-ast:error-order", f"ASTToPymbolic({text!r}) = {back!r}: "
                                   f"evaluating it {why}", pl)
                return Failure("from-ast:" + self.shape(sx), f"ASTToPymbolic({text!r}) = {back!r}: "
                               f"evaluating it {why}", pl)
        return None

    @staticmethod
    def shape(sx):
        """node type of the smallest sub-AST whose import changes the meaning is not searched:
        the head of the AST and of its first composite operand"""
        kids = [c[0] for c in sx[1:] if isinstance(c, list) and c and isinstance(c[0], Atom)
                and c[0] not in ("Name", "Constant")]
        return str(sx[0]) + (">" + str(kids[0]) if kids else "")

    def shrink(self, pl):
        sx = loads(pl["ast"])

        def subs(s):
            for c in s[1:] if isinstance(s, list) else []:
                if isinstance(c, list) and c and isinstance(c[0], Atom) and c[0][:1].isupper() \
                        and c[0] not in ("Int", "Bool", "Flt", "Str"):
                    yield c
                    yield from subs(c)
                elif isinstance(c, list):
                    for d in c:
                        if isinstance(d, list) and d and isinstance(d[0], Atom) and d[0][:1].isupper() \
                                and d[0] not in ("Int", "Bool", "Flt", "Str"):
                            yield d
                            yield from subs(d)
        for c in subs(sx):
            try:
                sx_to_ast(c)
            except Exception:
                continue
            yield {**pl, "ast": dumps(c)}

    def nontrivial_key(self, pl, model, impl):
        return pl["ast"] if not impl.startswith("(err") else None

    def stats(self, pl, mo, io, acc):
        acc[pl["src"]] = acc.get(pl["src"], 0) + 1
        if io.startswith("(err"):
            acc.setdefault("refusals", {})
            acc["refusals"][io] = acc["refusals"].get(io, 0) + 1


class DenAstStream(Stream):
    """the model's meaning of an AST (`denAst`, the oracle of the theorems) vs CPython executing
    that AST"""
    name = "denast"

    def cases(self, rng, tier):
        from .c07 import rand_string
        from pymbolic.interop.ast import to_python_ast
        n = 1 if tier == "quick" else 12
        for s in PY_STRINGS + [rand_string(rng, rng.randint(1, 4)) for _ in range(300 * n)]:
            try:
                sx = dumps(ast_to_sx(ast.parse(s, mode="eval").body))
            except (SyntaxError, Unencodable, KeyError):
                continue
            if "MatMult" in sx or "Slice" in sx:
                continue
            yield {"ast": sx, "env": envs_payload(rng, 1)[0]}
        for src, e in gen_exprs(rng, tier, 900 * n, 0, two=False):
            try:
                sx = dumps(ast_to_sx(to_python_ast(e)))
            except Exception:
                continue
            env = env_for(rng)
            if not is_safe(e, env):
                continue
            yield {"ast": sx, "env": dumps(env_to_sx(env))}

    def request(self, pl):
        return f"(c13-denast {pl['env']} {pl['ast']})"

    def run_impl(self, pl):
        env = load_env(pl["env"])
        node = sx_to_ast(loads(pl["ast"]))
        try:
            code = compile(ast.fix_missing_locations(ast.Expression(body=node)), "<c13>", "eval")
            v = eval(code, {"__builtins__": {}}, env)  # noqa: S307
        except NameError as ex:
            return f"(err UnknownVariable {q(ex.name)})"
        except RecursionError:
            raise
        except Exception as ex:
            return dumps(exc_to_sx(ex))
        return dumps(value_to_sx(v))

    def agree(self, model, impl, pl):
        if impl == "(err OverflowError)" or "(noclaim)" in model:
            return "trivial"
        return super().agree(model, impl, pl)

    def nontrivial_key(self, pl, model, impl):
        return pl["ast"] + pl["env"]


def probes():
    from pymbolic import compile as pcompile, evaluate
    from pymbolic.interop.ast import (ASTToPymbolic, to_evaluatable_python_function,
                                      to_python_ast)
    a, b, c, f = (p.Variable(n) for n in "abcf")
    res = []

    def attempt(key, fn, detail):
        """fn() -> True when the defect is present"""
        try:
            bad = bool(fn())
            res.append((key, bad, detail))
        except Exception as ex:
            res.append((key, True, f"{detail}: {type(ex).__name__}: {ex}"))

    # repaired defects: must stay repaired
    attempt("compile-sorts-variables", lambda: pcompile(p.Sum((p.Product((2, c)), b, a)))(1, 2, 3) != 9,
            "compile(2*c + b + a) with three unlisted variables")
    attempt("ast-right-shift", lambda: run_ast(to_python_ast(p.RightShift(a, b)), {"a": 12, "b": 2}) != 3,
            "to_python_ast(RightShift(a, b))")
    attempt("ast-import-invert",
            lambda: ASTToPymbolic()(ast.parse("~a", mode="eval").body) != p.BitwiseNot(a),
            "ASTToPymbolic('~a')")
    attempt("ast-import-bitwise",
            lambda: [ASTToPymbolic()(ast.parse(s, mode="eval").body) for s in ("a | b", "a ^ b", "a & b")]
            != [p.BitwiseOr((a, b)), p.BitwiseXor((a, b)), p.BitwiseAnd((a, b))],
            "ASTToPymbolic('a | b', 'a ^ b', 'a & b')")
    attempt("ast-negative-constant",
            lambda: eval(ast.unparse(to_python_ast(p.Power(-2, a))), {"a": 2}) != 4,  # noqa: S307
            "ast.unparse(to_python_ast(Power(-2, a))) at a = 2")

    def fsrc():
        e = p.Sum((p.Call(f, (a,)), p.Subscript(b, c)))
        ns: dict = {}
        exec(to_evaluatable_python_function(e, "fn"), ns)  # noqa: S102
        return ns["fn"](a=1, b=(5, 7), c=1, f=lambda t: t + 10) != 18
    attempt("function-source-composite-leaves", fsrc,
            "to_evaluatable_python_function(f(a) + b[c])")
    attempt("compile-power-base", lambda: pcompile(p.Power(p.Power(a, b), c))(2, 3, 2) != 64,
            "compile(Power(Power(a, b), c))(2, 3, 2)")
    nested = p.Comparison(p.Comparison(a, "<", b), "<", c)
    attempt("compile-nested-comparison",
            lambda: pcompile(nested)(3, 2, 5) != evaluate(nested, {"a": 3, "b": 2, "c": 5}),
            "compile(Comparison(Comparison(a, '<', b), '<', c))(3, 2, 5)")

    # open findings (listed in known_findings.C13.jsonl): replayed through the oracle
    cs = CompileStream()
    for e in [p.Comparison(p.LogicalNot(a), "==", b), p.Product((a, p.LogicalNot(b))),
              p.Sum((p.LogicalNot(a), b)), p.BitwiseNot(p.LogicalNot(a)), p.Power(-2, a),
              p.LogicalAnd((a, b)), p.LogicalOr((a, b)), p.CommonSubexpression(a)]:
        pl = {"expr": dumps(expr_to_sx(e)), "listed": [], "src": "probe",
              "envs": [dumps(env_to_sx({"a": 2, "b": 3})), dumps(env_to_sx({"a": False, "b": False})),
                       dumps(env_to_sx({"a": True, "b": 0}))]}
        fl = cs.oracle(pl)
        if fl is not None:
            res.append((fl.key, True, fl.detail))
    ts = ToAstStream()
    for e in [p.LogicalAnd((a, b)), p.LogicalOr((a, b))]:
        pl = {"expr": dumps(expr_to_sx(e)), "src": "probe",
              "envs": [dumps(env_to_sx({"a": 2, "b": 3})), dumps(env_to_sx({"a": 0, "b": 0}))]}
        fl = ts.oracle(pl)
        if fl is not None:
            res.append((fl.key, True, fl.detail))
    return res


PROP = Prop(
    id="C13",
    title="Generated Python code computes what the evaluator computes",
    lean_targets=["PV.Properties.C13"],
    partial={"PV.C13.toAst_run_value_partial":
             "executing the generated AST equals the evaluator on the fragment AstOk: or/and need "
             "two or more boolean operands (Python returns an operand; a one-value BoolOp is "
             "rejected by CPython), a one-operand sum/product must not be a bool, operands of + * "
             "are exact numbers and of | ^ & ints/bools (else a different error can surface); "
             "keyword calls, floats, slices: executing oracle only.  The compile path (source TEXT "
             "read by CPython) has no theorem of this kind: Python's grammar is not modelled, every "
             "generated program is executed instead"},
    extractors=[extract],
    streams=[CompileStream(), ArgOrderStream(), ToAstStream(), FunctionSourceStream(),
             RoundTripStream(), FromAstStream(), DenAstStream()],
    probes=[probes],
    trusted_base=["Lean 4.33 kernel; axioms propext, Classical.choice, Quot.sound only",
                  "CPython (eval, compile, ast.unparse, pickle) executes the generated programs: "
                  "tied by running them, not modelled (the model's meaning of an AST, denAst, is "
                  "compared with CPython on every run)",
                  "harness/oracles/pyeval.py (independent reference interpreter)",
                  "extract/prec.py (stringifier precedences read from the live module)"],
    assumptions=["exact environments (int, bool, Fraction, tuples, uninterpreted functions); "
                 "results involving floats are not compared",
                 "a path that refuses an expression by raising (NotImplementedError, invalid "
                 "foreign object, unhashable list) is not counted as a wrong program",
                 "when the reference raises a non-arithmetic error (TypeError, …) nothing is "
                 "demanded of the generated code"],
    design_ref="DESIGN.md §4 C13",
)
