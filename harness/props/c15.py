"""C15 — linear-form extraction and affine solving are exact.

T-gen: `extract/coefficient.py` regenerates lean/PV/Generated/Coefficient.lean (the code under this
property, statement by statement) on every run; streams `table-*` run the table interpreter of
lean/PV/Model/CoeffTable.lean on it against the real code.

Three model streams:
  * `coefficients`  CoefficientCollector(target_names)(expr) against the model `coeffs`, and the
                    property's own statement checked with an exact rational interpreter;
  * `gauss`         gaussian_elimination on small integer matrices against `gaussElim`, and the
                    solution set compared before/after with an independent Fraction elimination;
  * `solve`         solve_affine_equations_for on small integer systems (square, over-/under-
                    determined, permuted, with parameters) against `solveAffine`, checked by
                    substitution and an independent uniqueness/integrality decision;
  * `solve-singular` the same solver, model and oracle on rank-deficient systems of every shape
                    (every reduced row echelon form of rank < n for n = 2, 3, 4 unknowns, disguised,
                    with dependent or inconsistent extra rows).  An accepted singular system is
                    keyed by its shape (`singular_shape`), so that only the shape the known findings
                    describe keeps their keys.
Two oracle-only streams (no model side; the statement itself on the real code):
  * `coefficients-history`  one or two long-lived collectors applied to a sequence of expressions
                    that share compound subexpressions (bare / scaled / divided by a constant, as
                    one shared object or as equal objects); every call judged by `judge_coeffs`,
                    every returned dictionary judged again at the end of the history.  The
                    `coefficients` stream carries the single-expression half of the same family
                    (kind `shared`: one compound several times in one expression).
  * `solve-number-domains`  the solver on systems whose numbers are Python int / bool / float /
                    Fraction and numpy integer / floating scalars of several widths (small dyadic
                    values, exact in every type), integral and non-integral data; accepted systems
                    judged over Q with the numbers read as the rationals they are.
"""
from __future__ import annotations

import itertools
from fractions import Fraction

import pymbolic.primitives as p

from ..core import Failure, Prop, Stream
from ..gen import ExprGen, node_types
from ..oracles import scan
from ..oracles.pyeval import pyeval
from ..sexp import A, dumps, expr_to_sx, loads, sx_shrinks, sx_to_expr

TV = ["x", "y", "z"]                 # the alphabet target subsets are drawn from
TARGET_SETS = [None] + [list(c) for k in range(4) for c in itertools.combinations(TV, k)]
LEAF_CLASSES = (p.Variable, p.Subscript, p.Call, p.CallWithKwargs, p.Lookup)


# {{{ error classification of the real code

def err_sx(ex) -> str:
    from pymbolic.mapper import UnsupportedExpressionError
    msg = str(ex)
    if isinstance(ex, RuntimeError) and "nonlinear" in msg:
        return "(err Nonlinear)"
    if isinstance(ex, RuntimeError) and "cannot uniquely solve" in msg:
        return "(err NotUnique)"
    if isinstance(ex, RuntimeError) and "division with remainder" in msg:
        return "(err Remainder)"
    if isinstance(ex, UnsupportedExpressionError):
        return "(err Unsupported)"
    if isinstance(ex, NotImplementedError):
        return "(err NotImplemented)"
    if isinstance(ex, ValueError) and "invalid foreign object" in msg:
        return "(err Foreign)"
    if isinstance(ex, ValueError) and "not understood" in msg:
        return "(err KeyNotUnderstood)"
    if isinstance(ex, AssertionError):
        return "(err AssertionError)"
    if isinstance(ex, KeyError):
        return "(err KeyError)"
    if isinstance(ex, TypeError):
        return "(err TypeError)"
    return f"(err Other {type(ex).__name__})"

# }}}


# {{{ independent helpers: exact rational meaning, occurrence scans, syntactic affine class

class NotExact(Exception):
    """the expression has no exact rational value in this environment"""


def qeval(e, env):
    """Value of `e` over the rationals: the arithmetic skeleton (Sum, Product, Quotient, Power
    with integral exponent) is interpreted in exact field arithmetic, every other node by the
    reference interpreter.  Raises NotExact / ZeroDivisionError / any interpreter error."""
    if isinstance(e, bool):
        return Fraction(int(e))
    if isinstance(e, int):
        return Fraction(e)
    if isinstance(e, (float, complex)):
        raise NotExact
    if isinstance(e, p.Sum):
        acc = Fraction(0)
        for c in e.children:
            acc += qeval(c, env)
        return acc
    if isinstance(e, p.Product):
        acc = Fraction(1)
        for c in e.children:
            acc *= qeval(c, env)
        return acc
    if isinstance(e, p.Quotient):
        return qeval(e.numerator, env) / qeval(e.denominator, env)
    if isinstance(e, p.Power):
        b = qeval(e.base, env)
        x = qeval(e.exponent, env)
        if x.denominator != 1 or abs(x) > 8:
            raise NotExact
        return b ** int(x)
    v = pyeval(e, env)
    if isinstance(v, (int, Fraction)):
        return Fraction(v)
    raise NotExact


def _f(*args):
    return Fraction(1, 3) + sum((k + 2) * Fraction(v) * Fraction(v) for k, v in enumerate(args))


class _Rec:
    def __init__(self, **kw):
        self.__dict__.update(kw)


def _env(x, y, z, pq, i, a, rec):
    return {"x": x, "y": y, "z": z, "p": pq[0], "q": pq[1], "i": i, "j": (i + 1) % 3,
            "a": tuple(a), "f": _f, "g": _f, "r": _Rec(u=rec[0], v=rec[1], x=rec[2], y=rec[3])}


F = Fraction
ENV_BOX = [
    _env(1, 2, 0, (F(3, 2), F(-5, 3)), 0, (F(7, 2), F(-2, 3), 5), (F(1, 2), 3, F(5, 7), -2)),
    _env(0, 1, 2, (2, F(7, 5)), 1, (3, F(1, 4), F(-9, 2)), (F(-3, 4), 1, 2, F(1, 9))),
    _env(2, 0, 1, (F(-1, 3), 3), 2, (F(11, 3), 2, F(1, 5)), (5, F(2, 3), F(-1, 2), 4)),
    _env(F(5, 3), F(-7, 2), F(3, 4), (F(2, 7), F(9, 4)), 1, (F(1, 2), 7, F(-4, 3)), (2, 2, F(3, 5), 1)),
    _env(F(-2, 5), F(1, 6), F(8, 3), (5, F(-3, 8)), 0, (2, F(5, 6), 1), (F(7, 3), -1, 6, F(2, 5))),
    _env(3, -4, 5, (F(1, 7), -2), 2, (F(-1, 2), F(3, 8), 4), (1, F(4, 3), -3, F(5, 2))),
]


def is_target_var(e, tg) -> bool:
    return isinstance(e, p.Variable) and (tg is None or e.name in tg)


def target_occurrences(e, tg, inside_leaf=False, acc=None):
    """[(variable, inside_composite_leaf)] for every occurrence of a target variable in `e`
    (with `tg is None` every variable is a target)."""
    if acc is None:
        acc = []
    if is_target_var(e, tg):
        acc.append((e, inside_leaf))
    deeper = inside_leaf or isinstance(e, LEAF_CLASSES)
    for c in scan.children(e):
        target_occurrences(c, tg, deeper, acc)
    return acc


def has_leaf(e) -> bool:
    return any(isinstance(s, LEAF_CLASSES) for s in scan.subterms(e))


def is_free(e, tg) -> bool:
    """no target occurs in `e` (target_names None: no variable, subscript, call or lookup at all)"""
    if tg is None:
        return not has_leaf(e)
    return not target_occurrences(e, tg)


def in_fragment(e) -> bool:
    """integers, algebraic leaves and Sum/Product/Quotient/Power over them (bool constants are
    left out: `True + x` is an AssertionError of Expression.__radd__, see C03)"""
    if isinstance(e, bool):
        return False
    if isinstance(e, int):
        return True
    if isinstance(e, LEAF_CLASSES):
        return True
    if isinstance(e, (p.Sum, p.Product)):
        return all(in_fragment(c) for c in e.children)
    if isinstance(e, p.Quotient):
        return in_fragment(e.numerator) and in_fragment(e.denominator)
    if isinstance(e, p.Power):
        return in_fragment(e.base) and in_fragment(e.exponent)
    return False


def is_target_leaf(e, tg) -> bool:
    if tg is None:
        return isinstance(e, LEAF_CLASSES)
    return is_target_var(e, tg)


def in_affine_class(e, tg) -> bool:
    """The syntactic class 'affine in the targets' the property names: sums of affine terms,
    products with at most one target-dependent (affine) factor, quotients of an affine numerator
    by a target-free denominator, target-free powers; targets never inside composite leaves."""
    if not in_fragment(e):
        return False
    if is_target_leaf(e, tg):
        return True
    if is_free(e, tg):
        return True
    if isinstance(e, LEAF_CLASSES):
        return False                        # a composite leaf that hides a target
    if isinstance(e, p.Sum):
        return all(in_affine_class(c, tg) for c in e.children)
    if isinstance(e, p.Product):
        dep = [c for c in e.children if not is_free(c, tg)]
        return len(dep) <= 1 and all(in_affine_class(c, tg) for c in dep)
    if isinstance(e, p.Quotient):
        return is_free(e.denominator, tg) and in_affine_class(e.numerator, tg)
    return False


def has_exotic(e) -> bool:
    """pattern/placeholder leaves that denote no value, Python lists/strings/None and keyword
    calls anywhere in the tree: outside the property's statement"""
    return any(t is None or isinstance(t, (p.NaN, p.Wildcard, p.DotWildcard, p.StarWildcard,
                                           p.FunctionSymbol, p.CallWithKwargs, list, str))
               for t in scan.subterms(e))


def show(e) -> str:
    try:
        return str(e)
    except Exception:
        return repr(e)


def has_empty_sum(e) -> bool:
    return any(isinstance(s, p.Sum) and not s.children for s in scan.subterms(e))


def has_target_named_attr(e, tg) -> bool:
    return tg is not None and any(isinstance(s, p.Lookup) and s.name in tg
                                  for s in scan.subterms(e))

def judge_coeffs(e, tg, outcome):
    """The collector clause of the property on ONE call: `outcome` is the dictionary returned for
    `e` under the target set `tg`, or the exception raised.  None, or (key, detail)."""
    if isinstance(outcome, BaseException):
        ex = outcome
        if in_affine_class(e, tg):
            key = "affine-rejected"
            if has_empty_sum(e):
                key = "affine-rejected:empty-sum"
            elif has_target_named_attr(e, tg):
                key = "lookup-attr-taken-for-target"
            return key, f"affine in {tg} but raised {type(ex).__name__}: {str(ex)[:80]}"
        return None
    d = outcome
    # 1. keys are targets, coefficients are free of targets
    for k, c in d.items():
        if not (isinstance(k, int) and k == 1):
            if not is_target_leaf(k, tg):
                key = ("lookup-attr-taken-for-target" if has_target_named_attr(k, tg)
                       else "key-not-target")
                return key, f"key {show(k)} is not one of {tg}"
        occ = target_occurrences(c, tg) if tg is not None else (
            [(s, True) for s in scan.subterms(c) if isinstance(s, LEAF_CLASSES)])
        if occ:
            why = ":leaf" if all(inside for _v, inside in occ) else ""
            return ("coefficient-mentions-target" + why,
                    f"coefficient {show(c)} of key {show(k)} mentions target {show(occ[0][0])}")
    # 2. the linear form evaluates to the expression wherever the expression is defined
    for env in ENV_BOX:
        try:
            want = qeval(e, env)
        except RecursionError:
            raise
        except Exception:
            continue
        try:
            got = Fraction(0)
            for k, c in d.items():
                got += qeval(c, env) * (1 if (isinstance(k, int) and k == 1) else qeval(k, env))
        except RecursionError:
            raise
        except Exception as ex:
            return ("linear-form-undefined",
                    f"expression evaluates to {want} but the linear form raises "
                    f"{type(ex).__name__} at x,y,z={env['x']},{env['y']},{env['z']}")
        if got != want:
            return ("value-differs",
                    f"linear form {got} != expression {want} at "
                    f"x,y,z={env['x']},{env['y']},{env['z']}")
    return None

# }}}


# {{{ stream 1: coefficient dictionaries

def tg_req(tg) -> str:
    return "nil" if tg is None else "(" + " ".join(dumps(n) for n in tg) + ")"


class AffGen:
    """Type-directed generator: target-free / affine / non-affine expressions for a target set."""

    def __init__(self, rng, tg):
        self.r = rng
        self.tg = tg

    def const(self):
        return self.r.choice([-3, -2, -1, 0, 1, 2, 3, 4, 1, 2])

    def target(self):
        r = self.r
        if self.tg is None:
            k = r.random()
            if k < 0.6:
                return p.Variable(r.choice(TV + ["p"]))
            if k < 0.8:
                return p.Subscript(p.Variable("a"), r.choice([0, 1, 2, p.Variable("i")]))
            if k < 0.9:
                return p.Lookup(p.Variable("r"), r.choice(["u", "v"]))
            return p.Call(p.Variable("f"), (r.choice([1, 2, p.Variable("x")]),))
        if not self.tg:
            return None
        return p.Variable(r.choice(self.tg))

    def free_leaf(self):
        r = self.r
        if self.tg is None:
            return self.const()
        others = [v for v in TV + ["p", "q"] if v not in self.tg]
        k = r.random()
        if k < 0.35:
            return self.const()
        if k < 0.65:
            return p.Variable(r.choice(others))
        if k < 0.8:
            return p.Subscript(p.Variable("a"), r.choice([0, 1, 2, p.Variable("i")]))
        if k < 0.9:
            return p.Lookup(p.Variable("r"), r.choice(["u", "v"]))
        return p.Call(p.Variable("f"), (r.choice([1, p.Variable(r.choice(others))]),))

    def free(self, d):
        r = self.r
        if d <= 0 or r.random() < 0.35:
            return self.free_leaf()
        k = r.choice(["sum", "prod", "prod", "quot", "pow"])
        if k == "sum":
            return p.Sum(tuple(self.free(d - 1) for _ in range(r.randint(1, 3))))
        if k == "prod":
            return p.Product(tuple(self.free(d - 1) for _ in range(r.randint(1, 3))))
        if k == "quot":
            return p.Quotient(self.free(d - 1), self.free(d - 1))
        return p.Power(self.free(d - 1), r.choice([0, 1, 2, 3, -1]))

    def aff(self, d):
        r = self.r
        t = self.target()
        if t is None:
            return self.free(d)
        if d <= 0 or r.random() < 0.2:
            return t
        k = r.choice(["sum", "sum", "prod", "prod", "quot", "free"])
        if k == "sum":
            return p.Sum(tuple(self.aff(d - 1) if r.random() < 0.7 else self.free(d - 1)
                               for _ in range(r.randint(1, 4))))
        if k == "prod":
            n = r.randint(1, 3)
            at = r.randrange(n)
            return p.Product(tuple(self.aff(d - 1) if i == at else self.free(d - 1)
                                   for i in range(n)))
        if k == "quot":
            return p.Quotient(self.aff(d - 1), self.free(d - 1))
        return self.free(d)

    def nonaff(self, d):
        r = self.r
        t = self.target()
        if t is None:
            return self.free(d)
        k = r.choice(["prod2", "prod2", "den", "exp", "base", "hidden", "deep"])
        if k == "prod2":
            cs = [self.aff(d - 1), self.aff(d - 1)] + [self.free(d - 1) for _ in range(r.randint(0, 1))]
            r.shuffle(cs)
            return p.Product(tuple(cs))
        if k == "den":
            return p.Quotient(self.free(d - 1), self.aff(d - 1))
        if k == "exp":
            return p.Power(self.free(d - 1), self.aff(d - 1))
        if k == "base":
            return p.Power(self.aff(d - 1), r.choice([2, 3, 0, -1]))
        if k == "hidden" and self.tg is not None:
            inner = self.aff(max(d - 2, 0))
            leaf = r.choice([p.Subscript(p.Variable("a"), inner),
                             p.Call(p.Variable("f"), (inner,)),
                             p.Lookup(p.Subscript(p.Variable("a"), inner), "u")])
            return p.Sum((leaf, self.aff(d - 1)))
        return p.Sum((self.nonaff(max(d - 1, 1)), self.aff(d - 1)))

    def quirk(self, d):
        """a Lookup whose attribute name is a target name"""
        nm = self.r.choice(self.tg) if self.tg else "x"
        lk = p.Lookup(p.Variable("r"), nm)
        return self.r.choice([p.Product((lk, self.aff(d - 1))), p.Sum((lk, self.aff(d - 1))),
                              p.Quotient(self.aff(d - 1), lk)])


class SharedGen:
    """Expressions in which one COMPOUND subexpression (a Sum or Product that is affine in the
    targets, or a target-free one) occurs several times in different surroundings: bare, scaled
    from the left / right, as the numerator of a quotient by a constant (once, twice), as a
    denominator, inside a further sum; the occurrences in every order.  What the collector does
    with one occurrence must not depend on what it did with another."""

    DENS = [2, 3, 4, -2, 5, -1, 1, 6]

    def __init__(self, rng, tg):
        self.r = rng
        self.g = AffGen(rng, tg)

    def compound(self, d=2):
        """a Sum / Product that is affine in the targets (target-free when there are none)"""
        r, g = self.r, self.g
        for _ in range(20):
            k = r.random()
            if k < 0.5:
                n = r.randint(2, 3)
                c = p.Sum(tuple(g.aff(d - 1) if r.random() < 0.75 else g.free(d - 1)
                                for _ in range(n)))
            elif k < 0.85:
                fs = [g.aff(d - 1)] + [r.choice([g.const(), g.const(), g.free(d - 1)])
                                       for _ in range(r.randint(1, 2))]
                r.shuffle(fs)
                c = p.Product(tuple(fs))
            else:
                c = g.free(d)
            if isinstance(c, (p.Sum, p.Product)) and c.children:
                return c
        return p.Sum((g.aff(0), g.const()))

    def use(self, s, nonaffine=False):
        """one occurrence of `s` in some surroundings"""
        r, g = self.r, self.g
        c, c2 = r.choice(self.DENS), r.choice(self.DENS)
        f = g.free(1)
        if nonaffine:
            return r.choice([p.Product((s, s)), p.Quotient(f, s), p.Power(s, 2),
                             p.Product((p.Quotient(s, c), s))])
        return r.choice([
            s, s,
            p.Product((c, s)), p.Product((s, c)), p.Product((f, s)), p.Product((c, s, c2)),
            p.Quotient(s, c), p.Quotient(s, c), p.Quotient(s, f),
            p.Quotient(p.Quotient(s, c), c2),
            p.Quotient(p.Product((c, s)), c2),
            p.Product((c, p.Quotient(s, c2))),
            p.Sum((s, g.aff(1))), p.Sum((g.free(1), s)),
            p.Quotient(p.Sum((s, g.aff(1))), c),
        ])

    def over(self, pool, nonaffine=0.0):
        """an expression built from 1..4 occurrences of members of `pool`"""
        r = self.r
        uses = [self.use(r.choice(pool), nonaffine=r.random() < nonaffine)
                for _ in range(r.randint(1, 4))]
        if r.random() < 0.3:
            uses.append(self.g.aff(1))
        r.shuffle(uses)
        e = uses[0] if len(uses) == 1 else p.Sum(tuple(uses))
        k = r.random()
        if k < 0.12:
            e = p.Quotient(e, r.choice(self.DENS))
        elif k < 0.24:
            e = p.Product((r.choice(self.DENS), e))
        return e


def small_shapes():
    """all two-level and some three-level expressions over a small atom set"""
    x, y, pp = p.Variable("x"), p.Variable("y"), p.Variable("p")
    atoms = [x, y, 2, 0, pp, p.Subscript(p.Variable("a"), 0)]
    two = []
    for u in atoms:
        for v in atoms:
            two += [p.Product((u, v)), p.Quotient(u, v), p.Sum((u, v)), p.Power(u, v)]
    three = []
    for u in atoms:
        for v in atoms:
            for w in atoms:
                three += [p.Product((u, p.Sum((v, w)))), p.Quotient(p.Sum((u, v)), w),
                          p.Sum((p.Product((u, v)), w)), p.Product((u, v, w)),
                          p.Product((p.Quotient(u, v), w))]
    degenerate = [p.Sum(()), p.Product(()), p.Product((p.Sum(()), 2)), p.Product((x, p.Sum(()))),
                  p.Quotient(x, p.Sum(())), p.Sum((x, 1, x, 2, y)), p.Product((y, 2, x)),
                  p.Sum((x, p.Product((-1, x)))), p.Product((x, p.Sum((1, -1)))), True,
                  p.Product((True, x)), p.Quotient(p.Sum((x, 1)), 2), p.Quotient(0, 0),
                  p.Lookup(p.Variable("r"), "x"), p.Product((p.Lookup(p.Variable("r"), "x"), x)),
                  p.Subscript(p.Variable("a"), x), p.Call(p.Variable("f"), (x,)),
                  p.Sum((p.Subscript(p.Variable("a"), x), p.Product((2, x)))), 1.5,
                  p.Sum((1.5, x, 2)), p.Product((1.5, x)), (x,), [x], "abc", None,
                  p.FloorDiv(y, 2), p.If(x, 1, 2), p.CommonSubexpression(x), p.NaN(),
                  p.Wildcard(), p.DotWildcard("x"), p.StarWildcard("y"), p.FunctionSymbol(),
                  p.Power(p.Power(y, 2), 2), p.Power(2, p.Sum((1, 1))), p.Product((2, 3, 4))]
    return two, three, degenerate


class CoeffStream(Stream):
    name = "coefficients"

    def cases(self, rng, tier):
        two, three, degenerate = small_shapes()
        enc = lambda e: dumps(expr_to_sx(e))  # noqa: E731
        for e in degenerate:
            for tg in (None, ["x"], ["x", "y"], []):
                yield {"expr": enc(e), "targets": tg, "kind": "degenerate"}
        for e in two:
            for tg in TARGET_SETS:
                yield {"expr": enc(e), "targets": tg, "kind": "small2"}
        sample3 = three if tier != "quick" else rng.sample(three, 220)
        for e in sample3:
            for tg in (TARGET_SETS if tier != "quick" else [None, ["x"], ["y"], ["x", "y"]]):
                yield {"expr": enc(e), "targets": tg, "kind": "small3"}
        n = 2600 if tier == "quick" else 40000
        eg = ExprGen(rng, cse=0.02, floats=0.02, malformed=0.02)
        for i in range(n):
            tg = TARGET_SETS[i % len(TARGET_SETS)]
            g = AffGen(rng, tg)
            d = rng.randint(1, 4)
            k = rng.random()
            if k < 0.45:
                e, kind = g.aff(d), "affine"
            elif k < 0.7:
                e, kind = g.nonaff(d), "nonaffine"
            elif k < 0.82:
                e, kind = g.free(d), "free"
            elif k < 0.9:
                e, kind = g.quirk(d), "lookup-name"
            else:
                e, kind = eg.gen("num", rng.randint(1, 3)), "random"
            yield {"expr": enc(e), "targets": tg, "kind": kind}
        # one compound subexpression several times in one expression (see SharedGen)
        for i in range(500 if tier == "quick" else 8000):
            tg = TARGET_SETS[i % len(TARGET_SETS)]
            sg = SharedGen(rng, tg)
            pool = [sg.compound(rng.randint(1, 2)) for _ in range(rng.randint(1, 2))]
            e = sg.over(pool, nonaffine=0.08)
            yield {"expr": enc(e), "targets": tg, "kind": "shared"}

    def request(self, pl):
        return f"(c15-coeffs {tg_req(pl['targets'])} {pl['expr']})"

    @staticmethod
    def _run(pl):
        from pymbolic.mapper.coefficient import CoefficientCollector
        e = sx_to_expr(loads(pl["expr"]))
        return e, CoefficientCollector(pl["targets"])(e)

    def run_impl(self, pl):
        try:
            _e, d = self._run(pl)
        except RecursionError:
            raise
        except Exception as ex:
            return err_sx(ex)
        return "(dict" + "".join(f" ({dumps(expr_to_sx(k))} {dumps(expr_to_sx(c))})"
                                 for k, c in d.items()) + ")"

    def oracle(self, pl):
        tg = pl["targets"]
        if has_exotic(sx_to_expr(loads(pl["expr"]))):
            return None
        try:
            e, d = self._run(pl)
        except RecursionError:
            raise
        except Exception as ex:
            e, d = sx_to_expr(loads(pl["expr"])), ex
        verdict = judge_coeffs(e, tg, d)
        if verdict is None:
            return None
        return Failure(verdict[0], verdict[1], pl)

    def shrink(self, pl):
        for s in sx_shrinks(loads(pl["expr"])):
            yield {**pl, "expr": dumps(s)}

    def nontrivial_key(self, pl, model, impl):
        if impl in ("(err Unsupported)", "(err Foreign)", "(err NotImplemented)"):
            return None
        return pl["expr"] + tg_req(pl["targets"])

    def stats(self, pl, mo, io, acc):
        o = acc.setdefault("outcomes", {})
        k = "dict" if io.startswith("(dict") else io
        o[k] = o.get(k, 0) + 1
        kk = acc.setdefault("kinds", {})
        kk[pl["kind"]] = kk.get(pl["kind"], 0) + 1
        if io.startswith("(dict"):
            e = sx_to_expr(loads(pl["expr"]))
            n = 0
            for env in ENV_BOX:
                try:
                    qeval(e, env)
                    n += 1
                except Exception:
                    pass
            acc["value_checked_envs"] = acc.get("value_checked_envs", 0) + n

# }}}


# {{{ stream 1b: one collector object, several expressions one after the other

def _dict_text(d):
    try:
        return [(dumps(expr_to_sx(k)), dumps(expr_to_sx(c))) for k, c in d.items()]
    except Exception:
        return [(show(k), show(c)) for k, c in d.items()]


class CoeffHistoryStream(Stream):
    """The collector clause on HISTORIES: one or two long-lived `CoefficientCollector` objects
    (their own target sets) are applied to a sequence of expressions that share compound
    subexpressions (`SharedGen`: the same sum / product bare, scaled, divided by a constant, ... in
    one expression after the other; equal trees either as one shared object or as separate equal
    objects).  The `coefficients` stream makes a fresh collector for every expression, so nothing a
    collector keeps between calls is ever seen there.  Every call is judged by the statement itself
    (`judge_coeffs`: keys are targets, coefficients free of targets, the linear form evaluates to
    the expression; affine input is not rejected), and every returned dictionary is judged again
    when the history is over (a later call must not change what an earlier one returned).  A step
    that fails only on the reused collector is keyed `reused-collector:<key>`; one that fails on a
    fresh collector as well keeps the plain key of the `coefficients` stream."""
    name = "coefficients-history"
    has_model = False

    def cases(self, rng, tier):
        enc = lambda e: dumps(expr_to_sx(e))  # noqa: E731
        n = 420 if tier == "quick" else 8000
        named = [t for t in TARGET_SETS if t]
        for i in range(n):
            tgs = [TARGET_SETS[i % len(TARGET_SETS)]]
            if rng.random() < 0.3:
                tgs.append(rng.choice(TARGET_SETS))
            sg = SharedGen(rng, tgs[0] if tgs[0] != [] else rng.choice(named))
            pool = [sg.compound(rng.randint(1, 2)) for _ in range(rng.randint(1, 3))]
            steps = []
            for _ in range(rng.randint(2, 6)):
                k = rng.random()
                if k < 0.2:
                    e = rng.choice(pool)
                elif k < 0.85:
                    e = sg.over(pool, nonaffine=0.05)
                elif k < 0.93 and steps:
                    # an earlier expression of this history again, as it is or inside a new one
                    prev = sx_to_expr(loads(rng.choice(steps)[1]))
                    e = rng.choice([prev, p.Quotient(prev, rng.choice(SharedGen.DENS)),
                                    p.Sum((prev, sg.g.aff(1)))])
                else:
                    e = sg.g.aff(rng.randint(1, 3))
                steps.append([rng.randrange(len(tgs)), enc(e)])
            yield {"collectors": tgs, "share": rng.random() < 0.5, "steps": steps}
        # the plain patterns for every target set: a compound, divided / scaled / bare, every order
        x, y, z = (p.Variable(v) for v in "xyz")
        for comp in (p.Sum((x, p.Product((2, y)), z)), p.Product((2, x)), p.Sum((x, 3))):
            forms = [comp, p.Quotient(comp, 2), p.Product((3, comp)),
                     p.Sum((p.Quotient(comp, 4), comp)), p.Quotient(p.Quotient(comp, 2), 3)]
            orders = list(itertools.permutations(range(len(forms)), 3))
            if tier == "quick":
                orders = rng.sample(orders, 12)
            for order in orders:
                for tg in (None, ["x"], ["x", "y"]):
                    yield {"collectors": [tg], "share": bool(order[0] % 2),
                           "steps": [[0, enc(forms[j])] for j in order]}

    def request(self, pl):
        return "(noop)"

    @staticmethod
    def _exprs(pl):
        from ..sexp import hashcons
        memo = {}
        es = [sx_to_expr(loads(sx)) for _ci, sx in pl["steps"]]
        if pl.get("share"):
            es = [hashcons(e, memo) for e in es]
        return es

    def _run(self, pl):
        """[(expression, target set, dictionary | exception, text of the dictionary when returned)]"""
        from pymbolic.mapper.coefficient import CoefficientCollector
        ccs = [CoefficientCollector(tg) for tg in pl["collectors"]]
        rows = []
        for (ci, _sx), e in zip(pl["steps"], self._exprs(pl)):
            try:
                d = ccs[ci](e)
            except RecursionError:
                raise
            except Exception as ex:
                rows.append((e, pl["collectors"][ci], ex, None))
                continue
            rows.append((e, pl["collectors"][ci], d, _dict_text(d) if isinstance(d, dict) else None))
        return rows

    def run_impl(self, pl):
        out = []
        for _e, _tg, d, _t in self._run(pl):
            if isinstance(d, BaseException):
                out.append(err_sx(d))
            else:
                out.append("(dict" + "".join(f" ({dumps(expr_to_sx(k))} {dumps(expr_to_sx(c))})"
                                             for k, c in d.items()) + ")")
        return "(" + " ".join(out) + ")"

    def oracle(self, pl):
        from pymbolic.mapper.coefficient import CoefficientCollector
        rows = self._run(pl)
        judged = []
        for n, (e, tg, d, _text) in enumerate(rows):
            if has_exotic(e):
                judged.append(None)
                continue
            v = judge_coeffs(e, tg, d)
            judged.append(v)
            if v is None:
                continue
            # the same expression on a collector that has seen nothing else
            try:
                fresh = CoefficientCollector(tg)(sx_to_expr(loads(pl["steps"][n][1])))
            except RecursionError:
                raise
            except Exception as ex:
                fresh = ex
            v2 = judge_coeffs(e, tg, fresh)
            where = (f"step {n} of {len(rows)} on collector {pl['steps'][n][0]} "
                     f"(targets {tg}), expression {show(e)}: ")
            if v2 is not None and v2[0] == v[0]:
                return Failure(v[0], where + v[1], pl)
            return Failure("reused-collector:" + v[0],
                           where + v[1] + " (a fresh collector gets this expression right)", pl)
        for n, (e, tg, d, text) in enumerate(rows):
            if text is None or has_exotic(e):
                continue
            if _dict_text(d) != text:
                v = judge_coeffs(e, tg, d)
                if v is not None:
                    return Failure("returned-dict-changed-later:" + v[0],
                                   f"the dictionary returned at step {n} for {show(e)} (targets {tg}) "
                                   f"was {text} and is {_dict_text(d)} after the later calls: " + v[1], pl)
        return None

    def shrink(self, pl):
        steps = pl["steps"]
        for i in range(len(steps)):
            if len(steps) > 1:
                yield {**pl, "steps": steps[:i] + steps[i + 1:]}
        if len(pl["collectors"]) > 1 and all(ci == 0 for ci, _ in steps):
            yield {**pl, "collectors": pl["collectors"][:1]}
        if pl.get("share"):
            yield {**pl, "share": False}
        for i, (ci, sx) in enumerate(steps):
            for sm in sx_shrinks(loads(sx)):
                yield {**pl, "steps": steps[:i] + [[ci, dumps(sm)]] + steps[i + 1:]}

    def nontrivial_key(self, pl, model, impl):
        return str(pl["collectors"]) + str(pl["steps"])

    def stats(self, pl, mo, io, acc):
        acc["steps"] = acc.get("steps", 0) + len(pl["steps"])
        acc["two_collectors"] = acc.get("two_collectors", 0) + (len(pl["collectors"]) > 1)
        acc["shared_objects"] = acc.get("shared_objects", 0) + bool(pl.get("share"))

# }}}


# {{{ exact Fraction linear algebra (independent reference)

def rref(rows, ncols_pivot):
    """Reduced row echelon form over Q of a list of rows; pivots only in the first
    `ncols_pivot` columns.  Returns (rows without zero rows, pivot columns)."""
    m = [[Fraction(v) for v in r] for r in rows]
    piv = []
    r = 0
    for c in range(ncols_pivot):
        k = next((i for i in range(r, len(m)) if m[i][c] != 0), None)
        if k is None:
            continue
        m[r], m[k] = m[k], m[r]
        pv = m[r][c]
        m[r] = [v / pv for v in m[r]]
        for i in range(len(m)):
            if i != r and m[i][c] != 0:
                f = m[i][c]
                m[i] = [a - f * b for a, b in zip(m[i], m[r])]
        piv.append(c)
        r += 1
    return m, piv


def classify_system(a_rows, b_rows, n):
    """'unique' (+ solution rows), 'underdetermined' or 'inconsistent' for A X = B over Q,
    identically in the columns of B."""
    if not a_rows:
        return ("underdetermined" if n > 0 else "unique"), []
    aug = [list(a) + list(b) for a, b in zip(a_rows, b_rows)]
    m, piv = rref(aug, n)
    for row in m:
        if all(v == 0 for v in row[:n]) and any(v != 0 for v in row[n:]):
            return "inconsistent", []
    if len(piv) < n:
        return "underdetermined", []
    return "unique", [m[i][n:] for i in range(n)]



def free_column_pattern(a_rows, n):
    """(pivot columns, {free column: number of non-zero entries}) of the reduced row echelon form
    of A over Q, columns in the given order.  The reduced form is unique, so this is a property of
    the system and of the order of its unknowns, not of any elimination routine."""
    if not a_rows:
        return [], {j: 0 for j in range(n)}
    m, piv = rref([list(a) for a in a_rows], n)
    return piv, {j: sum(1 for row in m if row[j] != 0) for j in range(n) if j not in piv}


def in_row_space(rows, row):
    """is `row` a rational combination of `rows`?"""
    width = len(row)
    if not rows:
        return all(v == 0 for v in row)
    _m1, p1 = rref([list(r) for r in rows], width)
    _m2, p2 = rref([list(r) for r in rows] + [list(row)], width)
    return len(p1) == len(p2)


def singular_shape(a_rows, b_rows, n, vals, satisfied):
    """Classification of an ACCEPTED system A X = B that has no unique solution.

    `vals[j]` is the value returned for unknown j as a row over the columns of B.  Returns
    (key suffix, explanation).  The suffix is empty exactly for the shape the known findings
    describe: in the reduced row echelon form of A every column (pivot or free) has exactly one
    non-zero entry, and every unknown got the value obtained by reading a combination of the given
    equations that reduces to that single row "as if the unknown were alone in it", i.e. the row
    (R_i | R_ij * value_j) is a rational combination of the rows of [A | B].  Anything else — a free
    unknown that occurs in no equation or in two or more reduced rows, or a value that is not the
    read-off of any combination of the equations — is a different failure and gets its own key:
        :free=<which of 0 / 1 / 2+ occur as the number of non-zero entries of a free column of
               the reduced form, `none` without free columns>:<satisfied|unsatisfied>
        :free=...:misread:<satisfied|unsatisfied>
    (satisfied = the returned assignment happens to satisfy every equation)."""
    piv, free = free_column_pattern(a_rows, n)
    counts = sorted(free.values())
    sat = "satisfied" if satisfied else "unsatisfied"
    classes = sorted({"0" if c == 0 else "1" if c == 1 else "2+" for c in counts})
    tag = ":free=" + (",".join(classes) if classes else "none")
    if any(c != 1 for c in counts):
        return f"{tag}:{sat}", (
            f"free unknown columns {sorted(free)} have {[free[j] for j in sorted(free)]} non-zero "
            f"entries in the reduced row echelon form")
    red, _ = rref([list(a) for a in a_rows], n) if a_rows else ([], [])
    red = [row for row in red if any(v != 0 for v in row)]
    aug = [list(a) + list(b) for a, b in zip(a_rows, b_rows)]
    for j in range(n):
        rows_j = [row for row in red if row[j] != 0]
        if len(rows_j) != 1:
            return f"{tag}:{sat}", f"column {j} has {len(rows_j)} non-zero entries"
        row = rows_j[0]
        if not in_row_space(aug, list(row) + [row[j] * v for v in vals[j]]):
            return f"{tag}:misread:{sat}", (
                f"the value of unknown {j} is not read off any combination of the equations")
    return "", ""

# }}}


# {{{ stream 2: gaussian_elimination

class GaussStream(Stream):
    name = "gauss"

    def cases(self, rng, tier):
        vals = [-2, -1, 0, 1, 2]
        shapes = [(1, 1, 1), (1, 2, 1), (2, 1, 1), (1, 1, 2)]
        for (m, n, w) in shapes:
            for ent in itertools.product(vals, repeat=m * (n + w)):
                yield self._mk(m, n, w, ent)
        if tier != "quick":
            for ent in itertools.product(vals, repeat=6):
                yield self._mk(2, 2, 1, ent)
        count = 1500 if tier == "quick" else 20000
        for _ in range(count):
            m, n, w = rng.randint(1, 3), rng.randint(1, 3), rng.randint(1, 3)
            big = rng.random() < 0.15
            ent = [rng.randint(-9, 9) if big else rng.choice(vals) for _ in range(m * (n + w))]
            yield self._mk(m, n, w, ent)
        for m, n in ((0, 2), (2, 0)):
            yield {"m": m, "n": n, "rows": [[[0] * n, [1]] for _ in range(m)]}

    @staticmethod
    def _mk(m, n, w, ent):
        ent = list(ent)
        rows = []
        for i in range(m):
            chunk = ent[i * (n + w):(i + 1) * (n + w)]
            rows.append([chunk[:n], chunk[n:]])
        return {"m": m, "n": n, "rows": rows}

    def request(self, pl):
        rows = " ".join("((" + " ".join(map(str, a)) + ") (" + " ".join(map(str, b)) + "))"
                        for a, b in pl["rows"])
        return f"(c15-gauss {pl['m']} {pl['n']} ({rows}))"

    @staticmethod
    def _run(pl):
        import numpy as np
        from pymbolic.algorithm import gaussian_elimination
        m, n = pl["m"], pl["n"]
        w = len(pl["rows"][0][1]) if pl["rows"] else 1
        mat = np.zeros((m, n), dtype=object)
        rhs = np.zeros((m, w), dtype=object)
        for i, (a, b) in enumerate(pl["rows"]):
            for j, v in enumerate(a):
                mat[i, j] = v
            for j, v in enumerate(b):
                rhs[i, j] = v
        mat, rhs = gaussian_elimination(mat, rhs)
        return [[int(v) for v in mat[i]] for i in range(m)], [[int(v) for v in rhs[i]] for i in range(m)]

    def run_impl(self, pl):
        try:
            a, b = self._run(pl)
        except Exception as ex:
            return err_sx(ex)
        return "(" + " ".join("((" + " ".join(map(str, r)) + ") (" + " ".join(map(str, s)) + "))"
                              for r, s in zip(a, b)) + ")"

    def oracle(self, pl):
        try:
            a, b = self._run(pl)
        except Exception as ex:
            return Failure("gauss-raises", f"{type(ex).__name__}: {ex}", pl)
        n = pl["n"]
        before = [list(r) + list(s) for r, s in pl["rows"]]
        after = [list(r) + list(s) for r, s in zip(a, b)]
        width = len(before[0]) if before else 0
        r1, _ = rref(before, width)
        r2, _ = rref(after, width)
        nz = lambda rows: [r for r in rows if any(v != 0 for v in r)]  # noqa: E731
        if nz(r1) != nz(r2):
            return Failure("gauss-changes-solutions",
                           f"row space of [mat|rhs] changed: {pl['rows']} -> {list(zip(a, b))}", pl)
        return None

    def shrink(self, pl):
        rows = pl["rows"]
        for i in range(len(rows)):
            if len(rows) > 1:
                yield {**pl, "m": pl["m"] - 1, "rows": rows[:i] + rows[i + 1:]}
        for i, (a, b) in enumerate(rows):
            for j, v in enumerate(a + b):
                if v != 0:
                    for nv in (0, v // 2 if abs(v) > 1 else 0):
                        ab = list(a + b)
                        ab[j] = nv
                        yield {**pl, "rows": rows[:i] + [[ab[:len(a)], ab[len(a):]]] + rows[i + 1:]}

    def stats(self, pl, mo, io, acc):
        k = f"{pl['m']}x{pl['n']}"
        acc[k] = acc.get(k, 0) + 1

# }}}


# {{{ stream 3: solve_affine_equations_for

UNKNOWNS = ["x", "y", "z"]
PARAMS = [p.Variable("p"), p.Variable("q"), p.Subscript(p.Variable("a"), 0)]


def term(c, atom):
    """c*atom as an explicit tree (no operator folding), a few spellings"""
    if atom is None:
        return c
    if c == 1:
        return atom
    return p.Product((c, atom))


def side(terms):
    """terms: [(coefficient, atom or None)] -> expression"""
    ts = [term(c, a) for c, a in terms]
    if not ts:
        return 0
    if len(ts) == 1:
        return ts[0]
    return p.Sum(tuple(ts))


class SolveStream(Stream):
    name = "solve"

    @staticmethod
    def _system(rng, unk, rows, rhs_rows, params, style):
        """rows: m x n ints (columns in the order of `unk`); rhs_rows: m x (len(params)+1) ints"""
        enc = lambda e: dumps(expr_to_sx(e))  # noqa: E731
        unk = list(unk)
        eqs = []
        for a, b in zip(rows, rhs_rows):
            lt = [(c, p.Variable(u)) for c, u in zip(a, unk)]
            rt = [(c, pa) for c, pa in zip(b[:-1], params)] + [(b[-1], None)]
            if style == "drop0":
                lt = [t for t in lt if t[0] != 0]
                rt = [t for t in rt if t[0] != 0]
            elif style == "split":
                # move some terms to the other side (sign flipped); no atom on both sides
                l2, r2 = [], []
                for c, a_ in lt:
                    if rng.random() < 0.65:
                        l2.append((c, a_))
                    else:
                        r2.append((-c, a_))
                for c, a_ in rt:
                    if rng.random() < 0.65:
                        r2.append((c, a_))
                    else:
                        l2.append((-c, a_))
                rng.shuffle(l2)
                rng.shuffle(r2)
                lt, rt = l2, r2
            elif style == "twosided":
                # add the same extra term to both sides (the true system is unchanged)
                extra = rng.choice([(rng.choice([1, 2, -1]), p.Variable(rng.choice(unk))),
                                    (rng.choice([1, 3]), None)]
                                   + ([(rng.choice([1, -2]), params[0])] if params else []))
                lt, rt = lt + [extra], rt + [extra]
            eqs.append([enc(side(lt)), enc(side(rt))])
        return {"unknowns": unk, "eqs": eqs, "style": style}

    def cases(self, rng, tier):
        vals = [-2, -1, 0, 1, 2]
        enc = lambda e: dumps(expr_to_sx(e))  # noqa: E731

        def system(n, rows, rhs_rows, params, style):
            return self._system(rng, UNKNOWNS[:n], rows, rhs_rows, params, style)

        def rhs_choices(m, params, exhaustive_const):
            w = len(params) + 1
            if exhaustive_const and not params:
                return [[[c] for c in cs] for cs in itertools.product(vals, repeat=m)]
            return [[[rng.choice(vals) for _ in range(w)] for _ in range(m)] for _ in range(2)]

        # exhaustive matrices, n = 1, 2 (quick) and 3 (thorough: sampled rows)
        for n in (1, 2):
            for m in ((1, 2) if n == 1 else (1, 2, 3)):
                mats = list(itertools.product(vals, repeat=m * n))
                if n == 2 and m == 3 and tier == "quick":
                    mats = rng.sample(mats, 400)
                for ent in mats:
                    rows = [list(ent[i * n:(i + 1) * n]) for i in range(m)]
                    for params in ([], PARAMS[:1], PARAMS[:2] if tier != "quick" or rng.random() < 0.3 else []):
                        for rr in rhs_choices(m, params, exhaustive_const=(m * n <= 2)):
                            style = rng.choice(["plain", "plain", "drop0", "split", "split", "twosided"])
                            yield system(n, rows, rr, params, style)
        count = 600 if tier == "quick" else 30000
        for _ in range(count):
            n = 3 if rng.random() < 0.7 else rng.randint(1, 2)
            m = rng.randint(max(1, n - 1), n + 1)
            rows = [[rng.choice(vals) for _ in range(n)] for _ in range(m)]
            if rng.random() < 0.5:
                # unimodular-ish: start from a permuted triangular system so that many are solvable
                rows = [[(1 if i == j else (rng.choice(vals) if j > i else 0)) for j in range(n)]
                        for i in range(min(m, n))] + rows[n:]
                rng.shuffle(rows)
            params = PARAMS[:rng.randint(0, 3)]
            rr = [[rng.choice(vals) for _ in range(len(params) + 1)] for _ in range(m)]
            yield system(n, rows, rr, params, rng.choice(["plain", "drop0", "split", "twosided"]))
        # the documented examples and degenerate shapes
        x, y, pp = p.Variable("x"), p.Variable("y"), p.Variable("p")
        for unk, eqs in [(["x", "y"], [(p.Sum((x, y)), 5)]), (["x"], [(x, 5), (x, 6)]),
                         (["x"], [(p.Sum((x, 1)), 2)]), (["x"], [(p.Product((2, x)), p.Sum((x, 3)))]),
                         (["x"], [(x, p.Sum((x, 1)))]), (["x"], []), ([], [(pp, 1)]),
                         (["x"], [(p.Product((x, x)), 1)]), (["x"], [(p.Quotient(x, 2), 1)]),
                         (["x"], [(x, p.Product((pp, pp)))]), (["x"], [(x, p.Power(2, 3))]),
                         (["x", "y"], [(p.Sum((x, y)), 0)]), (["x"], [(p.Product((0, x)), 0)]),
                         (["x", "x"], [(x, 1)]), (["x"], [(x, p.FloorDiv(pp, 2))])]:
            yield {"unknowns": unk, "eqs": [[enc(l), enc(r)] for l, r in eqs], "style": "example"}

    def request(self, pl):
        names = " ".join(dumps(u) for u in pl["unknowns"])
        eqs = " ".join(f"({l} {r})" for l, r in pl["eqs"])
        return f"(c15-solve ({names}) ({eqs}))"

    @staticmethod
    def _eqs(pl):
        return [(sx_to_expr(loads(l)), sx_to_expr(loads(r))) for l, r in pl["eqs"]]

    def _run(self, pl):
        from pymbolic.algorithm import solve_affine_equations_for
        return solve_affine_equations_for(list(pl["unknowns"]), self._eqs(pl))

    def run_impl(self, pl):
        try:
            res = self._run(pl)
        except RecursionError:
            raise
        except Exception as ex:
            return err_sx(ex)
        return "(sol" + "".join(f" ({dumps(expr_to_sx(k))} {dumps(expr_to_sx(v))})"
                                for k, v in res.items()) + ")"

    def agree(self, model, impl, pl):
        if model == "(noclaim)":
            return "trivial"
        try:
            alts = loads(model)
        except Exception:
            return "diff"
        if not (isinstance(alts, list) and alts and alts[0] == "alts"):
            return "diff"
        texts = [dumps(a) for a in alts[1:]]
        if impl in texts:
            return "ok"
        if texts and all(t == "(noclaim)" for t in texts):
            return "trivial"
        return "diff"

    # --- the property's own statement -------------------------------------------------------
    ATOMS = ["x", "y", "z", "w", "p", "q", "a0", "a1"]
    NUNK = 4                      # ATOMS[:NUNK] may be unknowns, the rest are parameters

    @staticmethod
    def _env_of(vec):
        return {"x": vec[0], "y": vec[1], "z": vec[2], "w": vec[3], "p": vec[4], "q": vec[5],
                "a": (vec[6], vec[7], Fraction(0))}

    def _linear_form(self, e):
        """coefficients of `e` w.r.t. ATOMS and its constant term, found by exact evaluation at
        the origin and the unit points; None if `e` is not affine in them (checked at two more
        points) or does not evaluate."""
        k = len(self.ATOMS)
        zero = [Fraction(0)] * k
        try:
            c0 = qeval(e, self._env_of(zero))
            cs = []
            for i in range(k):
                v = list(zero)
                v[i] = Fraction(1)
                cs.append(qeval(e, self._env_of(v)) - c0)
            for pt in ([Fraction(2), Fraction(-3), Fraction(5), Fraction(-7, 4), Fraction(7, 2),
                        Fraction(-1, 3), Fraction(4), Fraction(9, 5)],
                       [Fraction(-1, 2), Fraction(3), Fraction(2, 7), Fraction(8, 3), Fraction(-6),
                        Fraction(1), Fraction(5, 3), Fraction(-2)]):
                if qeval(e, self._env_of(pt)) != c0 + sum(c * v for c, v in zip(cs, pt)):
                    return None
        except RecursionError:
            raise
        except Exception:
            return None
        return cs, c0

    def _judge(self, res, forms, unk):
        """None, or (kind, detail): the statement checked on one returned assignment against the
        true linear forms `forms` = [(coefficients over ATOMS of lhs-rhs, constant of rhs-lhs)]."""
        uidx = [self.ATOMS.index(u) for u in unk]
        pidx = [i for i in range(len(self.ATOMS)) if i not in uidx]
        a_rows = [[f[0][i] for i in uidx] for f in forms]
        b_rows = [[-f[0][i] for i in pidx] + [f[1]] for f in forms]
        status, sol = classify_system(a_rows, b_rows, len(unk))
        shown = ", ".join(f"{k}={v}" for k, v in res.items())
        got = {}
        for u in unk:
            key = p.Variable(u)
            if key not in res:
                return "missing-unknown", f"no value for {u}"
            gf = self._linear_form(res[key])
            if gf is None:
                return "value-not-affine", f"{u} = {res[key]}"
            if any(gf[0][i] != 0 for i in uidx):
                return "value-mentions-unknown", f"{u} = {res[key]}"
            got[u] = gf
        bad = None
        for n_eq, (coef, const) in enumerate(forms):
            # sum_u coef_u * x_u + sum_p coef_p * p  ==  const, identically in the parameters
            tot = [Fraction(0)] * len(self.ATOMS)
            c = -const
            for u, ui in zip(unk, uidx):
                gc, g0 = got[u]
                for i in pidx:
                    tot[i] += coef[ui] * gc[i]
                c += coef[ui] * g0
            for i in pidx:
                tot[i] += coef[i]
            if any(tot[i] != 0 for i in pidx) or c != 0:
                bad = f"equation {n_eq} is not satisfied by {shown}"
                break
        if status in ("underdetermined", "inconsistent"):
            vals = [[got[u][0][i] for i in pidx] + [got[u][1]] for u in unk]
            shape, why = singular_shape(a_rows, b_rows, len(unk), vals, bad is None)
            why = f" [{why}]" if why else ""
            if status == "underdetermined":
                return "accepts-underdetermined" + shape, (
                    "accepted although the unknowns are not uniquely determined: "
                    + (bad or shown) + why)
            return "accepts-inconsistent" + shape, (
                "accepted an inconsistent system: " + (bad or shown) + why)
        if any(v.denominator != 1 for row in sol for v in row):
            return "accepts-nonintegral", f"accepted although the unique solution is not integral: {shown}"
        if bad is not None:
            return "wrong-solution", bad
        return None

    def _normalised(self, forms, unk):
        """the same system with every unknown term on the left and every parameter/constant term
        on the right (no atom on both sides)"""
        uidx = [self.ATOMS.index(u) for u in unk]
        atoms = [p.Variable("x"), p.Variable("y"), p.Variable("z"), p.Variable("w"),
                 p.Variable("p"), p.Variable("q"),
                 p.Subscript(p.Variable("a"), 0), p.Subscript(p.Variable("a"), 1)]
        assert len(atoms) == len(self.ATOMS)
        eqs = []
        for coef, const in forms:
            lt = [(coef[i], atoms[i]) for i in uidx if coef[i] != 0]
            rt = [(-coef[i], atoms[i]) for i in range(len(atoms)) if i not in uidx and coef[i] != 0]
            if any(c.denominator != 1 for c, _a in lt + rt) or const.denominator != 1:
                return None
            rt.append((const, None))
            eqs.append((side([(int(c), a_) for c, a_ in lt]), side([(int(c), a_) for c, a_ in rt])))
        return eqs

    def oracle(self, pl):
        try:
            res = self._run(pl)
        except RecursionError:
            raise
        except Exception:
            return None              # raising is always allowed by the statement
        unk = list(pl["unknowns"])
        if len(set(unk)) != len(unk) or any(u not in self.ATOMS[:self.NUNK] for u in unk):
            return None
        forms = []
        for l, r in self._eqs(pl):
            fl, fr = self._linear_form(l), self._linear_form(r)
            if fl is None or fr is None:
                return None          # not an affine system over the atoms: outside this oracle
            forms.append(([a - b for a, b in zip(fl[0], fr[0])], fr[1] - fl[1]))
        verdict = self._judge(res, forms, unk)
        if verdict is None:
            return None
        kind, detail = verdict
        # which defect?  Re-pose the same system with all unknown terms on the left and all other
        # terms on the right: if the solver handles that correctly, the failure comes from the way
        # terms on both sides of one equation are combined.
        norm = self._normalised(forms, unk)
        if norm is not None:
            from pymbolic.algorithm import solve_affine_equations_for
            try:
                res2 = solve_affine_equations_for(unk, norm)
                v2 = self._judge(res2, forms, unk)
            except Exception:
                v2 = None
            if v2 is None:
                return Failure("solver-overwrites-two-sided-term",
                               detail + " (correct once every term is moved to one side)", pl)
            kind = v2[0]
        return Failure("solver-" + kind, detail, pl)

    def shrink(self, pl):
        eqs = pl["eqs"]
        for i in range(len(eqs)):
            if len(eqs) > 1:
                yield {**pl, "eqs": eqs[:i] + eqs[i + 1:]}
        if len(pl["unknowns"]) > 1:
            yield {**pl, "unknowns": pl["unknowns"][:-1]}
        for i, (l, r) in enumerate(eqs):
            for s in sx_shrinks(loads(l)):
                yield {**pl, "eqs": eqs[:i] + [[dumps(s), r]] + eqs[i + 1:]}
            for s in sx_shrinks(loads(r)):
                yield {**pl, "eqs": eqs[:i] + [[l, dumps(s)]] + eqs[i + 1:]}

    def nontrivial_key(self, pl, model, impl):
        return dumps(pl["unknowns"]) + str(pl["eqs"])

    def stats(self, pl, mo, io, acc):
        o = acc.setdefault("outcomes", {})
        k = "solution" if io.startswith("(sol") else io
        o[k] = o.get(k, 0) + 1
        s = acc.setdefault("styles", {})
        s[pl["style"]] = s.get(pl["style"], 0) + 1

# }}}


# {{{ stream 3b: solve_affine_equations_for on rank-deficient systems of every shape

def rref_patterns(n, entries):
    """every reduced row echelon form of rank r < n with n columns whose free entries are drawn
    from `entries`: (pivot columns, r x n matrix).  A free column j can have an entry in row i only
    if the pivot of row i lies to its left."""
    for r in range(0, n):
        for piv in itertools.combinations(range(n), r):
            slots = [(i, j) for j in range(n) if j not in piv for i in range(r) if piv[i] < j]
            for ent in itertools.product(entries, repeat=len(slots)):
                mat = [[0] * n for _ in range(r)]
                for i, pc in enumerate(piv):
                    mat[i][pc] = 1
                for (i, j), v in zip(slots, ent):
                    mat[i][j] = v
                yield piv, mat


class SingularSolveStream(SolveStream):
    """Systems that do NOT determine their unknowns, of every shape: for n = 2, 3, 4 unknowns every
    reduced row echelon form of rank r < n over {-1, 0, 1} (every pivot set = every order of the
    unknowns, every pattern of the free columns: absent from all rows, in one row, in several
    rows), disguised by unimodular row operations, with dependent extra rows (k equations in n > k
    unknowns ... square and over-square singular systems), consistent or not, with parameters, in
    the spellings of the `solve` stream (terms on both sides, dropped zeros) and under a random
    naming of the columns; plus all 2 x 3 and 1 x 3 matrices over {-1, 0, 1} and sampled singular
    3 x 3 matrices as they are.  Same model, same oracle as `solve`: the statement demands a raise
    for every one of these; the failure key tells the accepted shape (see `singular_shape`)."""
    name = "solve-singular"
    NAMES = ["x", "y", "z", "w"]

    @staticmethod
    def _rowop(rng, rows, rhs):
        """one unimodular row operation on [rows | rhs] in place"""
        m = len(rows)
        if m >= 2 and rng.random() < 0.8:
            i, k = rng.sample(range(m), 2)
            c = rng.choice([1, -1, 1, -1, 2])
            rows[i] = [a + c * b for a, b in zip(rows[i], rows[k])]
            rhs[i] = [a + c * b for a, b in zip(rhs[i], rhs[k])]
        elif m >= 1:
            i = rng.randrange(m)
            rows[i] = [-a for a in rows[i]]
            rhs[i] = [-a for a in rhs[i]]

    def _variant(self, rng, n, mat, n_ops, n_extra, inconsistent, tag):
        vals = [-2, -1, 0, 1, 2]
        params = PARAMS[:rng.choice([0, 1, 1, 2])]
        w = len(params) + 1
        rows = [list(r) for r in mat]
        rhs = [[rng.choice(vals) for _ in range(w)] for _ in rows]
        for _ in range(n_ops):
            self._rowop(rng, rows, rhs)
        base = list(zip(rows, rhs))
        for _ in range(n_extra):
            cs = [rng.choice([-1, 0, 1, 1, 2]) for _ in base]
            rows.append([sum(c * a[j] for c, (a, _b) in zip(cs, base)) for j in range(n)])
            rhs.append([sum(c * b[j] for c, (_a, b) in zip(cs, base)) for j in range(w)])
        if inconsistent and n_extra:
            k = len(rows) - 1 - rng.randrange(n_extra)
            rhs[k][rng.randrange(w)] += rng.choice([1, -1, 2])
        order = list(range(len(rows)))
        rng.shuffle(order)
        rows = [rows[i] for i in order]
        rhs = [rhs[i] for i in order]
        names = rng.sample(self.NAMES, n)
        style = rng.choice(["plain", "plain", "drop0", "split", "twosided"])
        pl = self._system(rng, names, rows, rhs, params, style)
        pl["shape"] = tag
        return pl

    def cases(self, rng, tier):
        quick = tier == "quick"
        for n in (2, 3, 4):
            pats = list(rref_patterns(n, [0, 1, -1]))
            if not quick:
                more = list(rref_patterns(n, [0, 1, -1, 2, -2]))
                pats += more if len(more) <= 400 else rng.sample(more, 400)
            for piv, mat in pats:
                r = len(piv)
                tag = f"n{n}r{r}"
                if r == 0:
                    # no unknown occurs at all: one or two rows 0 = rhs (and no equation at all)
                    plans = [(0, 1, False), (0, 2, False), (0, 1, True)]
                else:
                    plans = [(0, 0, False),              # the reduced form itself
                             (2, 0, False),              # disguised, k = r equations
                             (1, 1, False),              # one dependent extra row
                             (rng.randint(0, 2), n - r, False),     # square singular
                             (rng.randint(0, 2), rng.randint(1, n - r + 1), True),   # inconsistent
                             (rng.randint(1, 3), rng.randint(0, 1), False)]
                reps = 1 if quick else 4
                for _ in range(reps):
                    for n_ops, n_extra, inc in plans:
                        yield self._variant(rng, n, mat, n_ops, n_extra, inc, tag)
        # the matrices as they are: every 1 x 3 and 2 x 3 matrix over {-1, 0, 1}, singular 3 x 3
        small = [-1, 0, 1]
        for m in (1, 2):
            for ent in itertools.product(small, repeat=3 * m):
                rows = [list(ent[3 * i:3 * i + 3]) for i in range(m)]
                params = PARAMS[:rng.choice([0, 1, 2])]
                rhs = [[rng.choice([-2, -1, 0, 1, 2]) for _ in range(len(params) + 1)] for _ in rows]
                pl = self._system(rng, UNKNOWNS, rows, rhs, params,
                                  rng.choice(["plain", "drop0", "split"]))
                pl["shape"] = f"raw{m}x3"
                yield pl
        for _ in range(400 if quick else 6000):
            n = rng.choice([3, 3, 4])
            k = n - 1 if rng.random() < 0.7 else n - 2
            vals = [-1, 0, 1, 1, 2, -2]
            base = [[rng.choice(vals) for _ in range(n)] for _ in range(k)]
            params = PARAMS[:rng.choice([0, 1, 2])]
            w = len(params) + 1
            brhs = [[rng.choice([-2, -1, 0, 1, 2]) for _ in range(w)] for _ in range(k)]
            rows, rhs = [list(r) for r in base], [list(r) for r in brhs]
            while len(rows) < n:
                cs = [rng.choice([-1, 0, 1, 1, 2]) for _ in base]
                rows.append([sum(c * a[j] for c, a in zip(cs, base)) for j in range(n)])
                rhs.append([sum(c * b[j] for c, b in zip(cs, brhs)) for j in range(w)])
            if rng.random() < 0.25:
                rhs[-1][rng.randrange(w)] += rng.choice([1, -1])
            order = list(range(n))
            rng.shuffle(order)
            pl = self._system(rng, rng.sample(self.NAMES, n), [rows[i] for i in order],
                              [rhs[i] for i in order], params,
                              rng.choice(["plain", "drop0", "split", "twosided"]))
            pl["shape"] = f"square{n}"
            yield pl
        x = p.Variable("x")
        yield {"unknowns": ["x", "y"], "eqs": [], "style": "example", "shape": "n2r0"}
        yield {"unknowns": ["y", "x"], "eqs": [[dumps(expr_to_sx(x)), dumps(expr_to_sx(1))]],
               "style": "example", "shape": "n2r1"}

    def stats(self, pl, mo, io, acc):
        super().stats(pl, mo, io, acc)
        sh = acc.setdefault("shapes", {})
        sh[pl["shape"]] = sh.get(pl["shape"], 0) + 1
        if io.startswith("(sol"):
            a = acc.setdefault("accepted_by_shape", {})
            a[pl["shape"]] = a.get(pl["shape"], 0) + 1

# }}}


# {{{ stream 3c: solve_affine_equations_for with numbers of every kind

NUMBER_DOMAINS = ["int", "bool", "float", "Fraction", "np.int8", "np.int32", "np.int64", "np.uint8",
                  "np.float16", "np.float32", "np.float64"]
INTEGRAL_DOMAINS = {"int", "bool", "np.int8", "np.int32", "np.int64", "np.uint8"}


def number_class(dom) -> str:
    if dom.startswith("np.float"):
        return "numpy-floating"
    if dom.startswith("np."):
        return "numpy-integer"
    return dom


def make_number(dom, n, d):
    """the number n/d as an object of the domain (d is a power of two <= 8: exact in every
    floating type used here, so `the value of the number' means the same in every domain)"""
    if dom in INTEGRAL_DOMAINS:
        assert d == 1
    if dom == "int":
        return int(n)
    if dom == "bool":
        assert n in (0, 1)
        return bool(n)
    if dom == "float":
        return n / d
    if dom == "Fraction":
        return Fraction(n, d)
    import numpy as np
    ty = getattr(np, dom[3:])
    return ty(n) if d == 1 else ty(n / d)


def exact_number(v):
    """the rational value of a number object of any kind, None if it has none"""
    import math
    import numpy as np
    if isinstance(v, (bool, np.bool_)):
        return Fraction(int(v))
    if isinstance(v, (int, np.integer)):
        return Fraction(int(v))
    if isinstance(v, Fraction):
        return v
    if isinstance(v, (float, np.floating)):
        f = float(v)
        if math.isnan(f) or math.isinf(f):
            return None
        return Fraction(f)
    return None


def qeval_numbers(e, env):
    """`qeval` with every real number constant (Python / numpy, integral / floating, Fraction)
    read as the rational number it is.  Only meant for trees whose numbers are small dyadic
    rationals, where nothing depends on rounding."""
    import numpy as np
    if isinstance(e, (bool, int, float, Fraction, np.number, np.bool_)) and not isinstance(e, complex):
        v = exact_number(e)
        if v is None:
            raise NotExact
        return v
    if isinstance(e, p.Sum):
        acc = Fraction(0)
        for c in e.children:
            acc += qeval_numbers(c, env)
        return acc
    if isinstance(e, p.Product):
        acc = Fraction(1)
        for c in e.children:
            acc *= qeval_numbers(c, env)
        return acc
    if isinstance(e, p.Quotient):
        return qeval_numbers(e.numerator, env) / qeval_numbers(e.denominator, env)
    return qeval(e, env)


class NumberDomainSolveStream(SolveStream):
    """The solver clause with the numbers of the equations drawn from every kind of number a
    caller can write: Python int / bool / float / Fraction, numpy integer scalars of several
    widths, numpy floating scalars of several widths - as constant terms, as coefficients of
    parameters and as coefficients of unknowns, mixed with plain ints, in explicit trees and as
    built by the overloaded operators.  The values are small dyadic rationals (k, k/2, k/4, k/8),
    exact in every one of these types, so a system has ONE meaning over the rationals whatever the
    types are.  Most systems are uniquely solvable over Q; about half of them have an integral
    solution, the others have a fractional part somewhere in the data (then the unique solution is
    not integral and the statement demands a raise).  The statement is checked as in `solve`:
    raising is always allowed; an accepted system must be uniquely solvable, its solution integral,
    and the returned assignment must satisfy every equation identically in the parameters (linear
    forms by exact evaluation, numbers read by `exact_number`).  Keys: the key of the `solve` stream
    for accepted singular systems (their shape decides), otherwise `solver-<kind>:<number class>`
    with the classes of non-int numbers present (python float, numpy-integer, numpy-floating, ...)."""
    name = "solve-number-domains"
    has_model = False
    ATOM_OBJS = {"x": p.Variable("x"), "y": p.Variable("y"), "z": p.Variable("z"),
                 "w": p.Variable("w"), "p": p.Variable("p"), "q": p.Variable("q"),
                 "a0": p.Subscript(p.Variable("a"), 0)}

    # --- generation ---------------------------------------------------------------------------
    @staticmethod
    def _frac(rng):
        return rng.choice([(1, 2), (1, 2), (-1, 2), (3, 2), (1, 4), (-3, 4), (5, 2), (1, 8)])

    def _one(self, rng, dom):
        n = rng.choice([1, 2, 2, 3])
        params = ["p", "q", "a0"][:rng.choice([0, 0, 1, 1, 2])]
        w = len(params) + 1
        vals = [-2, -1, 0, 1, 2, 3]
        kind = rng.random()
        if kind < 0.8:
            # uniquely solvable with integral solution: permuted unit-triangular A, B = A X
            rows = [[(rng.choice([1, 1, -1]) if i == j else (rng.choice(vals) if j > i else 0))
                     for j in range(n)] for i in range(n)]
            for _ in range(rng.randint(0, 2)):
                if n >= 2:
                    i, k = rng.sample(range(n), 2)
                    c = rng.choice([1, -1, 2])
                    rows[i] = [a + c * b for a, b in zip(rows[i], rows[k])]
            sol = [[rng.choice(vals) for _ in range(w)] for _ in range(n)]
            rhs = [[sum(rows[i][j] * sol[j][k] for j in range(n)) for k in range(w)]
                   for i in range(n)]
            if rng.random() < 0.25:
                k = rng.randrange(n)           # a dependent, consistent extra equation
                rows.append([2 * a for a in rows[k]])
                rhs.append([2 * b for b in rhs[k]])
        else:
            m = rng.randint(max(1, n - 1), n + 1)
            rows = [[rng.choice(vals) for _ in range(n)] for _ in range(m)]
            rhs = [[rng.choice(vals) for _ in range(w)] for _ in range(m)]
        order = list(range(len(rows)))
        rng.shuffle(order)
        rows = [[(v, 1) for v in rows[i]] for i in order]
        rhs = [[(v, 1) for v in rhs[i]] for i in order]
        fractional = dom not in INTEGRAL_DOMAINS and rng.random() < 0.6
        if fractional:
            # a fractional part somewhere: mostly in a constant term, sometimes in a coefficient
            for _ in range(rng.choice([1, 1, 2])):
                i = rng.randrange(len(rows))
                f = self._frac(rng)
                k = rng.random()
                if k < 0.6:
                    col = w - 1
                elif k < 0.8:
                    col = rng.randrange(w)
                else:
                    col = None
                if col is None:
                    j = rng.randrange(n)
                    a, b = rows[i][j]
                    rows[i][j] = (a * f[1] + f[0] * b, b * f[1])
                else:
                    a, b = rhs[i][col]
                    rhs[i][col] = (a * f[1] + f[0] * b, b * f[1])
            if rng.random() < 0.15:
                i = rng.randrange(len(rows))   # a whole equation halved
                rows[i] = [(a, b * 2) for a, b in rows[i]]
                rhs[i] = [(a, b * 2) for a, b in rhs[i]]
        unk = rng.sample(["x", "y", "z", "w"], n)
        p_const, p_par, p_unk = rng.choice([(0.9, 0.0, 0.0), (0.8, 0.5, 0.0), (0.8, 0.5, 0.3),
                                            (1.0, 1.0, 1.0)])

        def num(v, prob):
            a, b = v
            fr = Fraction(a, b)
            a, b = fr.numerator, fr.denominator
            d = dom
            if b != 1 and dom in INTEGRAL_DOMAINS:
                d = "float"
            elif b == 1 and rng.random() >= prob:
                d = "int"
            if d == "bool" and a not in (0, 1):
                d = "int"
            if d == "np.uint8" and a < 0:
                d = "int"
            if d == "np.int8" and rng.random() < 0.05:
                a = rng.choice([100, -100, 127, 64])
            return [d, a, b]

        eqs = []
        for a_row, b_row in zip(rows, rhs):
            lt = [[num(v, p_unk), u] for v, u in zip(a_row, unk)]
            rt = [[num(v, p_par), pa] for v, pa in zip(b_row[:-1], params)] + [[num(b_row[-1], p_const), None]]
            if rng.random() < 0.7:               # drop the zero terms (keep at least the constant)
                lt = [t for t in lt if t[0][1] != 0]
                rt = [t for t in rt if t[0][1] != 0 or t[1] is None]
            if rng.random() < 0.3:               # some terms on the other side, sign flipped
                def neg(t):
                    (d, a, b), atom = t
                    if d in ("np.uint8", "bool") and a != 0:
                        d = "int"
                    return [[d, -a, b], atom]
                l2, r2 = [], []
                for t in lt:
                    if rng.random() < 0.7:
                        l2.append(t)
                    else:
                        r2.append(neg(t))
                for t in rt:
                    if rng.random() < 0.75:
                        r2.append(t)
                    else:
                        l2.append(neg(t))
                lt, rt = l2, r2
            if rng.random() < 0.3:
                rng.shuffle(rt)
            eqs.append({"l": lt, "r": rt})
        return {"unknowns": unk, "eqs": eqs, "domain": dom,
                "spelling": rng.choice(["tree", "tree", "ops", "bare1"]), "style": "domain"}

    def cases(self, rng, tier):
        n = 1400 if tier == "quick" else 30000
        for i in range(n):
            yield self._one(rng, NUMBER_DOMAINS[i % len(NUMBER_DOMAINS)])
        # x = c, x + c = 0, c*x = c', x = c*p + c' for one c of every domain
        for dom in NUMBER_DOMAINS:
            for (a, b) in [(3, 1), (1, 1), (5, 2), (-7, 4), (0, 1)]:
                if b != 1 and dom in INTEGRAL_DOMAINS:
                    continue
                if dom == "bool" and a not in (0, 1) or dom == "np.uint8" and a < 0:
                    continue
                c, one = [dom, a, b], ["int", 1, 1]
                for eqs in ([{"l": [[one, "x"]], "r": [[c, None]]}],
                            [{"l": [[one, "x"], [c, None]], "r": [[["int", 0, 1], None]]}],
                            [{"l": [[["int", 2, 1], "x"], [one, "y"]], "r": [[c, None]]},
                             {"l": [[one, "x"]], "r": [[one, "y"]]}],
                            [{"l": [[one, "x"]], "r": [[c, "p"], [["int", 1, 1], None]]}],
                            [{"l": [[one, "x"], [one, "y"]], "r": [[["int", 2, 1], "p"], [c, None]]},
                             {"l": [[one, "y"]], "r": [[one, "p"]]}]):
                    yield {"unknowns": ["x", "y"][:1 + any(t[1] == "y" for q_ in eqs for t in q_["l"])],
                           "eqs": eqs, "domain": dom, "spelling": "tree", "style": "domain-example"}

    # --- building the system --------------------------------------------------------------------
    def _term(self, t, spelling):
        (dom, a, b), atom = t
        c = make_number(dom, a, b)
        if atom is None:
            return c
        v = self.ATOM_OBJS[atom]
        if spelling == "bare1" and dom == "int" and a == 1:
            return v
        if spelling == "ops":
            try:
                r = c * v
                if isinstance(r, p.Expression):
                    return r
            except Exception:
                pass
        return p.Product((c, v))

    def _side(self, terms, spelling):
        ts = [self._term(t, spelling) for t in terms]
        if not ts:
            return 0
        if len(ts) == 1:
            return ts[0]
        if spelling == "ops":
            try:
                acc = ts[0]
                for t in ts[1:]:
                    acc = acc + t
                if isinstance(acc, p.Expression):
                    return acc
            except Exception:
                pass
        return p.Sum(tuple(ts))

    def _eqs(self, pl):
        sp = pl.get("spelling", "tree")
        return [(self._side(q_["l"], sp), self._side(q_["r"], sp)) for q_ in pl["eqs"]]

    def request(self, pl):
        return "(noop)"

    def _run(self, pl):
        import warnings
        with warnings.catch_warnings():
            warnings.simplefilter("ignore")      # numpy: overflow in narrow integer scalars
            return super()._run(pl)

    def run_impl(self, pl):
        try:
            res = self._run(pl)
        except RecursionError:
            raise
        except Exception as ex:
            return err_sx(ex)
        return "(sol" + "".join(f" ({show(k)} {show(v)}:{type(v).__name__})" for k, v in res.items()) + ")"

    # --- the statement ------------------------------------------------------------------------------
    def _linear_form(self, e):
        k = len(self.ATOMS)
        zero = [Fraction(0)] * k
        try:
            c0 = qeval_numbers(e, self._env_of(zero))
            cs = []
            for i in range(k):
                v = list(zero)
                v[i] = Fraction(1)
                cs.append(qeval_numbers(e, self._env_of(v)) - c0)
            for pt in ([Fraction(2), Fraction(-3), Fraction(5), Fraction(-7, 4), Fraction(7, 2),
                        Fraction(-1, 3), Fraction(4), Fraction(9, 5)],
                       [Fraction(-1, 2), Fraction(3), Fraction(2, 7), Fraction(8, 3), Fraction(-6),
                        Fraction(1), Fraction(5, 3), Fraction(-2)]):
                if qeval_numbers(e, self._env_of(pt)) != c0 + sum(c * v for c, v in zip(cs, pt)):
                    return None
        except RecursionError:
            raise
        except Exception:
            return None
        return cs, c0

    @staticmethod
    def _classes(pl):
        cl = sorted({number_class(t[0][0]) for q_ in pl["eqs"] for t in q_["l"] + q_["r"]} - {"int"})
        return ",".join(cl) or "int"

    def oracle(self, pl):
        try:
            res = self._run(pl)
        except RecursionError:
            raise
        except Exception:
            return None              # raising is always allowed by the statement
        unk = list(pl["unknowns"])
        forms = []
        for l, r in self._eqs(pl):
            fl, fr = self._linear_form(l), self._linear_form(r)
            if fl is None or fr is None:
                return None
            forms.append(([a - b for a, b in zip(fl[0], fr[0])], fr[1] - fl[1]))
        verdict = self._judge(res, forms, unk)
        if verdict is None:
            return None
        kind, detail = verdict
        shown = "; ".join(f"{show(l)} = {show(r)}" for l, r in self._eqs(pl))
        detail = f"{detail}  [system: {shown}; numbers: {self._classes(pl)}]"
        if kind.startswith(("accepts-underdetermined", "accepts-inconsistent")):
            return Failure("solver-" + kind, detail, pl)
        return Failure(f"solver-{kind}:{self._classes(pl)}", detail, pl)

    def shrink(self, pl):
        eqs = pl["eqs"]
        for i in range(len(eqs)):
            if len(eqs) > 1:
                yield {**pl, "eqs": eqs[:i] + eqs[i + 1:]}
        if len(pl["unknowns"]) > 1:
            yield {**pl, "unknowns": pl["unknowns"][:-1]}
        if pl.get("spelling") != "tree":
            yield {**pl, "spelling": "tree"}
        for i, q_ in enumerate(eqs):
            for sd in ("l", "r"):
                ts = q_[sd]
                for j in range(len(ts)):
                    yield {**pl, "eqs": eqs[:i] + [{**q_, sd: ts[:j] + ts[j + 1:]}] + eqs[i + 1:]}
                    (dom, a, b), atom = ts[j]
                    if dom != "int" and b == 1:
                        yield {**pl, "eqs": eqs[:i] + [{**q_, sd: ts[:j] + [[["int", a, 1], atom]] + ts[j + 1:]}] + eqs[i + 1:]}
                    if abs(a) > 1 and dom != "bool":
                        for na in ((a // abs(a)), a - (a // abs(a)) * b if abs(a) > b else None):
                            if na is not None and na != a:
                                yield {**pl, "eqs": eqs[:i] + [{**q_, sd: ts[:j] + [[[dom, na, b], atom]] + ts[j + 1:]}] + eqs[i + 1:]}

    def nontrivial_key(self, pl, model, impl):
        return str(pl["unknowns"]) + str(pl["eqs"]) + pl.get("spelling", "")

    def stats(self, pl, mo, io, acc):
        o = acc.setdefault("outcomes_by_class", {})
        k = number_class(pl["domain"]) + ":" + ("accepted" if io.startswith("(sol") else "raised")
        o[k] = o.get(k, 0) + 1

# }}}


# {{{ T-gen: the regenerated table and the streams that run its interpreter

def extract(ctx=None):
    """T-gen: lean/PV/Generated/Coefficient.lean (every handler of CoefficientCollector, the
    dispatch table, gaussian_elimination, solve_affine_equations_for and their helpers, statement
    by statement) from the live source of the tree under check"""
    from extract.coefficient import extract_coefficient
    return extract_coefficient(ctx)


class TableCoeffStream(CoeffStream):
    """T-gen tie: the compiled TABLE INTERPRETER (`c15CoeffsT`) run on the handler table regenerated
    from the working tree against the real collector.  Agreement here + `coeffs_eq_table_current`
    is what makes the theorems about `coeffs` theorems about the source; after an edit of the
    source the regenerated table still follows the code (this stream keeps agreeing) while the
    obligation breaks and the `coefficients` stream shows the failing input."""
    name = "table-coefficients"

    def cases(self, rng, tier):
        for i, pl in enumerate(super().cases(rng, tier)):
            if pl["kind"] in ("degenerate", "small2") or i % 3 == 0:
                yield pl

    def request(self, pl):
        return f"(c15-coeffs-table {tg_req(pl['targets'])} {pl['expr']})"

    def oracle(self, pl):
        return None

    def stats(self, pl, mo, io, acc):
        pass


class TableGaussStream(GaussStream):
    """T-gen tie: `gaussian_elimination` as regenerated (loop nest, pivot search, row exchange with
    its copies, row update, gcd normalisation) run by the table interpreter against the real code."""
    name = "table-gauss"

    def cases(self, rng, tier):
        for i, pl in enumerate(super().cases(rng, tier)):
            if i % 2 == 0 or not pl["rows"]:
                yield pl

    def request(self, pl):
        rows = " ".join("((" + " ".join(map(str, a)) + ") (" + " ".join(map(str, b)) + "))"
                        for a, b in pl["rows"])
        return f"(c15-gauss-table {pl['n']} ({rows}))"

    def oracle(self, pl):
        return None


class TableSolveStream(SolveStream):
    """T-gen tie: `solve_affine_equations_for` as regenerated (matrix assembly, the call of the
    elimination, read-off and value assembly) run by the table interpreter, one answer per
    enumeration order of the parameter set, against the real code."""
    name = "table-solve"

    def cases(self, rng, tier):
        for i, pl in enumerate(super().cases(rng, tier)):
            if i % 3 == 0 or pl["style"] == "example":
                yield pl

    def request(self, pl):
        names = " ".join(dumps(u) for u in pl["unknowns"])
        eqs = " ".join(f"({l} {r})" for l, r in pl["eqs"])
        return f"(c15-solve-table ({names}) ({eqs}))"

    def oracle(self, pl):
        return None

    def stats(self, pl, mo, io, acc):
        pass

# }}}


# {{{ probes: known findings and the repaired defect, replayed on the real code

def probe():
    from pymbolic.algorithm import solve_affine_equations_for as solve
    from pymbolic.mapper.coefficient import CoefficientCollector as CC
    x, y, a, r = (p.Variable(v) for v in "xyar")
    out = []

    def returns(fn):
        try:
            return True, fn()
        except Exception as ex:
            return False, ex

    ok, res = returns(lambda: CC(["x"])(p.Sum((p.Subscript(a, 0), p.Product((2, x))))))
    out.append(("coefficient-collector-subscript-crash",
                (not ok) and isinstance(res, AttributeError),
                f"CoefficientCollector(['x'])(a[0] + 2*x) -> {res!r}"))
    ok, res = returns(lambda: solve(["x", "y"], [(p.Sum((x, y)), 5)]))
    out.append(("solver-accepts-underdetermined", ok, f"solve x+y=5 for x,y -> {res!r}"))
    ok, res = returns(lambda: solve(["x"], [(x, 5), (x, 6)]))
    out.append(("solver-accepts-inconsistent", ok, f"solve x=5, x=6 -> {res!r}"))
    # repaired (0e8d81e): terms on both sides of one equation accumulate; fails if it returns
    two_sided = [([(p.Sum((x, 1)), 0)], -1), ([(p.Sum((x, 1)), 2)], 1),
                 ([(p.Product((2, x)), p.Sum((x, 3)))], 3), ([(p.Sum((x, y)), p.Sum((p.Product((2, y)), 3)))], None)]
    bad = []
    for eqs, want in two_sided:
        ok, res = returns(lambda eqs=eqs: solve(["x"], eqs))
        val = res.get(x) if ok else res
        if want is None:
            good = ok and val == p.Sum((3, y)) or ok and val == p.Sum((y, 3))
        else:
            good = ok and val == want
        if not good:
            bad.append(f"solve {eqs} for x -> {res!r}")
    out.append(("solver-overwrites-two-sided-term", bool(bad), "; ".join(bad) or "all two-sided systems solved correctly"))
    ok, res = returns(lambda: CC(["x"])(p.Subscript(a, x)))
    out.append(("coefficient-mentions-target:leaf", ok,
                f"CoefficientCollector(['x'])(a[x]) -> {res!r}"))
    ok, res = returns(lambda: CC(["x"])(p.Product((p.Lookup(r, "x"), x))))
    out.append(("lookup-attr-taken-for-target", not ok,
                f"CoefficientCollector(['x'])(r.x * x) -> {res!r}"))
    ok, res = returns(lambda: CC(["x"])(p.Product((p.Sum(()), 2))))
    out.append(("affine-rejected:empty-sum", not ok,
                f"CoefficientCollector(['x'])(Product((Sum(()), 2))) -> {res!r}"))
    return out

# }}}


PROP = Prop(
    id="C15",
    title="Linear-form extraction and affine solving are exact",
    lean_targets=["PV.Properties.C15", "PV.Properties.C15Table"],
    theorems=[],
    extractors=[extract],
    streams=[CoeffStream(), GaussStream(), SolveStream(), SingularSolveStream(),
             TableCoeffStream(), TableGaussStream(), TableSolveStream(),
             CoeffHistoryStream(), NumberDomainSolveStream()],
    probes=[probe],
    trusted_base=["Lean 4.33 kernel; axioms propext, Classical.choice, Quot.sound only",
                  "harness serialisation; PyNum/Ops as models of CPython arithmetic and of the "
                  "operator overloads (validated by C02/C03 each run)",
                  "numpy object arrays hold Python ints (row operations are elementwise Python "
                  "arithmetic); the iteration order of the parameter set is not modelled (every "
                  "order is accepted)",
                  "extract/coefficient.py (ast reader of CoefficientCollector, gaussian_elimination, "
                  "solve_affine_equations_for, lcm, gcd, gcd_many; unknown statement shapes are "
                  "extraction errors) and the meaning of the statement language of "
                  "lean/PV/Model/CoeffTable.lean — both tied to the real code by the table-* streams; "
                  "extended_euclidean (Algo.extEuclid, C19) and the DependencyMapper (deps, C09) stay "
                  "hand-written inside the table interpreter"],
    assumptions=["coeffs_sound: no bool/float constants or keyword calls in the expression "
                 "(Python == is then structural on keys); every reciprocal 1/d introduced by a "
                 "Quotient evaluates exactly",
                 "solve_affine_sound_partial: equation sides and parameters are simple trees whose "
                 "coefficients are plain ints; reduced matrix of single-entry shape (reducedOK)"],
    level_text="Lean theorems (unbounded trees / matrices): the dictionary returned by the "
               "coefficient collector as coded evaluates, term by term, to the value of the input; "
               "products of two target-dependent factors and targets in denominators/exponents are "
               "rejected; every row operation and the gcd normalisation of gaussian_elimination "
               "preserve the rational solution set; the values read off by the solver satisfy every "
               "row identically in the parameters when the reduced matrix has the single-entry "
               "shape. Tied to the real code by three correspondence streams, and to the SOURCE TEXT "
               "by T-gen: every handler of the collector and the loop nests of gaussian_elimination / "
               "solve_affine_equations_for are re-read statement by statement on every run; the "
               "regenerated table is proved equal to the literal the model was written against, and "
               "coeffs / gaussElim / solveAffine are proved (for all inputs) to be the table "
               "interpreter run on it.",
    level_note="Partial: the solver accepts underdetermined and inconsistent systems (known findings, "
               "negation witnesses proved); composite leaves hide targets; floats are outside the "
               "exact model. The two-sided overwrite in the matrix assembly is repaired (0e8d81e): "
               "the assembled row is proved to represent lhs - rhs.",
    technique="Lean 4 proofs about the dictionary/elimination model + regenerated statement-level "
              "table of the source with a proved-equal interpreter (T-gen) + differential "
              "correspondence + exact rational interpreter and independent Fraction elimination",
    design_ref="DESIGN.md §4 C15",
)
