"""C08 — substitution commutes with evaluation."""
from __future__ import annotations

import pymbolic.primitives as p

from ..core import Failure, Prop, Stream
from ..gen import ExprGen, node_types, rand_env
from ..sexp import Func
from ..oracles import scan
from ..oracles.pyeval import Unknown, is_safe, loosely_equal, outcome, pyeval
from ..sexp import (A, dumps, env_to_sx, exc_to_sx, expr_to_sx, loads, sx_shrinks, sx_to_env,
                    sx_to_expr)


def _nanlike(x):
    if isinstance(x, float):
        return x != x
    if isinstance(x, complex):
        return x.real != x.real or x.imag != x.imag
    return False


def values_equal(a, b) -> bool:
    """Python `==` on evaluation results, with nan equal to nan: floats, the real / imaginary PARTS
    of complex numbers, recursively through tuples, lists, call records and records.  (`nan != nan`
    in Python; two evaluations that both end in `nan+nanj` agree.)"""
    from fractions import Fraction as _F
    from ..sexp import App, Record
    try:
        if isinstance(a, (tuple, list)) and isinstance(b, (tuple, list)):
            return (type(a) is type(b) and len(a) == len(b)
                    and all(values_equal(x, y) for x, y in zip(a, b)))
        if isinstance(a, App) and isinstance(b, App):
            return (a.f == b.f and values_equal(a.args, b.args) and a.kw.keys() == b.kw.keys()
                    and all(values_equal(a.kw[k], b.kw[k]) for k in a.kw))
        if isinstance(a, Record) and isinstance(b, Record):
            return (a.__dict__.keys() == b.__dict__.keys()
                    and all(values_equal(a.__dict__[k], b.__dict__[k]) for k in a.__dict__))
        if _nanlike(a) or _nanlike(b):
            num = (int, float, complex, _F)
            if not (isinstance(a, num) and isinstance(b, num)):
                return False
            ca, cb = complex(a), complex(b)

            def part(x, y):
                return (x != x and y != y) or x == y
            return part(ca.real, cb.real) and part(ca.imag, cb.imag)
        return bool(a == b)
    except Exception:
        return False


def sigma_to_dict(sigma):
    d = {}
    for kind, k, v in sigma:
        key = k if kind == "name" else sx_to_expr(loads(k))
        d[key] = sx_to_expr(loads(v))
    return d


def sigma_req(sigma):
    parts = []
    for kind, k, v in sigma:
        if kind == "name":
            parts.append(f'(name "{k}" {v})')
        else:
            parts.append(f"(expr {k} {v})")
    return "(" + " ".join(parts) + ")"


def norm_sigma(sigma):
    """The entries of the dict that `sigma_to_dict` builds, in its order: two `==`-equal expression
    keys (`a[1]`, `a[True]`) are ONE dict key (the first key object, the last value).  The model is
    given what the code is given."""
    d = sigma_to_dict(sigma)
    out = []
    for k, v in d.items():
        if isinstance(k, str):
            out.append(["name", k, dumps(expr_to_sx(v))])
        else:
            out.append(["expr", dumps(expr_to_sx(k)), dumps(expr_to_sx(v))])
    return out


def run_subst(e, sigma, cached):
    from pymbolic.mapper.substitutor import (CachedSubstitutionMapper, SubstitutionMapper,
                                             substitute)
    cls = CachedSubstitutionMapper if cached else SubstitutionMapper
    return substitute(e, sigma_to_dict(sigma), mapper_cls=cls)


def eval_overridden(e, env, sigma_dict):
    """Reference meaning of 'e in an environment where each replaced node is bound to the value of
    its replacement': intercepted nodes (variables by object or name, subscripts, look-ups) take
    the replacement's value in `env`; nothing inside a replacement is substituted again."""
    def lookup(node):
        try:
            if node in sigma_dict:
                return sigma_dict[node]
        except TypeError:
            pass
        if isinstance(node, p.Variable) and node.name in sigma_dict:
            return sigma_dict[node.name]
        return None

    class Env(dict):
        pass

    def ev(x):
        if isinstance(x, (p.Variable, p.Subscript, p.Lookup)):
            r = lookup(x)
            if r is not None:
                return pyeval(r, env)
        if isinstance(x, p.Variable):
            return pyeval(x, env)
        return pyeval_with(x, ev)
    return ev(e)


def pyeval_with(x, ev):
    """one level of the reference interpreter with `ev` used for the children"""
    import dataclasses
    if not isinstance(x, p.Expression):
        if isinstance(x, tuple):
            return tuple(ev(c) for c in x)
        if isinstance(x, list):
            return [ev(c) for c in x]
        return pyeval(x, {})

    class Box:
        pass
    # rebuild the node with children replaced by placeholder variables bound to their values
    env2 = {}
    counter = [0]

    def hole(c):
        counter[0] += 1
        nm = f"__h{counter[0]}"
        env2[nm] = c
        return p.Variable(nm)

    lazy = {}

    class LazyEnv(dict):
        def __contains__(self, k):
            return k in env2

        def __getitem__(self, k):
            if k not in lazy:
                lazy[k] = ev(env2[k])
            return lazy[k]
    kw = {}
    for f in dataclasses.fields(x):
        v = getattr(x, f.name)
        if isinstance(v, str) or v is None or f.name in ("variables", "operator", "prefix", "scope",
                                                            "data_type", "name"):
            kw[f.name] = v
        elif isinstance(v, tuple) and f.name in ("children", "parameters", "values"):
            kw[f.name] = tuple(None if c is None else hole(c) for c in v)
        elif hasattr(v, "items"):
            kw[f.name] = {k: hole(c) for k, c in v.items()}
        else:
            kw[f.name] = hole(v)
    node = type(x)(**kw)
    return pyeval(node, LazyEnv())


def make_sigma(rng, g, e):
    """keys as names, Variable objects, subscripts or look-ups occurring in e (and a few that do
    not); values arbitrary expressions, including ones that mention other keys (swaps)."""
    subs = [s for s in scan.subterms(e) if isinstance(s, (p.Variable, p.Subscript, p.Lookup))]
    sigma = []
    used = set()
    # a NAME key that coincides with the attribute name of a look-up in e (or with a keyword name)
    # must not touch the look-up: only variables are found by name
    lookups = [s for s in subs if isinstance(s, p.Lookup)]
    if lookups and rng.random() < 0.5:
        nm = rng.choice(lookups).name
        used.add(("name", nm))
        sigma.append(["name", nm, dumps(expr_to_sx(rng.choice([p.Variable("z"), 7, p.Variable("x") + 1])))])
    n = rng.randint(0, 3)
    for _ in range(n):
        k = rng.random()
        if subs and k < 0.75:
            key = rng.choice(subs)
        else:
            key = p.Variable(rng.choice(["x", "y", "q"]))
        if isinstance(key, p.Variable) and rng.random() < 0.5:
            ent_key = ("name", key.name)
        else:
            ent_key = ("expr", dumps(expr_to_sx(key)))
        if ent_key in used:
            continue
        used.add(ent_key)
        r = rng.random()
        if r < 0.3:
            val = p.Variable(rng.choice(["x", "y", "z", "i"]))       # swaps / chains
        elif r < 0.45:
            val = rng.randint(-3, 3)
        else:
            val = g.gen(rng.choice(["num", "int"]), rng.randint(0, 2))
        sigma.append([ent_key[0], ent_key[1], dumps(expr_to_sx(val))])
    return norm_sigma(sigma)


class SubstStream(Stream):
    name = "substitute"

    def cases(self, rng, tier):
        n = 2500 if tier == "quick" else 40000
        g = ExprGen(rng, cse=0.1, lists=False, foreign=False, malformed=0.01)
        for i in range(n):
            e = g.gen(rng.choice(["num", "num", "any", "bool", "int"]), rng.randint(1, 5))
            if i % 5 == 0:
                e = p.Sum((e, p.Lookup(p.Variable("r"), rng.choice(["x", "y", "u"])),
                           p.Variable(rng.choice(["x", "y"]))))
            sigma = make_sigma(rng, g, e)
            env = rand_env(rng)
            base = {"sigma": sigma, "env": dumps(env_to_sx(env)), "cached": bool(i % 2)}
            yield {**base, "expr": dumps(expr_to_sx(e))}
            # deep identity: the same substitution applied to a few subterms on their own
            subs = scan.subterms(e)
            for s in rng.sample(subs, min(3, len(subs))):
                if isinstance(s, p.Expression) or isinstance(s, tuple):
                    yield {**base, "expr": dumps(expr_to_sx(s))}

    def request(self, pl):
        return f"(subst {sigma_req(pl['sigma'])} {pl['expr']})"

    def run_impl(self, pl):
        e = sx_to_expr(loads(pl["expr"]))
        try:
            r = run_subst(e, pl["sigma"], pl["cached"])
        except RecursionError:
            raise
        except Exception as ex:
            return dumps(exc_to_sx(ex))
        return f"({dumps(expr_to_sx(r))} {'false' if r is e else 'true'})"

    def agree(self, model, impl, pl):
        if pl["cached"] and not impl.startswith("(err"):
            # object identity under the memoizing mapper depends on which of several equal
            # objects was cached first; the model has no object identities: compare trees only
            if model.rsplit(" ", 1)[0] == impl.rsplit(" ", 1)[0]:
                return "ok"
            # the memo table may also return an ==-equal tree of another spelling (CSE(True) for
            # CSE(1)): compare with Python ==
            try:
                m, i = loads(model), loads(impl)
                return "ok" if sx_to_expr(m[0]) == sx_to_expr(i[0]) else "diff"
            except Exception:
                return "diff"
        return super().agree(model, impl, pl)

    def oracle(self, pl):
        e = sx_to_expr(loads(pl["expr"]))
        env = sx_to_env(loads(pl["env"]))
        sd = sigma_to_dict(pl["sigma"])
        try:
            r = run_subst(e, pl["sigma"], pl["cached"])
            r2 = run_subst(e, pl["sigma"], not pl["cached"])
        except Exception as ex:
            return Failure("subst-raises", repr(ex), pl)
        if r != r2:
            return Failure("cached-plain-differ", f"{r!r} vs {r2!r}", pl)
        # identity of untouched trees
        keys_exprs = [k for k in sd if not isinstance(k, str)]
        keys_names = [k for k in sd if isinstance(k, str)]
        touched = any((s in keys_exprs) or (isinstance(s, p.Variable) and s.name in keys_names)
                      for s in scan.subterms(e) if isinstance(s, p.Expression))
        if not touched and r is not e:
            zero_cse = any(isinstance(s, p.CommonSubexpression) and p.is_zero(s.child)
                           for s in scan.subterms(e) if isinstance(s, p.Expression))
            subs = [s for s in scan.subterms(e) if not isinstance(s, (list, dict))]

            def _eq(a, b):
                try:
                    return bool(a == b)
                except Exception:
                    return False
            dup = any(a is not b and _eq(a, b) for i, a in enumerate(subs) for b in subs[:i])
            key = ("cse-zero-child-collapses" if zero_cse
                   else "cached-duplicate-subtree-rebuilt" if (pl["cached"] and dup)
                   else "untouched-not-identical")
            return Failure(key, f"nothing to replace in {e!r} but result {r!r} is a new object", pl)
        # value
        want = outcome(lambda: eval_overridden(e, env, sd))
        if want[0] != "ok":
            return None
        got = outcome(lambda: pyeval(r, env))
        ok = got[0] == "ok" and values_equal(want[1], got[1])
        if not ok:
            try:
                collapses = any(
                    isinstance(s_, p.CommonSubexpression)
                    and p.is_zero(run_subst(s_.child, pl["sigma"], False))
                    for s_ in scan.subterms(e))
            except Exception:
                collapses = False
            if collapses:
                return Failure("cse-zero-child-collapses", f"a CSE whose substituted child is falsy "
                               f"collapses to 0: {got!r} vs {want!r}", pl)
            return Failure("subst-value", f"substituted tree gives {got!r}, original in updated "
                           f"environment gives {want!r}", pl)
        return None

    def shrink(self, pl):
        sg = pl["sigma"]
        for i in range(len(sg)):
            yield {**pl, "sigma": sg[:i] + sg[i + 1:]}
        for s in sx_shrinks(loads(pl["expr"])):
            yield {**pl, "expr": dumps(s)}

    def nontrivial_key(self, pl, model, impl):
        return pl["expr"] + sigma_req(pl["sigma"]) if impl.endswith("true)") else None

    def stats(self, pl, mo, io, acc):
        acc["changed"] = acc.get("changed", 0) + (1 if io.endswith("true)") else 0)
        acc["identical"] = acc.get("identical", 0) + (1 if io.endswith("false)") else 0)
        for kind, _k, _v in pl["sigma"]:
            acc["key_" + kind] = acc.get("key_" + kind, 0) + 1


# ---------------------------------------------------------------------------------------------
# keyword form of the entry point, and histories of calls on ONE memoizing mapper
# ---------------------------------------------------------------------------------------------

def _is_const_sx(s):
    return isinstance(s, list) and s and s[0] in ("Int", "Bool", "Flt")


def respell_sx(s, rng, prob):
    """the same tree up to Python `==`, with some constants written in another numeric type
    (`1` / `True` / `1.0`) and the keywords of a `CallWithKwargs` in another order"""
    from ..sexp import sx_children, sx_replace
    if _is_const_sx(s):
        if rng.random() >= prob:
            return s
        v = sx_to_expr(s)
        if isinstance(v, float) and (v != v or v in (float("inf"), float("-inf"))):
            return s
        alts = []
        if v == int(v) and abs(v) < 2**40:
            alts += [int(v), float(int(v))]
            if int(v) in (0, 1):
                alts.append(bool(int(v)))
        alts = [a for a in alts if type(a) is not type(v)]
        return expr_to_sx(rng.choice(alts)) if alts else s
    if not isinstance(s, list) or isinstance(s, A):
        return s
    for path, c in sx_children(s):
        s = sx_replace(s, path, respell_sx(c, rng, prob))
    if s[0] == "CallKw" and len(s[3]) > 1 and rng.random() < 0.5:
        idx = list(range(len(s[3])))
        rng.shuffle(idx)
        s = list(s)
        s[3], s[4] = [s[3][i] for i in idx], [s[4][i] for i in idx]
    return s


def spelled(x):
    return dumps(expr_to_sx(x))


def _rp(x):
    try:
        s_ = repr(x)
    except Exception:
        return "<unprintable>"
    return s_ if len(s_) < 400 else s_[:400] + "..."


def _pyeq(a, b):
    try:
        return bool(a == b)
    except Exception:
        return False


def judge(e, r, env, sd, pl, plain=None, acc=None):
    """value half of the property for one (expression, result) pair: `r` evaluated in `env` must be
    what `e` means when each intercepted node takes the value of its replacement"""
    want = outcome(lambda: eval_overridden(e, env, sd))
    if want[0] != "ok":
        return None
    if acc is not None:
        acc["evaluable"] = acc.get("evaluable", 0) + 1
    got = outcome(lambda: pyeval(r, env))
    if got[0] == "ok" and values_equal(want[1], got[1]):
        return None
    from pymbolic.mapper.substitutor import SubstitutionMapper, make_subst_func
    try:
        collapses = any(
            isinstance(s_, p.CommonSubexpression)
            and p.is_zero(SubstitutionMapper(make_subst_func(sd))(s_.child))
            for s_ in scan.subterms(e))
    except Exception:
        collapses = False
    if collapses:
        return Failure("cse-zero-child-collapses", f"a CSE whose substituted child is falsy "
                       f"collapses to 0: {_rp(got)} vs {_rp(want)}", pl)
    if plain is not None and spelled(plain) != spelled(r) and _pyeq(plain, r):
        # only an ==-EQUAL tree is "another spelling"; any other tree is a wrong answer
        got_plain = outcome(lambda: pyeval(plain, env))
        if got_plain[0] == "ok" and values_equal(want[1], got_plain[1]):
            return Failure("cached-other-spelling-changes-value",
                           f"the memoizing mapper returned {_rp(r)} (an ==-equal tree cached for "
                           f"another spelling) which evaluates to {_rp(got)}; the plain mapper's "
                           f"{_rp(plain)} evaluates to {_rp(want)}", pl)
    return Failure("subst-value", f"substituted tree gives {_rp(got)}, original in updated "
                   f"environment gives {_rp(want)}", pl)


class KwStream(Stream):
    """`substitute(e, mapping, mapper_cls, **kw)`: keywords are merged into (a copy of) the mapping"""
    name = "substitute-kw"

    def cases(self, rng, tier):
        n = 600 if tier == "quick" else 8000
        g = ExprGen(rng, cse=0.1, lists=False, foreign=False, malformed=0.01)
        for i in range(n):
            e = g.gen(rng.choice(["num", "num", "any", "int"]), rng.randint(1, 4))
            if i % 4 == 0:
                e = p.Sum((e, p.Subscript(p.Variable("t"), rng.choice([0, 1, True, 1.0, p.Variable("i")])),
                           p.Lookup(p.Variable("r"), rng.choice(["u", "v", "x"]))))
            sigma = make_sigma(rng, g, e)
            names = sorted({s.name for s in scan.subterms(e) if isinstance(s, p.Variable)}
                           | {"x", "y"})
            kw = []
            for nm in rng.sample(names, rng.randint(0, min(3, len(names)))):
                if not nm.isidentifier() or nm in ("expression", "variable_assignments", "mapper_cls"):
                    continue
                r = rng.random()
                val = (p.Variable(rng.choice(["x", "y", "z"])) if r < 0.35
                       else rng.randint(-3, 3) if r < 0.6 else g.gen("num", rng.randint(0, 2)))
                kw.append([nm, dumps(expr_to_sx(val))])
            # collisions on purpose: the same name as string key, Variable-object key and keyword
            if kw and rng.random() < 0.5:
                nm = kw[0][0]
                extra = []
                if rng.random() < 0.6:
                    extra.append(["name", nm, dumps(expr_to_sx(rng.randint(10, 19)))])
                if rng.random() < 0.6:
                    extra.append(["expr", dumps(expr_to_sx(p.Variable(nm))),
                                  dumps(expr_to_sx(rng.randint(20, 29)))])
                sigma = norm_sigma(extra + [en for en in sigma
                                            if (en[0], en[1]) not in {(x[0], x[1]) for x in extra}])
            env = rand_env(rng)
            yield {"sigma": sigma, "kw": kw, "env": dumps(env_to_sx(env)), "cached": bool(i % 2),
                   "expr": dumps(expr_to_sx(e))}

    def request(self, pl):
        kw = "(" + " ".join(f'("{n}" {v})' for n, v in pl["kw"]) + ")"
        return (f"(c08-substitute {sigma_req(pl['sigma'])} {kw} "
                f"{'true' if pl['cached'] else 'false'} {pl['expr']})")

    def _run(self, pl, cached):
        from pymbolic.mapper.substitutor import (CachedSubstitutionMapper, SubstitutionMapper,
                                                 substitute)
        e = sx_to_expr(loads(pl["expr"]))
        kw = {n: sx_to_expr(loads(v)) for n, v in pl["kw"]}
        cls = CachedSubstitutionMapper if cached else SubstitutionMapper
        return e, substitute(e, sigma_to_dict(pl["sigma"]), mapper_cls=cls, **kw)

    def run_impl(self, pl):
        try:
            e, r = self._run(pl, pl["cached"])
        except RecursionError:
            raise
        except Exception as ex:
            return dumps(exc_to_sx(ex))
        if pl["cached"]:
            return f"({spelled(r)})"
        return f"({spelled(r)} {'false' if r is e else 'true'})"

    def oracle(self, pl):
        env = sx_to_env(loads(pl["env"]))
        # the property's reading of the keyword form: a keyword binds the NAME (like a string key of
        # the mapping, which it overrides)
        sd = dict(sigma_to_dict(pl["sigma"]))
        for n, v in pl["kw"]:
            sd[n] = sx_to_expr(loads(v))
        try:
            e, r = self._run(pl, pl["cached"])
            _e2, r2 = self._run(pl, not pl["cached"])
        except Exception as ex:
            return Failure("subst-raises", repr(ex), pl)
        if r != r2:
            return Failure("cached-plain-differ", f"{r!r} vs {r2!r}", pl)
        plain = r2 if pl["cached"] else r
        f = judge(e, r, env, sd, pl, plain=plain)
        if f is not None:
            return f
        # "names that are not mentioned are left alone": a call must not leave anything behind — the
        # caller's own mapping object is reused for a second call WITHOUT the keywords, which must
        # behave like a call with a fresh copy of the mapping
        from pymbolic.mapper.substitutor import (CachedSubstitutionMapper, SubstitutionMapper,
                                                 substitute)
        cls = CachedSubstitutionMapper if pl["cached"] else SubstitutionMapper
        kw = {n: sx_to_expr(loads(v)) for n, v in pl["kw"]}
        mine = sigma_to_dict(pl["sigma"])
        try:
            substitute(e, mine, mapper_cls=cls, **kw)
            again = substitute(e, mine, mapper_cls=cls)
            fresh = substitute(e, sigma_to_dict(pl["sigma"]), mapper_cls=cls)
        except Exception as ex:
            return Failure("subst-raises", repr(ex), pl)
        if again != fresh or list(mine.items()) != list(sigma_to_dict(pl["sigma"]).items()):
            return Failure("subst-call-leaves-state-behind",
                           f"after substitute(e, d, **{sorted(kw)}) the caller's d is {mine!r}; "
                           f"substitute(e, d) gives {again!r}, with a fresh d {fresh!r}", pl)
        return None

    def shrink(self, pl):
        sg = pl["sigma"]
        for i in range(len(sg)):
            yield {**pl, "sigma": sg[:i] + sg[i + 1:]}
        for i in range(len(pl["kw"])):
            yield {**pl, "kw": pl["kw"][:i] + pl["kw"][i + 1:]}
        for s in sx_shrinks(loads(pl["expr"])):
            yield {**pl, "expr": dumps(s)}

    def nontrivial_key(self, pl, model, impl):
        return self.request(pl) if pl["kw"] else None

    def stats(self, pl, mo, io, acc):
        acc["with_keywords"] = acc.get("with_keywords", 0) + (1 if pl["kw"] else 0)
        names = {k for kind, k, _v in pl["sigma"] if kind == "name"}
        acc["keyword_overrides_name_key"] = acc.get("keyword_overrides_name_key", 0) + (
            1 if any(n in names for n, _v in pl["kw"]) else 0)


class HistStream(Stream):
    """successive calls on ONE `CachedSubstitutionMapper`: exact result trees (spelling of
    constants included) against the model's memo table"""
    name = "cached-history"

    def cases(self, rng, tier):
        n = 700 if tier == "quick" else 10000
        g = ExprGen(rng, cse=0.12, lists=False, foreign=False, malformed=0.01, floats=0.06)
        f = p.Variable("f")
        for i in range(n):
            e = g.gen(rng.choice(["num", "num", "any", "int"]), rng.randint(1, 4))
            if i % 3 == 0:
                e = p.Sum((e, p.Subscript(p.Variable("t"), rng.choice([0, 1, p.Variable("i")])),
                           p.Lookup(p.Variable("r"), rng.choice(["u", "v"]))))
            sx = expr_to_sx(e)
            sigma = make_sigma(rng, g, e)
            if sigma and rng.random() < 0.3:
                # a key written in another spelling than its occurrences
                j = rng.randrange(len(sigma))
                if sigma[j][0] == "expr":
                    sigma[j] = ["expr", dumps(respell_sx(loads(sigma[j][1]), rng, 0.8)), sigma[j][2]]
                    sigma = norm_sigma(sigma)
            hist = []
            for _ in range(rng.randint(2, 6)):
                k = rng.random()
                if k < 0.2:
                    hist.append(sx)
                elif k < 0.45:
                    hist.append(respell_sx(sx, rng, rng.choice([0.3, 0.7, 1.0])))
                elif k < 0.6:
                    subs = [s for s in scan.subterms(e) if isinstance(s, (p.Expression, tuple))]
                    s_ = expr_to_sx(rng.choice(subs)) if subs else sx
                    hist.append(respell_sx(s_, rng, 0.5) if rng.random() < 0.5 else s_)
                elif k < 0.85:
                    # both spellings inside ONE tree
                    a, b = sx, respell_sx(sx, rng, rng.choice([0.5, 1.0]))
                    if rng.random() < 0.5:
                        a, b = b, a
                    hist.append(rng.choice([
                        [A("Call"), expr_to_sx(f), [a, b]],
                        [A("Sum"), a, b],
                        [A("Call"), expr_to_sx(f), [a, [A("LeftShift"), expr_to_sx(p.Variable("i")), b]]],
                    ]))
                elif k < 0.95:
                    hist.append(expr_to_sx(g.gen("num", rng.randint(1, 3))))
                else:
                    hist.append([A("Call"), expr_to_sx(f), [[A("List"), sx]]])     # unhashable
            # big integers (where `2.0 + y` and `2 + y` part ways) only without replacements and
            # only when no history entry attempts an astronomically large power / shift
            env = rand_env(rng, big=(not sigma and rng.random() < 0.5))
            if not all(is_safe(sx_to_expr(h), env) for h in hist):
                env = rand_env(rng)
                if not all(is_safe(sx_to_expr(h), env) for h in hist):
                    continue
            yield {"sigma": sigma, "env": dumps(env_to_sx(env)),
                   "exprs": [dumps(h) for h in hist]}

    def request(self, pl):
        return f"(c08-hist {sigma_req(pl['sigma'])} ({' '.join(pl['exprs'])}))"

    def _run(self, pl):
        from pymbolic.mapper.substitutor import CachedSubstitutionMapper, make_subst_func
        m = CachedSubstitutionMapper(make_subst_func(sigma_to_dict(pl["sigma"])))
        out = []
        for sx in pl["exprs"]:
            e = sx_to_expr(loads(sx))
            try:
                out.append((e, m(e), None))
            except RecursionError:
                raise
            except Exception as ex:
                out.append((e, None, ex))
        return out

    def run_impl(self, pl):
        parts = []
        for _e, r, ex in self._run(pl):
            parts.append(dumps(exc_to_sx(ex)) if ex is not None else spelled(r))
        return "(" + " ".join(parts) + ")"

    def oracle(self, pl):
        from pymbolic.mapper.substitutor import SubstitutionMapper, make_subst_func
        env = sx_to_env(loads(pl["env"]))
        sd = sigma_to_dict(pl["sigma"])
        plain_mapper = SubstitutionMapper(make_subst_func(sd))
        for idx, (e, r, ex) in enumerate(self._run(pl)):
            unhashable = any(isinstance(s, list) for s in scan.subterms(e))
            if ex is not None:
                if unhashable and isinstance(ex, TypeError):
                    continue            # a Python list cannot be a memo-table key
                return Failure("subst-raises", f"call {idx}: {ex!r}", pl)
            try:
                plain = plain_mapper(e)
            except Exception as ex2:
                return Failure("subst-raises", f"plain mapper, call {idx}: {ex2!r}", pl)
            if r != plain:
                return Failure("cached-plain-differ", f"call {idx}: {r!r} vs {plain!r}", pl)
            fl = judge(e, r, env, sd, pl, plain=plain)
            if fl is not None:
                return fl
        return None

    def shrink(self, pl):
        ex = pl["exprs"]
        for i in range(len(ex)):
            if len(ex) > 1:
                yield {**pl, "exprs": ex[:i] + ex[i + 1:]}
        sg = pl["sigma"]
        for i in range(len(sg)):
            yield {**pl, "sigma": sg[:i] + sg[i + 1:]}
        for i in range(len(ex)):
            for s in sx_shrinks(loads(ex[i])):
                yield {**pl, "exprs": ex[:i] + [dumps(s)] + ex[i + 1:]}

    def nontrivial_key(self, pl, model, impl):
        return self.request(pl)

    def stats(self, pl, mo, io, acc):
        from pymbolic.mapper.substitutor import SubstitutionMapper, make_subst_func
        acc["calls"] = acc.get("calls", 0) + len(pl["exprs"])
        try:
            pm = SubstitutionMapper(make_subst_func(sigma_to_dict(pl["sigma"])))
            for e, r, ex in self._run(pl):
                if ex is not None:
                    acc["type_errors"] = acc.get("type_errors", 0) + 1
                elif spelled(r) != spelled(pm(e)):
                    acc["other_spelling_than_plain"] = acc.get("other_spelling_than_plain", 0) + 1
        except Exception:
            pass


class AggStream(Stream):
    """Subscript / look-up keys in the fragment where the syntactic override IS an update of the
    aggregate (Lean: `eval_subst_aggregates`): the tuple `t` occurs only as `t[k]` with a literal
    `k >= 0`, the record `r` only as `r.n`.  Oracle: substituting and evaluating equals evaluating
    the ORIGINAL in the environment with the elements / attributes / names rebound to the values of
    their replacements — no override evaluator involved."""
    name = "aggregate-update"

    NUMS = ["x", "y", "z"]

    def _leaf(self, rng):
        k = rng.random()
        if k < 0.3:
            return p.Variable(rng.choice(self.NUMS))
        if k < 0.45:
            return rng.randint(-4, 4)
        if k < 0.75:
            return p.Subscript(p.Variable("t"), rng.choice([0, 1, 2, 2, True]))
        return p.Lookup(p.Variable("r"), rng.choice(["u", "v"]))

    def _gen(self, rng, d):
        if d <= 0 or rng.random() < 0.25:
            return self._leaf(rng)
        op = rng.choice(["sum", "prod", "quot", "pow", "if", "call", "callkw", "min", "tuple",
                         "sum", "prod"])
        g = lambda: self._gen(rng, d - 1)          # noqa: E731
        if op == "sum":
            return p.Sum(tuple(g() for _ in range(rng.randint(2, 3))))
        if op == "prod":
            return p.Product(tuple(g() for _ in range(rng.randint(2, 3))))
        if op == "quot":
            return p.Quotient(g(), g())
        if op == "pow":
            return p.Power(g(), rng.randint(0, 3))
        if op == "if":
            return p.If(p.Comparison(g(), rng.choice(["<", "<=", "==", "!="]), g()), g(), g())
        if op == "call":
            return p.Call(p.Variable("f"), tuple(g() for _ in range(rng.randint(1, 2))))
        if op == "callkw":
            return p.CallWithKwargs(p.Variable("g"), (g(),), {"k": g()})
        if op == "min":
            return rng.choice([p.Min, p.Max])(tuple(g() for _ in range(2)))
        return p.Subscript(p.Call(p.Variable("f"), (g(),)), self._leaf(rng))   # f(..)[leaf]: a node
        # whose aggregate is not a name is dispatched normally

    def cases(self, rng, tier):
        from fractions import Fraction
        n = 800 if tier == "quick" else 12000
        for i in range(n):
            e = self._gen(rng, rng.randint(1, 4))
            sigma = []
            keys = [p.Subscript(p.Variable("t"), k) for k in (0, 1, 2)] + \
                   [p.Lookup(p.Variable("r"), nm) for nm in ("u", "v")] + \
                   [p.Variable(v) for v in self.NUMS]
            for key in rng.sample(keys, rng.randint(1, 4)):
                val = self._gen(rng, rng.randint(0, 1))
                if isinstance(key, p.Variable) and rng.random() < 0.5:
                    sigma.append(["name", key.name, dumps(expr_to_sx(val))])
                else:
                    if isinstance(key, p.Subscript) and key.index == 1 and rng.random() < 0.3:
                        key = p.Subscript(key.aggregate, True)       # `t[True]` is the key `t[1]`
                    sigma.append(["expr", dumps(expr_to_sx(key)), dumps(expr_to_sx(val))])
            num = lambda: (rng.randint(-4, 4) if rng.random() < 0.6        # noqa: E731
                           else Fraction(rng.randint(-6, 6), rng.randint(1, 3)))
            env = {v: num() for v in self.NUMS}
            env["t"] = tuple(num() for _ in range(3))
            from ..sexp import Record
            env["r"] = Record(u=num(), v=num())
            env["f"] = Func("f")
            env["g"] = Func("g")
            yield {"sigma": norm_sigma(sigma), "env": dumps(env_to_sx(env)), "cached": bool(i % 2),
                   "expr": dumps(expr_to_sx(e))}

    def request(self, pl):
        return (f"(c08-substitute {sigma_req(pl['sigma'])} () "
                f"{'true' if pl['cached'] else 'false'} {pl['expr']})")

    def run_impl(self, pl):
        e = sx_to_expr(loads(pl["expr"]))
        try:
            r = run_subst(e, pl["sigma"], pl["cached"])
        except RecursionError:
            raise
        except Exception as ex:
            return dumps(exc_to_sx(ex))
        if pl["cached"]:
            return f"({spelled(r)})"
        return f"({spelled(r)} {'false' if r is e else 'true'})"

    def oracle(self, pl):
        from ..sexp import Record
        e = sx_to_expr(loads(pl["expr"]))
        env = sx_to_env(loads(pl["env"]))
        sd = sigma_to_dict(pl["sigma"])
        # the updated environment, from the values of the replacements in the ORIGINAL environment
        vals = {}
        for k, v in sd.items():
            o = outcome(lambda: pyeval(v, env))
            if o[0] != "ok":
                return None                      # the statement assumes evaluable replacements
            vals[k] = o[1]
        env2 = dict(env)
        t2, r2 = list(env["t"]), dict(env["r"].__dict__)
        for k, val in vals.items():
            if isinstance(k, str):
                if p.Variable(k) not in vals:    # an object key wins over the name
                    env2[k] = val
            elif isinstance(k, p.Variable):
                env2[k.name] = val
            elif isinstance(k, p.Subscript):
                t2[int(k.index)] = val
            else:
                r2[k.name] = val
        env2["t"], env2["r"] = tuple(t2), Record(**r2)
        try:
            r = run_subst(e, pl["sigma"], pl["cached"])
        except Exception as ex:
            return Failure("subst-raises", repr(ex), pl)
        want = outcome(lambda: pyeval(e, env2))
        got = outcome(lambda: pyeval(r, env))
        if want[0] != "ok":
            return None
        if got[0] == "ok" and values_equal(want[1], got[1]):
            return None
        return Failure("subst-aggregate-value",
                       f"substituted tree gives {got!r}; the original with t, r and the names "
                       f"rebound to the values of the replacements gives {want!r}", pl)

    def shrink(self, pl):
        sg = pl["sigma"]
        for i in range(len(sg)):
            yield {**pl, "sigma": sg[:i] + sg[i + 1:]}
        for s in sx_shrinks(loads(pl["expr"])):
            yield {**pl, "expr": dumps(s)}

    def nontrivial_key(self, pl, model, impl):
        return self.request(pl)

    def stats(self, pl, mo, io, acc):
        for kind, k, _v in pl["sigma"]:
            kk = "name" if kind == "name" else loads(k)[0]
            acc["key_" + str(kk)] = acc.get("key_" + str(kk), 0) + 1


# ---------------------------------------------------------------------------------------------
# whole-node keys of every shape (nested aggregates) and keys that the substitution itself builds
# ---------------------------------------------------------------------------------------------

def entries_to_sigma(entries):
    sigma = []
    for k, v in entries:
        if isinstance(k, str):
            sigma.append(["name", k, spelled(v)])
        else:
            sigma.append(["expr", spelled(k), spelled(v)])
    return norm_sigma(sigma)


def refine_value_key(f, e, r, sd):
    """a `subst-value` failure classified by the clause of the property it breaks"""
    if f is None or f.key != "subst-value":
        return f
    from ..c08_composite import classify
    k = classify(e, r, sd)
    if k is not None:
        f.key = k
        f.detail = {"subst-key-ignored": "a key of the map that occurs in the expression was not "
                                         "replaced: ",
                    "subst-output-substituted-again": "a node that the substitution built or "
                                                      "inserted was looked up in the map again "
                                                      "(not simultaneous): "}[k] + f.detail
    return f


class CompositeKeyStream(SubstStream):
    """Expressions rich in selection chains (`a[i][j]`, `r.p.x`, `r.d[c[i]]`, `(a if .. else b)[i]`)
    with maps whose keys are whole subscript / look-up nodes at EVERY nesting level (the aggregate
    of a key is a name, a selection or any other expression), neighbours that do not occur, swaps
    of selections with each other and with variables, and keys that do not occur in the expression
    but are what the map BUILDS from a node that does (`a[i]`, `{i: j, a[j]: 7}`), closed under
    substituting the output again.  Correspondence with the model on the result tree and the
    identity flag; oracle: the property's value statement (override reading), for the plain and the
    memoizing mapper, in an environment against which the selections are well typed."""
    name = "composite-keys"

    def cases(self, rng, tier):
        from ..c08_composite import SelGen, make_composite_sigma, sel_env
        n = 1500 if tier == "quick" else 25000
        G = SelGen(rng)
        g = ExprGen(rng, cse=0.1, lists=False, foreign=False, malformed=0.0)
        self.tags = {}
        for i in range(n):
            e = G.gen(rng.randint(1, 4))
            env = sel_env(rng)
            if i % 7 == 0:
                # every node type around the selections
                e = p.Sum((e, g.gen(rng.choice(["num", "any", "int"]), rng.randint(1, 3))))
                env = {**rand_env(rng), **env}
            entries = make_composite_sigma(rng, G, e, self.tags)
            if not entries:
                continue
            yield {"sigma": entries_to_sigma(entries), "env": dumps(env_to_sx(env)),
                   "cached": bool(i % 2), "expr": spelled(e)}

    def oracle(self, pl):
        f = super().oracle(pl)
        if f is not None and f.key == "subst-value":
            e = sx_to_expr(loads(pl["expr"]))
            try:
                r = run_subst(e, pl["sigma"], pl["cached"])
            except Exception:
                return f
            f = refine_value_key(f, e, r, sigma_to_dict(pl["sigma"]))
        return f

    def stats(self, pl, mo, io, acc):
        super().stats(pl, mo, io, acc)
        for kind, k, _v in pl["sigma"]:
            if kind == "expr":
                key = sx_to_expr(loads(k))
                if isinstance(key, (p.Subscript, p.Lookup)):
                    acc["key_selection"] = acc.get("key_selection", 0) + 1
                    if not isinstance(key.aggregate, p.Variable):
                        acc["key_aggregate_not_a_name"] = acc.get("key_aggregate_not_a_name", 0) + 1
        env = sx_to_env(loads(pl["env"]))
        e = sx_to_expr(loads(pl["expr"]))
        if outcome(lambda: eval_overridden(e, env, sigma_to_dict(pl["sigma"])))[0] == "ok":
            acc["evaluable"] = acc.get("evaluable", 0) + 1
        for t, c in getattr(self, "tags", {}).items():
            acc["maps_with_" + t] = c


# ---------------------------------------------------------------------------------------------
# ONE long-lived memoizing mapper fed TEMPORARIES (arguments built for one call and dropped)
# ---------------------------------------------------------------------------------------------

TEMP_NAMES = ["x", "y", "z", "u", "v", "w"]
KNOWN_VALUE_KEYS = ("cse-zero-child-collapses", "cached-other-spelling-changes-value")


def temp_entries(rng):
    """a map over `TEMP_NAMES`: a swap, chains, compound replacements; keys by name or by object;
    sometimes a whole subscript `a[k]`"""
    names = rng.sample(TEMP_NAMES, rng.randint(2, 4))
    V = p.Variable
    entries = []

    def key(nm):
        return nm if rng.random() < 0.6 else V(nm)
    rest = names
    if rng.random() < 0.7:
        entries += [(key(names[0]), V(names[1])), (key(names[1]), V(names[0]))]
        rest = names[2:]
    for nm in rest:
        o1, o2 = rng.choice(TEMP_NAMES), rng.choice(TEMP_NAMES)
        entries.append((key(nm), rng.choice([
            V(o1), p.Sum((V(o1), rng.randint(1, 9))), p.Sum((p.Product((V(o1), V(o2))), 1)),
            rng.randint(2, 9), p.Subscript(V("a"), V(o1))])))
    if rng.random() < 0.3:
        entries.append((p.Subscript(V("a"), rng.choice([V(rng.choice(TEMP_NAMES)),
                                                         rng.randint(1, 180)])),
                        V(rng.choice(TEMP_NAMES))))
    return entries


class CachedTemporariesStream(Stream):
    """"The plain and memoizing substitution mappers give equal results" and "substitute, then
    evaluate = evaluate in the updated environment" for EVERY call on one mapper object, when the
    arguments are temporaries: each expression is built inside the call that passes it and is dead
    when the call returns (`harness/temporaries.py`), as happens when expressions are re-parsed /
    re-generated per request.  30..100 calls on ONE `CachedSubstitutionMapper`:
      * `family`: structurally identical expressions with different contents (the freed blocks of
        one member are what the next one is built in), some members exact repetitions;
      * `pool`: a pool of selection-rich expressions with a composite-key map, called again and
        again in random order (every call a newly built, structurally equal tree).
    Correspondence: the result trees against the model's memo table threaded through the history
    (`c08-hist`; the model has no object identities, so nothing in it can depend on addresses).
    Oracle: every answer, at once, against the property's value statement and against the plain
    mapper applied afresh; a failure that a NEW memoizing mapper does not show is classified as
    `cached-temporaries-*` (state carried across calls)."""
    name = "cached-temporaries"

    def cases(self, rng, tier):
        from .. import temporaries as T
        from ..c08_composite import SelGen, make_composite_sigma, sel_env
        n = 30 if tier == "quick" else 300
        for i in range(n):
            if i % 2 == 0:
                # calls (their values support no arithmetic) and subscripts (computed indices
                # leave the table) make a family one that is judged by comparison only
                ops = ["sum", "sum", "prod", "prod", "quot", "pow", "cse"]
                ops += ["subscript"] * (rng.random() < 0.35) + ["call"] * (rng.random() < 0.3)
                g = T.TemplateGen(rng, ops, fixed_vars=["x", "x", "y", "z"], carrier_var="x", var_holes=True)
                k = rng.randint(20, 60)
                exprs = T.family(rng, g, rng.randint(2, 3), k, names=TEMP_NAMES,
                                 repeat=rng.choice([0.0, 0.15, 0.4]))
                entries = temp_entries(rng)
                env = {nm: rng.randint(1, 5) for nm in TEMP_NAMES}      # positive: no zero divisors
                for t in exprs:                      # the names at the holes
                    for s_ in scan.subterms(sx_to_expr(loads(t))):
                        if isinstance(s_, p.Variable) and s_.name not in ("a", "f", "g"):
                            env.setdefault(s_.name, rng.randint(1, 5))
                env["a"] = tuple(rng.randint(-9, 9) for _ in range(400))
                env["f"], env["g"] = Func("f"), Func("g")
                mode = "family"
            else:
                G = SelGen(rng)
                pool = [G.gen(rng.randint(1, 3)) for _ in range(rng.randint(6, 16))]
                entries = make_composite_sigma(rng, G, p.Sum(tuple(pool)))
                texts = [spelled(e) for e in pool]
                k = rng.randint(30, 100)
                if rng.random() < 0.5:
                    exprs = [rng.choice(texts) for _ in range(k)]
                else:                          # rounds: the whole pool comes around again
                    exprs = []
                    while len(exprs) < k:
                        exprs += rng.sample(texts, len(texts))
                env = sel_env(rng)
                mode = "pool"
            if not all(is_safe(sx_to_expr(loads(t)), env) for t in set(exprs)):
                continue
            r = rng.random()
            gc_at = [] if r < 0.35 else list(range(k)) if r < 0.45 else \
                sorted(rng.sample(range(k), max(1, k // 6)))
            yield {"mode": mode, "sigma": entries_to_sigma(entries), "env": dumps(env_to_sx(env)),
                   "exprs": exprs, "gc": gc_at, "hold": bool(i % 4 < 2), "share": bool(i % 5 == 3)}

    def request(self, pl):
        return f"(c08-hist {sigma_req(pl['sigma'])} ({' '.join(pl['exprs'])}))"

    def _mapper(self, pl):
        from pymbolic.mapper.substitutor import CachedSubstitutionMapper, make_subst_func
        return CachedSubstitutionMapper(make_subst_func(sigma_to_dict(pl["sigma"])))

    def run_impl(self, pl):
        from .. import temporaries as T
        parts = []

        def judge(i, text, out):
            parts.append(out[1] if out[0] == "ok" else f"(err {out[1]})")
        T.run_family(self._mapper(pl), pl["exprs"], judge, collect_at=pl["gc"], hold=False,
                     share=pl["share"], post=spelled)
        return "(" + " ".join(parts) + ")"

    def oracle(self, pl):
        from pymbolic.mapper.substitutor import (CachedSubstitutionMapper, SubstitutionMapper,
                                                 make_subst_func)
        from .. import temporaries as T
        env = sx_to_env(loads(pl["env"]))
        sd = sigma_to_dict(pl["sigma"])
        hold, share, n = pl["hold"], pl["share"], len(pl["exprs"])
        pending = []
        acc = self.last = {}

        def judge_member(i, text, out):
            if out[0] != "ok":
                return Failure("subst-raises", f"call #{i}: {out[1]}", pl)
            got_text = spelled(out[1]) if hold else out[1]
            e = T.build(text)                      # a copy of the argument to judge the answer with
            r = sx_to_expr(loads(got_text))
            plain = SubstitutionMapper(make_subst_func(sd))(e)
            fl = judge(e, r, env, sd, pl, plain=plain, acc=acc)
            differs = not (r == plain)
            if fl is None and not differs:
                return None
            fresh = CachedSubstitutionMapper(make_subst_func(sd))(T.build(text))
            fresh_ok = fresh == plain and judge(e, fresh, env, sd, pl, plain=plain) is None
            what = (f"call #{i} of {n} on ONE CachedSubstitutionMapper (every earlier argument was "
                    f"dropped before this one was built): m({text[:240]}) = {got_text[:300]}; a new "
                    f"memoizing mapper gives {spelled(fresh)[:300]}, the plain mapper "
                    f"{spelled(plain)[:300]}")
            if fresh_ok:
                if fl is not None:
                    return Failure("cached-temporaries-value", f"{what}; {fl.detail}", pl)
                return Failure("cached-temporaries-differ", what, pl)
            if fl is not None:
                if fl.key in KNOWN_VALUE_KEYS:
                    pending.append(fl)             # go on: later calls are judged too
                    return None
                return refine_value_key(fl, e, r, sd)
            return Failure("cached-plain-differ", what, pl)

        import warnings
        with warnings.catch_warnings():
            warnings.simplefilter("ignore")
            f = T.run_family(self._mapper(pl), pl["exprs"], judge_member, collect_at=pl["gc"],
                             hold=hold, share=share, post=None if hold else spelled)
        if f is None and pending:
            f = pending[0]
        return f

    def shrink(self, pl):
        # the history stays whole: which call lands on a recycled address is up to the allocator
        if pl.get("share"):
            yield {**pl, "share": False}
        if pl["gc"]:
            yield {**pl, "gc": []}
        sg = pl["sigma"]
        for i in range(len(sg)):
            yield {**pl, "sigma": sg[:i] + sg[i + 1:]}

    def nontrivial_key(self, pl, model, impl):
        return pl["mode"] + sigma_req(pl["sigma"]) + pl["exprs"][0]

    def stats(self, pl, mo, io, acc):
        acc[pl["mode"]] = acc.get(pl["mode"], 0) + 1
        acc["calls"] = acc.get("calls", 0) + len(pl["exprs"])
        acc["calls_repeating_an_earlier_argument"] = acc.get(
            "calls_repeating_an_earlier_argument", 0) + len(pl["exprs"]) - len(set(pl["exprs"]))
        acc["answers_judged_by_value"] = acc.get("answers_judged_by_value", 0) + \
            getattr(self, "last", {}).get("evaluable", 0)


def probes():
    from pymbolic.mapper.substitutor import substitute
    e = p.CommonSubexpression(0)
    r = substitute(e, {})
    from pymbolic.mapper.substitutor import CachedSubstitutionMapper
    e2 = p.Sum((p.Variable("j"), p.Variable("j")))
    r2 = substitute(e2, {}, mapper_cls=CachedSubstitutionMapper)
    # the memoizing mapper answers a tree with the result cached for an ==-equal tree of another
    # spelling, which Python evaluates differently
    f, y, i = p.Variable("f"), p.Variable("y"), p.Variable("i")
    e3 = p.Call(f, (p.Sum((2.0, y)), p.LeftShift(i, p.Sum((2, y)))))
    r3 = substitute(e3, {})
    env3 = {"y": 1, "i": 3, "f": Func("f")}
    want3 = outcome(lambda: pyeval(e3, env3))
    got3 = outcome(lambda: pyeval(r3, env3))
    spelling_fails = not (want3[0] == "ok" and got3[0] == "ok" and values_equal(want3[1], got3[1]))
    return [("cached-other-spelling-changes-value", spelling_fails,
             f"substitute({e3!r}, {{}}) returns {r3!r}: {got3!r} instead of {want3!r}"),
            ("cse-zero-child-collapses", r is not e,
             f"substitute(CommonSubexpression(0), {{}}) returns {r!r}, not the identical object"),
            ("cached-duplicate-subtree-rebuilt", r2 is not e2,
             "substitute(Sum((Variable('j'), Variable('j'))), {}) with two distinct equal Variable "
             "objects returns a rebuilt Sum under the memoizing mapper")]


def extract_substitutor(ctx=None):
    from extract.substitutor import extract_substitutor as ex
    return ex(ctx)


PROP = Prop(
    id="C08",
    title="Substitution commutes with evaluation",
    lean_targets=["PV.Properties.C08", "PV.Properties.C08Built"],
    extractors=[extract_substitutor],
    theorems=[],
    streams=[SubstStream(), KwStream(), HistStream(), AggStream(), CompositeKeyStream(),
             CachedTemporariesStream()],
    probes=[probes],
    trusted_base=["Lean 4.33 kernel; axioms propext, Classical.choice, Quot.sound only",
                  "PyNum/den (see C02); harness serialisation"],
    level_text=('Lean theorems (unbounded): substitution lemma for EVERY key kind (names, Variable objects, '
                'subscripts, look-ups, keyword form): den(subst s e) = den of e with each intercepted node '
                'overridden by the value of its replacement (eval_subst_keys, errors included); this is '
                'evaluation in a genuinely updated environment for name/Variable keys (eval_subst_vars, object '
                'key wins over name, keyword over string key) and for element/attribute keys a[k], r.n when the '
                'aggregates occur only under literal selections (eval_subst_aggregates), with witnesses for '
                'computed, negative and missing selections; untouched trees come back unchanged with the '
                'identity flag off; replacements are inserted as they are; the memoizing mapper, modelled with '
                'its memo table over arbitrary call histories, returns trees == to the plain mapper\'s '
                '(cached_hist_pyEq) and the very same trees when no two trees in play are confusable as keys '
                '(cached_hist_identical). Tied to SubstitutionMapper / CachedSubstitutionMapper / substitute by '
                'correspondence on result trees (exact spelling, also for histories on one memoizing mapper) '
                'and object identity (plain mapper).'),
    level_note=('Trusted: Lean kernel; PyNum/den; harness. All value theorems exclude CSE nodes whose '
                'substituted child is zero (IdentityMapper collapses them to 0 - known finding). The '
                'memoizing mapper\'s "new object" flag is not modelled (no object identities in the model); '
                'its results can be another spelling of the plain result (2.0 for 2) and then evaluate '
                'differently - known finding cached-other-spelling-changes-value; floats are outside den.'),
    technique='Lean 4 substitution lemma by mutual structural induction + differential correspondence of substM against the real mappers',
    design_ref="DESIGN.md §4 C08",
)
