"""C08 — substitution commutes with evaluation."""
from __future__ import annotations

import pymbolic.primitives as p

from ..core import Failure, Prop, Stream
from ..gen import ExprGen, node_types, rand_env
from ..oracles import scan
from ..oracles.pyeval import Unknown, loosely_equal, outcome, pyeval
from ..sexp import (A, dumps, env_to_sx, exc_to_sx, expr_to_sx, loads, sx_shrinks, sx_to_env,
                    sx_to_expr)


def sigma_to_dict(sigma):
    d = {}
    for kind, k, v in sigma:
        key = k if kind == "name" else sx_to_expr(loads(k))
        d[key] = sx_to_expr(loads(v))
    return d


def sigma_req(sigma):
    parts = []
    for kind, k, v in sigma:
        if kind == "name":
            parts.append(f'(name "{k}" {v})')
        else:
            parts.append(f"(expr {k} {v})")
    return "(" + " ".join(parts) + ")"


def run_subst(e, sigma, cached):
    from pymbolic.mapper.substitutor import (CachedSubstitutionMapper, SubstitutionMapper,
                                             substitute)
    cls = CachedSubstitutionMapper if cached else SubstitutionMapper
    return substitute(e, sigma_to_dict(sigma), mapper_cls=cls)


def eval_overridden(e, env, sigma_dict):
    """Reference meaning of 'e in an environment where each replaced node is bound to the value of
    its replacement': intercepted nodes (variables by object or name, subscripts, look-ups) take
    the replacement's value in `env`; nothing inside a replacement is substituted again."""
    def lookup(node):
        try:
            if node in sigma_dict:
                return sigma_dict[node]
        except TypeError:
            pass
        if isinstance(node, p.Variable) and node.name in sigma_dict:
            return sigma_dict[node.name]
        return None

    class Env(dict):
        pass

    def ev(x):
        if isinstance(x, (p.Variable, p.Subscript, p.Lookup)):
            r = lookup(x)
            if r is not None:
                return pyeval(r, env)
        if isinstance(x, p.Variable):
            return pyeval(x, env)
        return pyeval_with(x, ev)
    return ev(e)


def pyeval_with(x, ev):
    """one level of the reference interpreter with `ev` used for the children"""
    import dataclasses
    if not isinstance(x, p.Expression):
        if isinstance(x, tuple):
            return tuple(ev(c) for c in x)
        if isinstance(x, list):
            return [ev(c) for c in x]
        return pyeval(x, {})

    class Box:
        pass
    # rebuild the node with children replaced by placeholder variables bound to their values
    env2 = {}
    counter = [0]

    def hole(c):
        counter[0] += 1
        nm = f"__h{counter[0]}"
        env2[nm] = c
        return p.Variable(nm)

    lazy = {}

    class LazyEnv(dict):
        def __contains__(self, k):
            return k in env2

        def __getitem__(self, k):
            if k not in lazy:
                lazy[k] = ev(env2[k])
            return lazy[k]
    kw = {}
    for f in dataclasses.fields(x):
        v = getattr(x, f.name)
        if isinstance(v, str) or v is None or f.name in ("variables", "operator", "prefix", "scope",
                                                            "data_type", "name"):
            kw[f.name] = v
        elif isinstance(v, tuple) and f.name in ("children", "parameters", "values"):
            kw[f.name] = tuple(None if c is None else hole(c) for c in v)
        elif hasattr(v, "items"):
            kw[f.name] = {k: hole(c) for k, c in v.items()}
        else:
            kw[f.name] = hole(v)
    node = type(x)(**kw)
    return pyeval(node, LazyEnv())


def make_sigma(rng, g, e):
    """keys as names, Variable objects, subscripts or look-ups occurring in e (and a few that do
    not); values arbitrary expressions, including ones that mention other keys (swaps)."""
    subs = [s for s in scan.subterms(e) if isinstance(s, (p.Variable, p.Subscript, p.Lookup))]
    sigma = []
    used = set()
    # a NAME key that coincides with the attribute name of a look-up in e (or with a keyword name)
    # must not touch the look-up: only variables are found by name
    lookups = [s for s in subs if isinstance(s, p.Lookup)]
    if lookups and rng.random() < 0.5:
        nm = rng.choice(lookups).name
        used.add(("name", nm))
        sigma.append(["name", nm, dumps(expr_to_sx(rng.choice([p.Variable("z"), 7, p.Variable("x") + 1])))])
    n = rng.randint(0, 3)
    for _ in range(n):
        k = rng.random()
        if subs and k < 0.75:
            key = rng.choice(subs)
        else:
            key = p.Variable(rng.choice(["x", "y", "q"]))
        if isinstance(key, p.Variable) and rng.random() < 0.5:
            ent_key = ("name", key.name)
        else:
            ent_key = ("expr", dumps(expr_to_sx(key)))
        if ent_key in used:
            continue
        used.add(ent_key)
        r = rng.random()
        if r < 0.3:
            val = p.Variable(rng.choice(["x", "y", "z", "i"]))       # swaps / chains
        elif r < 0.45:
            val = rng.randint(-3, 3)
        else:
            val = g.gen(rng.choice(["num", "int"]), rng.randint(0, 2))
        sigma.append([ent_key[0], ent_key[1], dumps(expr_to_sx(val))])
    return sigma


class SubstStream(Stream):
    name = "substitute"

    def cases(self, rng, tier):
        n = 2500 if tier == "quick" else 40000
        g = ExprGen(rng, cse=0.1, lists=False, foreign=False, malformed=0.01)
        for i in range(n):
            e = g.gen(rng.choice(["num", "num", "any", "bool", "int"]), rng.randint(1, 5))
            if i % 5 == 0:
                e = p.Sum((e, p.Lookup(p.Variable("r"), rng.choice(["x", "y", "u"])),
                           p.Variable(rng.choice(["x", "y"]))))
            sigma = make_sigma(rng, g, e)
            env = rand_env(rng)
            base = {"sigma": sigma, "env": dumps(env_to_sx(env)), "cached": bool(i % 2)}
            yield {**base, "expr": dumps(expr_to_sx(e))}
            # deep identity: the same substitution applied to a few subterms on their own
            subs = scan.subterms(e)
            for s in rng.sample(subs, min(3, len(subs))):
                if isinstance(s, p.Expression) or isinstance(s, tuple):
                    yield {**base, "expr": dumps(expr_to_sx(s))}

    def request(self, pl):
        return f"(subst {sigma_req(pl['sigma'])} {pl['expr']})"

    def run_impl(self, pl):
        e = sx_to_expr(loads(pl["expr"]))
        try:
            r = run_subst(e, pl["sigma"], pl["cached"])
        except RecursionError:
            raise
        except Exception as ex:
            return dumps(exc_to_sx(ex))
        return f"({dumps(expr_to_sx(r))} {'false' if r is e else 'true'})"

    def agree(self, model, impl, pl):
        if pl["cached"] and not impl.startswith("(err"):
            # object identity under the memoizing mapper depends on which of several equal
            # objects was cached first; the model has no object identities: compare trees only
            if model.rsplit(" ", 1)[0] == impl.rsplit(" ", 1)[0]:
                return "ok"
            # the memo table may also return an ==-equal tree of another spelling (CSE(True) for
            # CSE(1)): compare with Python ==
            try:
                m, i = loads(model), loads(impl)
                return "ok" if sx_to_expr(m[0]) == sx_to_expr(i[0]) else "diff"
            except Exception:
                return "diff"
        return super().agree(model, impl, pl)

    def oracle(self, pl):
        e = sx_to_expr(loads(pl["expr"]))
        env = sx_to_env(loads(pl["env"]))
        sd = sigma_to_dict(pl["sigma"])
        try:
            r = run_subst(e, pl["sigma"], pl["cached"])
            r2 = run_subst(e, pl["sigma"], not pl["cached"])
        except Exception as ex:
            return Failure("subst-raises", repr(ex), pl)
        if r != r2:
            return Failure("cached-plain-differ", f"{r!r} vs {r2!r}", pl)
        # identity of untouched trees
        keys_exprs = [k for k in sd if not isinstance(k, str)]
        keys_names = [k for k in sd if isinstance(k, str)]
        touched = any((s in keys_exprs) or (isinstance(s, p.Variable) and s.name in keys_names)
                      for s in scan.subterms(e) if isinstance(s, p.Expression))
        if not touched and r is not e:
            zero_cse = any(isinstance(s, p.CommonSubexpression) and p.is_zero(s.child)
                           for s in scan.subterms(e) if isinstance(s, p.Expression))
            subs = [s for s in scan.subterms(e) if not isinstance(s, (list, dict))]

            def _eq(a, b):
                try:
                    return bool(a == b)
                except Exception:
                    return False
            dup = any(a is not b and _eq(a, b) for i, a in enumerate(subs) for b in subs[:i])
            key = ("cse-zero-child-collapses" if zero_cse
                   else "cached-duplicate-subtree-rebuilt" if (pl["cached"] and dup)
                   else "untouched-not-identical")
            return Failure(key, f"nothing to replace in {e!r} but result {r!r} is a new object", pl)
        # value
        want = outcome(lambda: eval_overridden(e, env, sd))
        if want[0] != "ok":
            return None
        got = outcome(lambda: pyeval(r, env))
        ok = got[0] == "ok" and loosely_equal(want[1], got[1])
        if not ok:
            try:
                collapses = any(
                    isinstance(s_, p.CommonSubexpression)
                    and p.is_zero(run_subst(s_.child, pl["sigma"], False))
                    for s_ in scan.subterms(e))
            except Exception:
                collapses = False
            if collapses:
                return Failure("cse-zero-child-collapses", f"a CSE whose substituted child is falsy "
                               f"collapses to 0: {got!r} vs {want!r}", pl)
            return Failure("subst-value", f"substituted tree gives {got!r}, original in updated "
                           f"environment gives {want!r}", pl)
        return None

    def shrink(self, pl):
        sg = pl["sigma"]
        for i in range(len(sg)):
            yield {**pl, "sigma": sg[:i] + sg[i + 1:]}
        for s in sx_shrinks(loads(pl["expr"])):
            yield {**pl, "expr": dumps(s)}

    def nontrivial_key(self, pl, model, impl):
        return pl["expr"] + sigma_req(pl["sigma"]) if impl.endswith("true)") else None

    def stats(self, pl, mo, io, acc):
        acc["changed"] = acc.get("changed", 0) + (1 if io.endswith("true)") else 0)
        acc["identical"] = acc.get("identical", 0) + (1 if io.endswith("false)") else 0)
        for kind, _k, _v in pl["sigma"]:
            acc["key_" + kind] = acc.get("key_" + kind, 0) + 1


def probes():
    from pymbolic.mapper.substitutor import substitute
    e = p.CommonSubexpression(0)
    r = substitute(e, {})
    from pymbolic.mapper.substitutor import CachedSubstitutionMapper
    e2 = p.Sum((p.Variable("j"), p.Variable("j")))
    r2 = substitute(e2, {}, mapper_cls=CachedSubstitutionMapper)
    return [("cse-zero-child-collapses", r is not e,
             f"substitute(CommonSubexpression(0), {{}}) returns {r!r}, not the identical object"),
            ("cached-duplicate-subtree-rebuilt", r2 is not e2,
             "substitute(Sum((Variable('j'), Variable('j'))), {}) with two distinct equal Variable "
             "objects returns a rebuilt Sum under the memoizing mapper")]


PROP = Prop(
    id="C08",
    title="Substitution commutes with evaluation",
    lean_targets=["PV.Properties.C08"],
    theorems=[],
    streams=[SubstStream()],
    probes=[probes],
    trusted_base=["Lean 4.33 kernel; axioms propext, Classical.choice, Quot.sound only",
                  "PyNum/den (see C02); harness serialisation"],
    level_text='Lean theorems (unbounded): substitution lemma den(subst s e) = den(e) in the environment updated with the values of the replacements, for the full expression language (errors included); untouched trees come back unchanged with the identity flag off; replacements are inserted as they are. Tied to SubstitutionMapper / CachedSubstitutionMapper by correspondence on result trees and object identity, for name, variable, subscript and look-up keys.',
    level_note='Trusted: Lean kernel; PyNum/den; harness. eval_subst is stated for name-keyed maps whose replacements evaluate, and excludes CSE nodes whose substituted child is zero (IdentityMapper collapses them to 0 - known finding); subscript/look-up keys and the memoizing mapper are covered by correspondence and the value oracle only.',
    technique='Lean 4 substitution lemma by mutual structural induction + differential correspondence of substM against the real mappers',
    design_ref="DESIGN.md §4 C08",
)
