"""C10 — symbolic differentiation yields the true derivative."""
from __future__ import annotations

import itertools
import random
import warnings
from fractions import Fraction

import pymbolic.primitives as p

from ..core import Failure, Prop, Stream
from ..oracles import dual
from ..sexp import A, Unencodable, dumps, expr_to_sx, hashcons, loads, sx_shrinks, sx_to_expr

CFGS = ["none", "continuous", "discontinuous"]
MATH = p.Variable("math")
SMOOTH = list(dual.SMOOTH)
x, y, z = p.Variable("x"), p.Variable("y"), p.Variable("z")
a0, a1 = p.Subscript(p.Variable("a"), 0), p.Subscript(p.Variable("a"), 1)


def mf(name, *args):
    return p.Call(p.Lookup(MATH, name), tuple(args))


# {{{ running the real code

def err_sx(ex):
    from pymbolic.mapper import UnsupportedExpressionError
    if isinstance(ex, UnsupportedExpressionError):
        return "(err Unsupported)"
    if isinstance(ex, NotImplementedError):
        return "(err NotImplemented)"
    for cls in (ZeroDivisionError, ValueError, RuntimeError, TypeError, AttributeError,
                AssertionError, OverflowError):
        if isinstance(ex, cls):
            return f"(err {cls.__name__})"
    return f"(err Other {type(ex).__name__})"


def the_var(pl):
    v = sx_to_expr(loads(pl["var"]))
    if pl.get("varstr") and isinstance(v, p.Variable):
        return v.name
    return v


def run_differentiate(e, v, cfg):
    from pymbolic.mapper.differentiator import differentiate
    with warnings.catch_warnings():
        warnings.simplefilter("ignore")
        return differentiate(e, v, allowed_nonsmoothness=cfg)


def tree_sx(fn):
    try:
        r = fn()
    except RecursionError:
        raise
    except Exception as ex:
        return err_sx(ex)
    try:
        return dumps(expr_to_sx(r))
    except Unencodable:
        return "(err Unencodable)"


# }}}

# {{{ generators

class DiffGen:
    """random expressions of (mostly) the differentiable fragment"""

    def __init__(self, rng: random.Random, junk=0.03, floats=0.03):
        self.rng = rng
        self.junk = junk
        self.floats = floats
        self.cses = []

    def leaf(self):
        r = self.rng
        k = r.random()
        if k < 0.55:
            return r.choice([x, x, y, z])
        if k < 0.65:
            return r.choice([a0, a1])
        if k < 0.65 + self.floats:
            return r.choice([0.5, 2.0, -1.5, 1.0, 0.0])
        if k < 0.70 + self.floats:
            return r.choice([True, False])
        return r.choice([-3, -2, -1, 0, 1, 1, 2, 2, 3, 4, 5])

    def kids(self, depth, lo=1, hi=3):
        return tuple(self.gen(depth - 1) for _ in range(self.rng.randint(lo, hi)))

    def cond(self, depth):
        r = self.rng
        k = r.random()
        if k < 0.75:
            return p.Comparison(self.gen(min(depth, 1)), r.choice(["<", "<=", ">", ">=", "==", "!="]),
                                self.gen(min(depth, 1)))
        if k < 0.85:
            return p.LogicalNot(self.cond(depth - 1))
        if k < 0.95:
            return r.choice([p.LogicalAnd, p.LogicalOr])(
                tuple(self.cond(depth - 1) for _ in range(r.randint(1, 2))))
        return self.gen(1)

    def gen(self, depth=3):
        r = self.rng
        if depth <= 0 or r.random() < 0.15:
            return self.leaf()
        if r.random() < self.junk:
            return self.junk_node(depth)
        d = depth - 1
        k = r.choice(["sum", "sum", "sum", "prod", "prod", "prod", "quot", "quot", "pow", "pow",
                      "pow", "fn", "fn", "fn", "nonsmooth", "unknown", "if", "cse", "cse"])
        if k == "sum":
            return p.Sum(self.kids(depth, 0 if r.random() < 0.03 else 1))
        if k == "prod":
            return p.Product(self.kids(depth, 0 if r.random() < 0.03 else 1))
        if k == "quot":
            return p.Quotient(self.gen(d), self.gen(d) if r.random() < 0.85 else r.choice([2, 4, 1, -1, 3]))
        if k == "pow":
            kk = r.random()
            if kk < 0.6:
                ex = r.choice([-3, -2, -1, 0, 1, 2, 2, 3, 4])
            elif kk < 0.85:
                ex = r.choice([x, y, z])
            else:
                ex = self.gen(1)
            return p.Power(self.gen(d), ex)
        if k == "fn":
            kk = r.random()
            name = r.choice(SMOOTH)
            if kk < 0.94:
                return mf(name, self.gen(d))
            if kk < 0.97:
                return mf(name, self.gen(d), self.gen(d))      # wrong arity: unknown
            return mf(name)
        if k == "nonsmooth":
            kk = r.random()
            if kk < 0.45:
                return mf("fabs", self.gen(d))
            if kk < 0.7:
                return mf("copysign", 1, self.gen(d))           # pymbolic.functions.sign
            return mf("copysign", self.gen(d), self.gen(d))
        if k == "unknown":
            kk = r.random()
            if kk < 0.4:
                return p.Call(p.Variable("f"), self.kids(depth, 0, 2))
            if kk < 0.6:
                return p.Call(p.Lookup(p.Variable("numpy"), "sin"), (self.gen(d),))
            if kk < 0.8:
                return p.Call(p.Variable(r.choice(["sin", "log"])), (self.gen(d),))
            return mf(r.choice(["atan", "sqrt", "floor"]), self.gen(d))
        if k == "if":
            return p.If(self.cond(depth), self.gen(d), self.gen(d))
        if k == "cse":
            if self.cses and r.random() < 0.45:
                c = r.choice(self.cses)
                return c if r.random() < 0.6 else self.variant(c)
            c = p.CommonSubexpression(self.gen(d), r.choice([None, "cs", "u"]),
                                      r.choice([p.cse_scope.EVALUATION, p.cse_scope.EXPRESSION]))
            self.cses.append(c)
            return c
        raise AssertionError(k)

    def variant(self, e):
        """an expression == to `e` that is (usually) a different tree: ints become floats / bools"""
        r = self.rng

        def go(t):
            if isinstance(t, list) and t and isinstance(t[0], A) and t[0] == "Int":
                n = int(t[1])
                k = r.random()
                if k < 0.4:
                    return expr_to_sx(float(n))
                if k < 0.5 and n in (0, 1):
                    return expr_to_sx(bool(n))
                return t
            if isinstance(t, list):
                return [go(c) if isinstance(c, list) else c for c in t]
            return t
        return sx_to_expr(go(expr_to_sx(e)))

    def junk_node(self, depth):
        r = self.rng
        d = depth - 1
        k = r.choice(["floordiv", "rem", "min", "lookup", "tuple", "none", "str", "callkw", "cmp",
                      "lnot", "deriv", "nan", "subidx", "list", "cselist"])
        if k == "floordiv":
            return p.FloorDiv(self.gen(d), 2)
        if k == "rem":
            return p.Remainder(self.gen(d), 2)
        if k == "min":
            return p.Min((self.gen(d), self.gen(d)))
        if k == "lookup":
            return p.Lookup(p.Variable("r"), "u")
        if k == "tuple":
            return (self.gen(d),)
        if k == "none":
            return None
        if k == "str":
            return "abc"
        if k == "callkw":
            return p.CallWithKwargs(p.Variable("f"), (self.gen(d),), {"k": 1})
        if k == "cmp":
            return p.Comparison(self.gen(d), "<", self.gen(d))
        if k == "lnot":
            return p.LogicalNot(self.gen(d))
        if k == "deriv":
            return p.Derivative(self.gen(d), ("x",))
        if k == "nan":
            return p.NaN()
        if k == "subidx":
            return p.Subscript(p.Variable("a"), self.gen(1))
        if k == "list":
            return [self.gen(d)]
        return p.CommonSubexpression([self.gen(d)])


DIFF_VARS = [(x, True), (x, False), (y, True), (z, False), (p.Variable("w"), True),
             (a0, False), (a1, False), (p.Subscript(p.Variable("a"), 5), False),
             (p.Subscript(p.Variable("b"), 0), False), (x, True), (x, True)]


def payload(e, v, varstr, cfg):
    return {"expr": dumps(expr_to_sx(e)), "var": dumps(expr_to_sx(v)), "varstr": bool(varstr),
            "cfg": cfg}


def shape_cases():
    """exhaustive small enumeration of the shapes the property names"""
    operands = [x, y, 3, 0, 1, p.Product((x, y)), p.Sum((x, 1)), p.CommonSubexpression(y),
                p.CommonSubexpression(p.Product((x, x))), p.Power(x, 2), mf("sin", x)]
    for f, g in itertools.product(operands, operands):
        for v in (x, p.Variable("w")):
            yield payload(p.Quotient(f, g), v, True, "none")
            yield payload(p.Power(f, g), v, True, "none")
    exps = [-3, -2, -1, 0, 1, 2, 3, 4, True, False, 2.0, 0.5, y, p.Sum((2,))]
    for b, ex in itertools.product([x, p.Sum((x, 1)), p.Product((2, x)), y, 2, 0, 1], exps):
        yield payload(p.Power(b, ex), x, True, "none")
    args = [x, y, 2, 1, 0, True, 0.5, p.Product((x, x)), p.Product((2, x)), p.Quotient(x, y),
            p.Sum((x, y)), mf("sin", x), p.Power(x, y)]
    names = SMOOTH + ["fabs", "atan"]
    for name, arg, cfg in itertools.product(names, args, CFGS):
        for v in (x, p.Variable("w")):
            yield payload(mf(name, arg), v, True, cfg)
    for a, b, cfg in itertools.product([x, y, 1, 2, p.Product((x, x))], [x, y, 1, -2], CFGS):
        for v in (x, y):
            yield payload(mf("copysign", a, b), v, True, cfg)
    for f in (p.Variable("f"), p.Variable("sin"), p.Lookup(p.Variable("np"), "sin"), p.Lookup(x, "sin"), 3):
        for pars in ((), (x,), (y,), (x, y)):
            for cfg in CFGS:
                yield payload(p.Call(f, pars), x, True, cfg)
    prods = [(), (x,), (x, x), (x, y), (x, 0), (0, x), (1, x), (x, 1, y), (2, x, y), (x, x, x),
             (p.Product((x, y)), x), (p.Sum((x, y)), p.Sum((x, 1))), (p.CommonSubexpression(y), x),
             (x, p.Product((1, 1))), (y, z), (True, x), (2.0, x), (x, 0.0)]
    for cs in prods:
        for v in (x, y, p.Variable("w")):
            yield payload(p.Product(cs), v, True, "none")
            yield payload(p.Sum(cs), v, True, "none")
    c = p.Comparison(x, "<", y)
    for t, e_, cfg in itertools.product([x, p.Product((x, x)), 1, y], [y, 0, p.Product((x, y))], CFGS):
        for v in (x, y, p.Variable("w")):
            yield payload(p.If(c, t, e_), v, True, cfg)
    subs = [a0, a1, p.Subscript(p.Variable("a"), 1.0), p.Subscript(p.Variable("a"), True),
            p.Subscript(p.Variable("a"), x), p.Subscript(p.Variable("b"), 0), p.Variable("a")]
    for s, v in itertools.product(subs, subs):
        yield payload(p.Product((s, s, x)), v, False, "none")
    leaves = [0, 1, -2, True, False, 0.5, None, "abc", x, y, (x,), [x], p.NaN(), p.Lookup(x, "u"),
              p.FloorDiv(x, 2), p.Min((x, y)), p.Comparison(x, "<", y), p.LogicalNot(x),
              p.Derivative(x, ("x",)), p.Slice((x,)), p.Wildcard(), p.FunctionSymbol(),
              p.CommonSubexpression([x]), p.CommonSubexpression(p.Sum((x, (y,)))),
              p.CallWithKwargs(p.Variable("f"), (x,), {"k": 1})]
    for e in leaves:
        for cfg in CFGS:
            yield payload(e, x, True, cfg)
            yield payload(p.Sum((x, e)), x, True, cfg)


class TreeStream(Stream):
    """derivative trees (and error kinds) of the model against the real `differentiate`; the value
    oracle (dual numbers) and the refusal oracle run on the same inputs"""
    name = "trees"

    def cases(self, rng, tier):
        yield from shape_cases()
        n = 2500 if tier == "quick" else 40000
        for i in range(n):
            g = DiffGen(rng, junk=0.03 if i % 3 else 0.0, floats=0.03 if i % 4 == 0 else 0.0)
            e = g.gen(rng.randint(1, 4))
            v, vs = DIFF_VARS[i % len(DIFF_VARS)] if tier == "quick" else rng.choice(DIFF_VARS)
            pl = payload(e, v, vs, CFGS[(i // 2) % 3] if i % 2 else "discontinuous")
            # sharing-heavy mode: equal subtrees are one object (x*x with the same x twice)
            pl["share"] = bool(i % 3 == 0)
            yield pl

    def request(self, pl):
        return f"(diff {pl['cfg']} {pl['var']} {pl['expr']})"

    def _expr(self, pl):
        e = sx_to_expr(loads(pl["expr"]))
        return hashcons(e) if pl.get("share") else e

    def run_impl(self, pl):
        e = self._expr(pl)
        return tree_sx(lambda: run_differentiate(e, the_var(pl), pl["cfg"]))

    def oracle(self, pl):
        e = self._expr(pl)
        return check_derivative(e, sx_to_expr(loads(pl["var"])), the_var(pl), pl["cfg"], pl)

    def shrink(self, pl):
        for s in sx_shrinks(loads(pl["expr"])):
            yield {**pl, "expr": dumps(s)}

    def nontrivial_key(self, pl, model, impl):
        return pl["expr"] + pl["var"] + pl["cfg"]

    def stats(self, pl, mo, io, acc):
        oc = acc.setdefault("outcomes", {})
        k = io if io.startswith("(err") else "tree"
        oc[k] = oc.get(k, 0) + 1
        if mo is not None and "noclaim" in mo:
            acc["model_abstains_float_arith"] = acc.get("model_abstains_float_arith", 0) + 1
        vo = acc.setdefault("value_oracle", {})
        mode = LAST.get("mode", "outside-fragment")
        if mode in ("exact", "float"):
            mode += "-checked" if LAST.get("points", 0) > 0 else "-no-domain-point"
            vo["points"] = vo.get("points", 0) + LAST.get("points", 0)
        vo[mode] = vo.get(mode, 0) + 1


class HistStream(Stream):
    """successive calls on ONE mapper instance: the CSE cache persists between calls"""
    name = "one-mapper-history"

    def cases(self, rng, tier):
        n = 400 if tier == "quick" else 6000
        for i in range(n):
            g = DiffGen(rng, junk=0.02, floats=0.05)
            g.gen(2)
            es = []
            for _ in range(rng.randint(2, 4)):
                e = g.gen(rng.randint(1, 3))
                if g.cses and rng.random() < 0.6:
                    c = rng.choice(g.cses)
                    e = p.Sum((e, c if rng.random() < 0.5 else g.variant(c)))
                es.append(e)
            v, _ = DIFF_VARS[i % len(DIFF_VARS)]
            yield {"exprs": [dumps(expr_to_sx(e)) for e in es], "var": dumps(expr_to_sx(v)),
                   "cfg": CFGS[i % 3] if i % 2 else "discontinuous"}

    def request(self, pl):
        return f"(diffhist {pl['cfg']} {pl['var']} ({' '.join(pl['exprs'])}))"

    def run_impl(self, pl):
        from pymbolic.mapper.differentiator import DifferentiationMapper
        v = sx_to_expr(loads(pl["var"]))
        with warnings.catch_warnings():
            warnings.simplefilter("ignore")
            m = DifferentiationMapper(v, allowed_nonsmoothness=pl["cfg"])
            outs = [tree_sx(lambda s=s: m(sx_to_expr(loads(s)))) for s in pl["exprs"]]
        return "(" + " ".join(outs) + ")"

    def agree(self, model, impl, pl):
        if model == impl:
            return "ok"
        # compare entry-wise; an abstaining entry does not make the others trivial
        mo, io = loads(model), loads(impl)
        if len(mo) != len(io):
            return "diff"
        for m_, i_ in zip(mo, io):
            if m_ != i_ and m_ != [A("noclaim")]:
                return "diff"
        return "trivial"

    def oracle(self, pl):
        # the cache must not change what is computed: every answer of the history is checked
        from pymbolic.mapper.differentiator import DifferentiationMapper
        v = sx_to_expr(loads(pl["var"]))
        with warnings.catch_warnings():
            warnings.simplefilter("ignore")
            m = DifferentiationMapper(v, allowed_nonsmoothness=pl["cfg"])
            for s in pl["exprs"]:
                e = sx_to_expr(loads(s))
                f = check_derivative(e, v, v, pl["cfg"], pl, mapper=m)
                if f is not None:
                    return f
        return None

    def shrink(self, pl):
        ex = pl["exprs"]
        for i in range(len(ex)):
            if len(ex) > 1:
                yield {**pl, "exprs": ex[:i] + ex[i + 1:]}
            for s in sx_shrinks(loads(ex[i])):
                yield {**pl, "exprs": ex[:i] + [dumps(s)] + ex[i + 1:]}

    def nontrivial_key(self, pl, model, impl):
        return " ".join(pl["exprs"]) + pl["var"] + pl["cfg"]


class TableStream(Stream):
    """`map_math_functions_by_name` probed directly: every name of the table (and some that are not
    in it) x argument shapes x the three settings, against the model's `funcMap`"""
    name = "function-table"

    def cases(self, rng, tier):
        names = SMOOTH + ["fabs", "copysign", "atan", "sqrt", "Sin"]
        args = [x, 2, 1, 0, -3, True, False, 0.5, 1.0, p.Product((x, x)), p.Sum(()), p.Quotient(x, y),
                p.Product((0, x)), p.Power(x, y), (x,), None, "abc", mf("sin", x)]
        for name in names:
            for cfg in CFGS:
                yield {"f": dumps(expr_to_sx(p.Lookup(MATH, name))), "pars": [], "cfg": cfg}
                for a in args:
                    yield {"f": dumps(expr_to_sx(p.Lookup(MATH, name))),
                           "pars": [dumps(expr_to_sx(a))], "cfg": cfg}
                for a, b in itertools.product(args[:4], args[:3]):
                    yield {"f": dumps(expr_to_sx(p.Lookup(MATH, name))),
                           "pars": [dumps(expr_to_sx(a)), dumps(expr_to_sx(b))], "cfg": cfg}
        for f in (p.Variable("sin"), p.Lookup(p.Variable("numpy"), "sin"), p.Lookup(x, "sin"), 3,
                  p.Call(p.Lookup(MATH, "sin"), (x,))):
            for cfg in CFGS:
                yield {"f": dumps(expr_to_sx(f)), "pars": [dumps(expr_to_sx(x))], "cfg": cfg}

    def request(self, pl):
        return f"(funcmap {pl['cfg']} {pl['f']} ({' '.join(pl['pars'])}))"

    def run_impl(self, pl):
        from pymbolic.mapper.differentiator import map_math_functions_by_name
        import pymbolic.rational as rat
        f = sx_to_expr(loads(pl["f"]))
        pars = tuple(sx_to_expr(loads(s)) for s in pl["pars"])

        def run():
            r = map_math_functions_by_name(0, f, pars, allowed_nonsmoothness=pl["cfg"])
            if isinstance(r, rat.Rational):
                # the model reports the AttributeError that the product with the parameter's
                # derivative (always the int 0 for an int parameter) raises
                r * 0
            return r
        with warnings.catch_warnings():
            warnings.simplefilter("ignore")
            return tree_sx(run)

    def nontrivial_key(self, pl, model, impl):
        return pl["f"] + " ".join(pl["pars"]) + pl["cfg"]


class GenTableStream(TableStream):
    """the same probes of `map_math_functions_by_name`, answered by the INTERPRETATION OF THE TABLE
    REGENERATED FROM THE SOURCE (`c10FuncMapT Generated.c10DiffTable`, T-gen) instead of the
    hand-written `funcMap`"""
    name = "function-table-generated"

    def request(self, pl):
        return f"(funcmapT {pl['cfg']} {pl['f']} ({' '.join(pl['pars'])}))"


class GenTreeStream(TreeStream):
    """derivative trees of the table-driven differentiator (`c10DiffT Generated.c10DiffTable`: the
    rules as re-read from the source on this run, no CSE cache) against the real `differentiate`,
    on the exhaustive shape enumeration and random trees without `==`-confusable wrappers"""
    name = "generated-table-trees"

    def cases(self, rng, tier):
        yield from shape_cases()
        n = 600 if tier == "quick" else 8000
        for i in range(n):
            g = DiffGen(rng, junk=0.02 if i % 3 else 0.0, floats=0.0)
            g.variant = lambda c: c          # no deliberately ==-confusable wrappers here
            e = g.gen(rng.randint(1, 4))
            v, vs = DIFF_VARS[i % len(DIFF_VARS)]
            yield payload(e, v, vs, CFGS[i % 3])

    def request(self, pl):
        return f"(difftable {pl['cfg']} {pl['var']} {pl['expr']})"

    def agree(self, model, impl, pl):
        v = super().agree(model, impl, pl)
        if v == "diff" and confusable_cses(sx_to_expr(loads(pl["expr"]))):
            return "trivial"         # the real mapper answers the second wrapper from its cache
        return v

    def oracle(self, pl):
        return None                  # the same inputs are judged in the stream `trees`

    def stats(self, pl, mo, io, acc):
        oc = acc.setdefault("outcomes", {})
        k = io if io.startswith("(err") else "tree"
        oc[k] = oc.get(k, 0) + 1


class RuleStream(Stream):
    """`map_quotient` / `map_power` of the REAL mapper run with PRESCRIBED derivatives of the two
    children (a subclass whose `rec` answers `df`, `dg`), against the interpretation of the branch
    chains regenerated from the source (`c10RuleEval Generated.c10DiffTable.quot/.pow`): every
    branch, also with derivative values no input reaches (falsy floats, booleans, nested sums)"""
    name = "two-child-rules"

    def cases(self, rng, tier):
        kids = [x, y, 2, 1, 0, -3, p.Sum((x, 1)), p.Product((2, x)), p.Product((x, y)),
                p.Power(x, 2), mf("sin", x), p.Quotient(x, y), p.CommonSubexpression(x)]
        ders = [0, 1, 2, -1, False, True, x, y, p.Sum((x, y)), p.Product((2, x)), p.Sum(()),
                p.Product(()), mf("cos", x), p.Quotient(1, x), p.Power(x, -1),
                p.CommonSubexpression(0), p.CommonSubexpression(1)]
        for which in ("quot", "pow"):
            for f, g in itertools.product(kids[:7], kids[:7]):
                for df, dg in itertools.product(ders[:9], ders[:9]):
                    yield self.payload(which, f, g, df, dg)
        n = 1500 if tier == "quick" else 30000
        for i in range(n):
            gen = DiffGen(rng, junk=0.0, floats=0.0)
            f = rng.choice(kids) if rng.random() < 0.5 else gen.gen(2)
            g = rng.choice(kids) if rng.random() < 0.5 else gen.gen(2)
            df = rng.choice(ders) if rng.random() < 0.6 else gen.gen(2)
            dg = rng.choice(ders) if rng.random() < 0.6 else gen.gen(2)
            yield self.payload("quot" if i % 2 else "pow", f, g, df, dg)

    @staticmethod
    def payload(which, f, g, df, dg):
        fs, gs = dumps(expr_to_sx(f)), dumps(expr_to_sx(g))
        if fs == gs:
            dg = df               # one child object: `rec` answers the same for both
        return {"which": which, "f": fs, "g": gs, "df": dumps(expr_to_sx(df)),
                "dg": dumps(expr_to_sx(dg))}

    def request(self, pl):
        return f"(diffrule {pl['which']} {pl['f']} {pl['g']} {pl['df']} {pl['dg']})"

    def run_impl(self, pl):
        from pymbolic.mapper.differentiator import DifferentiationMapper
        f, g, df, dg = (sx_to_expr(loads(pl[k])) for k in ("f", "g", "df", "dg"))
        calls = []

        class Prescribed(DifferentiationMapper):
            def rec(self, expr, *args):
                calls.append(expr)
                if len(calls) == 1:
                    return df
                if len(calls) == 2:
                    return dg
                return df if expr is f else dg

        m = Prescribed(x)
        if pl["which"] == "quot":
            node, fn = p.Quotient(f, g), m.map_quotient
        else:
            node, fn = p.Power(f, g), m.map_power
        with warnings.catch_warnings():
            warnings.simplefilter("ignore")
            return tree_sx(lambda: fn(node))

    def shrink(self, pl):
        for k in ("f", "g", "df", "dg"):
            for s_ in sx_shrinks(loads(pl[k])):
                yield {**pl, k: dumps(s_)}

    def nontrivial_key(self, pl, model, impl):
        return json_key(pl)


class TemporariesStream(Stream):
    """ONE long-lived DifferentiationMapper fed a family of 20..60 TEMPORARIES: structurally
    identical expressions with CommonSubexpression nodes (same shapes and node sizes, different
    constants), each built inside the call that passes it to the mapper and dead when the call
    returns (`harness/temporaries.py`), with `gc.collect()` between some steps.  Every returned
    derivative is judged at once: dual-number value oracle against a rebuilt copy of the member,
    and tree comparison with the answer of a FRESH mapper on that copy.  Targets state that
    outlives its input: caches keyed by object identity / address, weak or stale entries (a new
    node allocated where a dead one was gets the dead one's derivative).  A failure is reported
    only when the long-lived mapper's answer has a WRONG VALUE (or a different outcome) where the
    fresh mapper's is right."""
    name = "temporaries"
    has_model = False

    def cases(self, rng, tier):
        from .. import temporaries as T
        n = 10 if tier == "quick" else 120
        for i in range(n):
            v, _ = [(x, True), (y, True), (a0, False), (x, True)][i % 4]
            vsx = expr_to_sx(v)
            others = [expr_to_sx(t) for t in (x, y, a1) if t != v]
            ops = ["sum", "sum", "prod", "prod", "quot", "pow", "cse", "cse"]
            if i % 3 == 2:
                ops += ["fn", "fn"]
            g = T.TemplateGen(rng, ops, fixed_vars=[vsx, vsx, *others], carrier_var=vsx)
            g.FNS = ["sin", "cos"]                  # defined (and tame in floats) everywhere
            n_members = rng.randint(20, 60)
            exprs = T.family(rng, g, rng.randint(2, 3), n_members, repeat=0.05 if i % 2 else 0.0)
            k = rng.random()
            if k < 0.3:
                gc_at = []
            elif k < 0.5:
                gc_at = list(range(n_members))
            else:
                gc_at = sorted(rng.sample(range(n_members), max(1, n_members // 4)))
            yield {"exprs": exprs, "var": dumps(vsx), "cfg": CFGS[(i + i // 3) % 3], "gc": gc_at,
                   "hold": bool(i % 2), "share": bool(i % 5 == 3)}

    def run_impl(self, pl):
        return "(oracle-only)"

    def oracle(self, pl):
        from pymbolic.mapper.differentiator import DifferentiationMapper
        from .. import temporaries as T
        v = sx_to_expr(loads(pl["var"]))
        wrt = dual.leaf_key(v)
        cfg, share = pl["cfg"], pl.get("share", False)
        acc = self.last = {"members": 0, "judged_by_value": 0, "points": 0, "tree_differs": 0}

        def fresh_mapper():
            return DifferentiationMapper(v, allowed_nonsmoothness=cfg)

        def judge(i, sx_text, out):
            acc["members"] += 1
            where = f"member #{i} of {len(pl['exprs'])} on one DifferentiationMapper"
            cut = pl        # the whole family is the input: see `shrink`
            e2 = T.build(sx_text, share)           # a rebuilt copy, alive while judging only
            if dual.refusal_reasons(e2, cfg) != set():
                return None                         # not a smooth member of the fragment
            ref = T.feed(fresh_mapper(), sx_text, share=share)
            if out[0] == "err" or ref[0] == "err":
                if out[0] == ref[0] and out[1] == ref[1]:
                    return None                     # single-call behaviour: stream `trees`
                if out[0] == "err" and ref[0] == "ok":
                    return Failure(f"temporary-raises-{out[1]}",
                                   f"{where}: {show(e2)} raises {out[1]}; a fresh mapper "
                                   f"differentiates it to {show(ref[1])}", cut)
                if not has_domain(e2, wrt, random.Random(1)):
                    return None
                return Failure(f"temporary-not-refused-{ref[1]}",
                               f"{where}: {show(e2)} answered although a fresh mapper raises "
                               f"{ref[1]}", cut)
            d = out[1] if pl.get("hold", True) else sx_to_expr(loads(out[1]))
            t_long, t_fresh = T.tree(d), T.tree(ref[1])
            differs = t_long != t_fresh
            acc["tree_differs"] += differs
            rng = random.Random(hash_str(sx_text + cfg))
            msg = value_mismatch(e2, d, wrt, rng, tries=16 if differs else 8,
                                 want=6 if differs else 3)
            acc["judged_by_value"] += LAST.get("points", 0) > 0
            acc["points"] += LAST.get("points", 0)
            if msg is None:
                return None
            if not differs or value_mismatch(e2, ref[1], wrt, random.Random(2), tries=16,
                                             want=6) is not None:
                # the fresh mapper is wrong too: not a matter of temporaries; classified as in `trees`
                f = check_derivative(e2, v, v, cfg, cut)
                return f
            site, part, _ = T.first_difference(t_long, t_fresh)
            # whose answer is it?  (an earlier member's, if the state outlived that member)
            src = next((j for j in range(i) if pl["exprs"][j] != sx_text and part in
                        T.feed(fresh_mapper(), pl["exprs"][j], share=share, post=T.tree)[1]), None)
            whose = "" if src is None else \
                f" (that part is what a fresh mapper answers for member #{src}, dropped earlier)"
            return Failure(f"temporary-wrong-derivative-{site}",
                           f"{where} (the earlier members were dropped before it was built): "
                           f"d/d{show(v)} of {show(e2)}: {msg}; the mapper returned {show(d)} where "
                           f"a fresh mapper returns {show(ref[1])}: differing part "
                           f"{show(sx_to_expr(loads(part)))}{whose}", cut)

        with warnings.catch_warnings():
            warnings.simplefilter("ignore")
            m = fresh_mapper()
            return T.run_family(m, pl["exprs"], judge, collect_at=pl["gc"],
                                hold=pl.get("hold", True), share=share)

    def shrink(self, pl):
        # Which member lands on a recycled address is up to the allocator (about one member in
        # ten does): a family cut down to the few members that showed the failure in THIS process
        # would not show it again in a new one.  The family stays whole (a replay then fails as
        # reliably as the run did); only the knobs are simplified.
        if pl.get("share"):
            yield {**pl, "share": False}
        if pl["gc"]:
            yield {**pl, "gc": []}
        if not pl.get("hold", True):
            yield {**pl, "hold": True}

    def nontrivial_key(self, pl, model, impl):
        return json_key(pl)

    def stats(self, pl, mo, io, acc):
        acc["families"] = acc.get("families", 0) + 1
        for k, n in getattr(self, "last", {}).items():
            acc[k] = acc.get(k, 0) + int(n)


# {{{ every rule applied to every kind of operand (two-level compositions)

INNER2 = ("sum", "prod", "quot", "pow")
INNER1 = ("fn", "cse")
OUTER2 = ("quot", "pow", "prod", "sum")


def operand_options():
    """(kind, dependence pattern): one letter per leaf of the operand, `d` = the leaf depends on the
    differentiation variable, `i` = it does not"""
    opts = [("leaf", "d"), ("leaf", "i")]
    opts += [(k, a + b) for k in INNER2 for a in "di" for b in "di"]
    opts += [(k, a) for k in INNER1 for a in "di"]
    return opts


def build_node(rng, kind, kids):
    if kind == "leaf":
        return kids[0]
    if kind == "sum":
        return p.Sum(tuple(kids))
    if kind == "prod":
        return p.Product(tuple(kids))
    if kind == "quot":
        return p.Quotient(kids[0], kids[1])
    if kind == "pow":
        return p.Power(kids[0], kids[1])
    if kind == "fn":
        return mf(rng.choice(SMOOTH), kids[0])
    if kind == "cse":
        return p.CommonSubexpression(kids[0], rng.choice([None, "cs"]))
    raise AssertionError(kind)


class Composer:
    """operands with a PRESCRIBED dependence on the differentiation variable `v`"""

    def __init__(self, rng, v, others, rich=False):
        self.rng, self.v, self.others, self.rich = rng, v, others, rich

    def dep(self):
        r, v = self.rng, self.v
        o = r.choice(self.others)
        pool = [v, v, v, v, p.Sum((v, 1)), p.Product((2, v)), p.Sum((v, o)), p.Product((v, o))]
        if self.rich:
            pool += [p.Power(v, 2), p.Quotient(v, o), mf("exp", v), p.CommonSubexpression(v)]
        return r.choice(pool)

    def indep(self):
        r = self.rng
        o, o2 = r.choice(self.others), r.choice(self.others)
        pool = [o, o, o, 2, 3, 2, p.Sum((o, 1))]
        if self.rich:
            pool += [1, 0, -2, p.Product((o, o2)), p.Power(o, 2), mf("cos", o), p.CommonSubexpression(o)]
        return r.choice(pool)

    def leaf(self, c):
        return self.dep() if c == "d" else self.indep()

    def operand(self, opt, depth=0):
        kind, pat = opt
        kids = []
        for c in pat:
            if depth > 0 and self.rng.random() < 0.5:
                # a deeper operand with the same dependence: some leaf of it carries the letter
                sub = self.rng.choice([o_ for o_ in operand_options()
                                       if o_[0] != "leaf" and (c == "d") == ("d" in o_[1])])
                kids.append(self.operand(sub, depth - 1))
            else:
                kids.append(self.leaf(c))
        return build_node(self.rng, kind, kids)


class ComposedStream(TreeStream):
    """EVERY two-child rule (quotient, power, product, sum) applied to EVERY kind of operand in each
    position (leaf, sum, product, quotient, power, function call, common subexpression), each leaf
    of each operand once depending on the differentiation variable and once not: 22 x 22 operand
    pairs per rule, exhaustively; the one-child rules and `If` over the 22 operands.  Targets
    rules that special-case the SHAPE of an operand (a power in the denominator, a product under a
    power, a quotient of quotients ...) and are right only for some dependence patterns of that
    operand's leaves.  Judged by the dual-number value oracle (and compared with the model)."""
    name = "composed-rules"

    VARS = [(x, [y, z]), (a0, [x, a1]), (y, [x, a0]), (x, [y, a0])]

    def cases(self, rng, tier):
        opts = operand_options()
        passes = 1 if tier == "quick" else 6
        i = 0
        for ps in range(passes):
            for outer in OUTER2:
                for oa, ob in itertools.product(opts, opts):
                    if tier == "quick" and outer == "sum" and (oa[0] == "leaf" or ob[0] == "leaf"
                                                               or rng.random() < 0.75):
                        continue          # the sum rule is linear: a sample is enough here
                    v, others = self.VARS[i % len(self.VARS)]
                    c = Composer(rng, v, others, rich=ps > 0)
                    e = build_node(rng, outer, [c.operand(oa), c.operand(ob)])
                    yield self.mk(e, v, "none", i)
                    i += 1
            for outer in INNER1:
                for oa in opts:
                    v, others = self.VARS[i % len(self.VARS)]
                    c = Composer(rng, v, others, rich=ps > 0)
                    yield self.mk(build_node(rng, outer, [c.operand(oa)]), v, "none", i)
                    i += 1
            for oa in opts:
                for ob in rng.sample(opts, 3):
                    v, others = self.VARS[i % len(self.VARS)]
                    c = Composer(rng, v, others, rich=ps > 0)
                    cond = p.Comparison(c.leaf(rng.choice("di")), rng.choice(["<", ">", "<=", ">="]),
                                        c.leaf(rng.choice("di")))
                    yield self.mk(p.If(cond, c.operand(oa), c.operand(ob)), v,
                                  "discontinuous" if i % 4 else rng.choice(CFGS), i)
                    i += 1
        # three levels: operands of operands, same prescription of the dependence
        n = 300 if tier == "quick" else 12000
        for _ in range(n):
            v, others = self.VARS[i % len(self.VARS)]
            c = Composer(rng, v, others, rich=bool(i % 2))
            outer = rng.choice(OUTER2[:3])
            e = build_node(rng, outer, [c.operand(rng.choice(opts), 1), c.operand(rng.choice(opts), 1)])
            yield self.mk(e, v, "none", i)
            i += 1

    @staticmethod
    def mk(e, v, cfg, i):
        pl = payload(e, v, isinstance(v, p.Variable) and i % 2 == 0, cfg)
        pl["share"] = bool(i % 3 == 0)
        return pl

# }}}

# {{{ histories of calls of the ENTRY POINT, each judged on its own

def call_text(c):
    e, v = sx_to_expr(loads(c["expr"])), sx_to_expr(loads(c["var"]))
    va = repr(v.name) if c.get("varstr") and isinstance(v, p.Variable) else show(v)
    if c.get("via") == "mapper":
        return f"DifferentiationMapper({show(v)}, allowed_nonsmoothness={c['cfg']!r})({show(e)})"
    return f"differentiate({show(e)}, {va}, allowed_nonsmoothness={c['cfg']!r})"


def judge_history(pl):
    """The calls of `pl` made one after the other IN THIS PROCESS, each judged the moment it returns
    by the single-call oracle (`check_derivative`: refusal demanded by the property's words for
    THIS call's setting, dual-number value otherwise).  Run in a pristine process by the stream."""
    from pymbolic.mapper.differentiator import DifferentiationMapper
    memo = {} if pl.get("share") else None
    res = {"failure": None, "refused": 0, "answered": 0}
    for i, c in enumerate(pl["calls"]):
        e = sx_to_expr(loads(c["expr"]))
        if memo is not None:
            e = hashcons(e, memo)       # one object per distinct subtree for the WHOLE history
        v = sx_to_expr(loads(c["var"]))
        mapper = None
        if c.get("via") == "mapper":
            with warnings.catch_warnings():
                warnings.simplefilter("ignore")
                mapper = DifferentiationMapper(v, allowed_nonsmoothness=c["cfg"])
        f = check_derivative(e, v, the_var(c), c["cfg"], None, mapper=mapper)
        if f is not None:
            res["failure"] = {"call": i, "key": f.key, "detail": f.detail}
            return res
        res["refused" if LAST.get("mode") == "refused" else "answered"] += 1
    return res


class CallHistoryStream(Stream):
    """HISTORIES of 2..6 calls of the entry point `differentiate()` (some through a fresh
    `DifferentiationMapper`) in ONE process: the calls share common subexpressions (equal nodes, or
    the very same objects) that wrap non-smooth constructs (fabs, sign, copysign, If) or smooth
    ones, and differ in the expression around them, the differentiation variable and the
    non-smoothness setting, in every order (permissive before strict and the reverse).  The
    property speaks about each call on its own: whatever was asked before, THIS call must refuse
    what its own setting does not allow and otherwise return the derivative w.r.t. its own
    variable.  Each history runs in a pristine process (`harness/isolate.py`), so a failure is a
    function of the recorded history alone; a failing call is then re-run ALONE in another pristine
    process: if it fails there with the same key the key is the single-call one (as in `trees`),
    otherwise it is `after-earlier-calls-<key>`."""
    name = "entry-point-history"
    has_model = False

    def __init__(self):
        from ..isolate import Pristine
        self.iso = Pristine(["harness.props.c10", "pymbolic.mapper.differentiator"])
        self.isolation = "pristine-process"
        self.last = {}

    # ---- generation
    @staticmethod
    def shared(rng, g, vars_, pool):
        """a common subexpression the calls of a history will share"""
        def arg():
            k = rng.random()
            t = rng.choice(vars_) if k < 0.5 else g.gen(1) if k < 0.8 else \
                p.Sum((rng.choice(vars_), rng.choice([1, 2, y, z])))
            if pool and rng.random() < 0.2:
                t = p.Product((t, rng.choice(pool)))      # nested sharing
            return t
        k = rng.random()
        if k < 0.25:
            child = mf("fabs", arg())
        elif k < 0.4:
            child = mf("copysign", 1, arg())
        elif k < 0.5:
            child = mf("copysign", arg(), arg())
        elif k < 0.7:
            child = p.If(p.Comparison(arg(), rng.choice(["<", ">", "<=", ">="]), rng.choice([0, 1, y])),
                         g.gen(1), g.gen(1))
        elif k < 0.8:
            child = p.Sum((g.gen(1), mf(rng.choice(["fabs", "fabs", "sin"]), arg())))
        else:
            child = g.gen(2)
        return p.CommonSubexpression(child, rng.choice([None, "cs", "u"]),
                                     rng.choice([p.cse_scope.EVALUATION, p.cse_scope.EXPRESSION]))

    @staticmethod
    def around(rng, g, parts):
        k = rng.random()
        if len(parts) == 1 and k < 0.25:
            return parts[0]
        if k < 0.5:
            return p.Sum(tuple(parts))
        if k < 0.75:
            return p.Product(tuple(parts))
        if k < 0.85 and len(parts) >= 2:
            return p.Quotient(p.Sum(tuple(parts[:-1])), parts[-1])
        if k < 0.93:
            return p.Power(p.Sum(tuple(parts)), rng.choice([2, 3, -1]))
        return mf(rng.choice(["sin", "exp", "tanh"]), p.Sum(tuple(parts)))

    def cases(self, rng, tier):
        n = 120 if tier == "quick" else 2500
        for i in range(n):
            g = DiffGen(rng, junk=0.0, floats=0.0)
            vars_ = rng.sample([x, y, a0], rng.choice([1, 2, 2]))
            pool = []
            for _ in range(rng.randint(1, 3)):
                pool.append(self.shared(rng, g, vars_, pool))
            calls = []
            for _ in range(rng.randint(2, 6)):
                parts = [rng.choice(pool) for _ in range(rng.randint(1, 2))]
                parts += [g.gen(rng.randint(0, 2)) for _ in range(rng.randint(0, 2))]
                rng.shuffle(parts)
                v = rng.choice(vars_)
                calls.append({"expr": dumps(expr_to_sx(self.around(rng, g, parts))),
                              "var": dumps(expr_to_sx(v)),
                              "varstr": isinstance(v, p.Variable) and rng.random() < 0.5,
                              "cfg": rng.choice(CFGS),
                              "via": "mapper" if rng.random() < 0.2 else "function"})
            yield {"calls": calls, "share": bool(i % 2)}

    def run_impl(self, pl):
        return "(oracle-only)"

    # ---- judgement
    def judge(self, pl):
        if self.isolation == "pristine-process":
            try:
                return self.iso.call("harness.props.c10:judge_history", pl)
            except (RuntimeError, OSError, ValueError):
                # no helper process on this machine: the history is judged in this process (a
                # finding may then also depend on what this process ran before)
                self.isolation = "in-process"
        return judge_history(pl)

    def oracle(self, pl):
        res = self.judge(pl)
        self.last = res
        fl = res["failure"]
        if fl is None:
            return None
        i, calls = fl["call"], pl["calls"]
        alone = self.judge({**pl, "calls": [calls[i]]})["failure"] if i > 0 else fl
        if alone is not None and alone["key"] == fl["key"]:
            return Failure(fl["key"], f"{call_text(calls[i])}: {fl['detail']}", pl)
        before = "; ".join(call_text(c) for c in calls[:i])
        then = "holds" if alone is None else f"fails differently ({alone['key']})"
        return Failure("after-earlier-calls-" + fl["key"],
                       f"call #{i + 1} of one process: {call_text(calls[i])}: {fl['detail']} -- the same "
                       f"call made first in a new process {then}; the calls before it: {before}", pl)

    def shrink(self, pl):
        cs = pl["calls"]
        for i in range(len(cs)):
            if len(cs) > 1:
                yield {**pl, "calls": cs[:i] + cs[i + 1:]}
        if pl.get("share"):
            yield {**pl, "share": False}
        for i in range(len(cs)):
            if cs[i].get("via") == "mapper":
                yield {**pl, "calls": cs[:i] + [{**cs[i], "via": "function"}] + cs[i + 1:]}
            for s_ in sx_shrinks(loads(cs[i]["expr"])):
                yield {**pl, "calls": cs[:i] + [{**cs[i], "expr": dumps(s_)}] + cs[i + 1:]}

    def nontrivial_key(self, pl, model, impl):
        return json_key(pl)

    def stats(self, pl, mo, io, acc):
        acc["histories"] = acc.get("histories", 0) + 1
        acc["calls"] = acc.get("calls", 0) + len(pl["calls"])
        for k in ("refused", "answered"):
            acc[k] = acc.get(k, 0) + int(self.last.get(k, 0))
        acc["isolation"] = self.isolation

# }}}


def confusable_cses(e):
    """two CommonSubexpression nodes that are `==` but not the same tree (1 / True / 1.0)"""
    cs = [t for t in dual.subterms(e) if isinstance(t, p.CommonSubexpression)]
    for i, a in enumerate(cs):
        for b in cs[i + 1:]:
            try:
                if a == b and dumps(expr_to_sx(a)) != dumps(expr_to_sx(b)):
                    return True
            except Exception:
                return True
    return False


def json_key(pl):
    import json
    return json.dumps(pl, sort_keys=True)


# }}}

# {{{ the property's own oracle

LAST = {}

def show(t):
    try:
        return str(t)
    except Exception:
        try:
            return dumps(expr_to_sx(t))
        except Exception:
            return repr(t)


def kind_of(t):
    if isinstance(t, p.Call):
        n = dual.math_name(t.function)
        return "Call:" + (n if n is not None else "?")
    return type(t).__name__


def sample_env(rng, keys, positive):
    env = {}
    for k in keys:
        q = Fraction(rng.randint(1, 9), rng.choice([1, 2, 2, 3, 4]))
        if not positive and rng.random() < 0.4:
            q = -q
        env[k] = q
    return env


def leaves_of(e):
    return sorted({k for k in (dual.leaf_key(s) for s in dual.subterms(e)) if k is not None})


def value_mismatch(e, d, wrt, rng, tries=10, want=3):
    """None if `d` evaluates to the partial derivative of `e` w.r.t. the leaf `wrt` at `want`
    points of the domain (or no point of the domain was found); else a description."""
    exact = dual.is_algebraic(e) and not dual.has_float(d)
    N = dual.ExactNum if exact else dual.FloatNum
    LAST["mode"] = N.name
    LAST["points"] = 0
    keys = sorted(set(leaves_of(e)) | {wrt})
    good = 0
    for t in range(tries):
        env = sample_env(rng, keys, positive=(t % 2 == 0))
        try:
            ref = dual.dual(e, env, wrt, N)
            got = dual.dual(d, env, None, N, allow_bare_log=True)
        except (dual.OutOfDomain, ZeroDivisionError, OverflowError):
            continue
        except dual.NotInFragment:
            return None
        good += 1
        LAST["points"] = good
        if not dual.close(ref.d, got.v):
            r = ref.d if exact else ref.d.v
            g = got.v if exact else got.v.v
            return f"at {dict((str(k), str(v)) for k, v in env.items())}: derivative {r}, differentiated tree gives {g} ({N.name})"
        if good >= want:
            break
    # integer grid INCLUDING zeros: points where a base vanishes / an exponent is a small positive
    # integer are in the domain (the reference differentiates a ** k as a k-fold product there);
    # the differentiated tree must be evaluable at every point of the domain
    if any(isinstance(s, p.Power) and not isinstance(s.exponent, (int, float))
           for s in dual.subterms(e)):
        for t in range(8):
            env = {k: Fraction(rng.choice([0, 0, 1, 2, 3, -1, -2])) for k in keys}
            try:
                ref = dual.dual(e, env, wrt, N)
            except (dual.OutOfDomain, ZeroDivisionError, OverflowError):
                continue
            except dual.NotInFragment:
                return None
            # the tree is evaluated with plain Python numbers (exact ints at these points) by the
            # reference interpreter of C02, not by interval arithmetic
            import math as _math

            from ..oracles.pyeval import pyeval
            penv = {"math": _math, "log": _math.log}
            for key, val in env.items():
                iv = int(val)
                if key[0] == "var":
                    penv[key[1]] = iv
                else:
                    penv.setdefault(key[1], {})[key[2]] = iv
            r = ref.d if exact else ref.d.v
            try:
                gv = pyeval(d, penv)
            except (ZeroDivisionError, ValueError):
                return (f"at {dict((str(k), str(v)) for k, v in env.items())}: the function is "
                        f"differentiable (derivative {r}) but the differentiated tree cannot be "
                        f"evaluated there")
            except Exception:
                continue
            # float mode: the reference's running rounding bound measures how ill-conditioned the
            # point is (a derivative that is 0 by cancellation of terms of size 1e12 is not 0 in
            # floats, for either formula); exact mode: no slack beyond the relative 1e-9
            slack = 0.0 if exact else 64 * ref.d.e
            try:
                ok = abs(complex(gv) - complex(r)) <= 1e-9 * max(1.0, abs(complex(r))) + slack
            except Exception:
                continue
            if not ok:
                return f"at {dict((str(k), str(v)) for k, v in env.items())}: derivative {r}, differentiated tree gives {gv}"
    return None


def check_derivative(e, v_expr, v_arg, cfg, pl, mapper=None):
    LAST.clear()
    wrt = dual.leaf_key(v_expr)
    if wrt is None:
        return None
    reasons = dual.refusal_reasons(e, cfg)
    if reasons is None:
        return None                 # outside the fragment of the property
    rng = random.Random(hash_str(dumps(expr_to_sx(e)) + cfg))

    def run(t):
        if mapper is not None:
            return mapper(t)
        return run_differentiate(t, v_arg, cfg)

    try:
        d = run(e)
    except RecursionError:
        raise
    except Exception as ex:
        if reasons:
            LAST["mode"] = "refused"
            return None             # refused, as the property demands
        # a smooth expression was refused: legitimate only when it has no domain at all
        if not has_domain(e, wrt, rng):
            return None
        t = smallest(e, lambda s: raises_same(run, s, type(ex)))
        if not has_domain(t, wrt, rng):
            return None             # the refused subterm is defined nowhere (x/0, log(0), …)
        key = f"raises-{type(ex).__name__}-{kind_of(t)}"
        if kind_of(t) == "Call:log" and len(t.parameters) == 1 and isinstance(t.parameters[0], int):
            key = "log-integer-constant"
        return Failure(key,
                       f"differentiable expression {show(t)} refused with {type(ex).__name__}: {ex}", pl)
    if reasons:
        return Failure("not-refused-" + "-".join(sorted(reasons)),
                       f"{show(e)} differentiated to {show(d)} although allowed_nonsmoothness={cfg}", pl)
    msg = value_mismatch(e, d, wrt, rng)
    if msg is not None:
        def bad(s):
            if dual.refusal_reasons(s, cfg) != set():
                return False
            try:
                return value_mismatch(s, run(s), wrt, random.Random(1), tries=16, want=6) is not None
            except RecursionError:
                raise
            except Exception:
                return False
        t = smallest(e, bad)
        key = "wrong-derivative-" + kind_of(t)
        if key == "wrong-derivative-Call:copysign":
            key = "copysign-first-argument"
        # is a (truthy) wrapper around a vanishing derivative the whole cause?  The SAME tree with
        # those wrappers folded to the 0 they stand for must then be right.
        try:
            dt = run(t)
            kinds = zero_wrapper_kinds(dt)
            if kinds and value_mismatch(t, strip_zero_wrappers(dt), wrt, random.Random(1),
                                        tries=16, want=6) is None:
                key = "vanishing-derivative-wrapped-" + "+".join(kinds)
                msg += (f"; the differentiated tree {show(dt)} keeps a truthy wrapper "
                        f"({', '.join(kinds)}) around a vanishing derivative, so the rule did "
                        f"not drop the term")
        except RecursionError:
            raise
        except Exception:
            pass
        return Failure(key, f"d/d{show(v_expr)} of {show(t)}: {msg}", pl)
    # the derivative is right, but can it be evaluated where the input can?
    if uses_bare_log(d) and not uses_bare_log(e):
        return Failure("power-rule-unqualified-log",
                       f"derivative {show(d)} of {show(e)} calls the free variable `log` (not math.log)", pl)
    return None


def _const_zero(t):
    return type(t) in (int, bool, float, complex) and t == 0


def _vanishing(t):
    """0 / False / 0.0, or a wrapper (CommonSubexpression, If with both branches) around such"""
    if _const_zero(t):
        return True
    if isinstance(t, p.CommonSubexpression):
        return _vanishing(t.child)
    if isinstance(t, p.If):
        return _vanishing(t.then) and _vanishing(t.else_)
    return False


def zero_wrapper_kinds(d):
    """sorted class names of the INNERMOST truthy wrappers around literal zeros in the tree `d`:
    `CommonSubexpression(0)`, `If(c, 0, 0)` (a wrapper around a wrapper is the inner one's doing)"""
    kinds = set()

    def innermost(t):
        if isinstance(t, p.CommonSubexpression):
            if _const_zero(t.child):
                kinds.add("CommonSubexpression")
            else:
                innermost(t.child)
        elif isinstance(t, p.If):
            if _const_zero(t.then) and _const_zero(t.else_):
                kinds.add("If")
            for b in (t.then, t.else_):
                if not _const_zero(b):
                    innermost(b)

    seen = []
    for t in reversed(dual.subterms(d)):          # outermost first
        if isinstance(t, (p.CommonSubexpression, p.If)) and _vanishing(t) \
                and not any(t is s_ for s_ in seen):
            innermost(t)
            seen.extend(dual.subterms(t))
    return sorted(kinds)


def strip_zero_wrappers(d):
    """`d` with every wrapper around vanishing derivatives replaced by the 0 it stands for, and the
    sums / products / quotients above it folded the way the rules fold a literal 0 (a product with
    a factor 0 is 0, a sum drops it, 0/g is 0).  Nothing else is simplified."""
    def go(t):
        if not isinstance(t, p.Expression):
            return t
        if _vanishing(t):
            return 0
        if isinstance(t, p.Sum):
            cs = [c for c in map(go, t.children) if not _const_zero(c)]
            return 0 if not cs else cs[0] if len(cs) == 1 else p.Sum(tuple(cs))
        if isinstance(t, p.Product):
            cs = [go(c) for c in t.children]
            return 0 if any(_const_zero(c) for c in cs) else p.Product(tuple(cs))
        if isinstance(t, p.Quotient):
            n, dn = go(t.numerator), go(t.denominator)
            return 0 if _const_zero(n) else p.Quotient(n, dn)
        if isinstance(t, p.Power):
            return p.Power(go(t.base), go(t.exponent))
        if isinstance(t, p.Call):
            return p.Call(t.function, tuple(go(a) for a in t.parameters))
        if isinstance(t, p.CommonSubexpression):
            return p.CommonSubexpression(go(t.child), t.prefix, t.scope)
        if isinstance(t, p.If):
            return p.If(t.condition, go(t.then), go(t.else_))
        return t
    return go(d)


def hash_str(s):
    h = 0
    for ch in s:
        h = (h * 131 + ord(ch)) % (2 ** 61 - 1)
    return h


def uses_bare_log(t):
    return any(isinstance(s, p.Call) and isinstance(s.function, p.Variable)
               and s.function.name == "log" for s in dual.subterms(t))


def has_domain(e, wrt, rng):
    N = dual.ExactNum if dual.is_algebraic(e) else dual.FloatNum
    keys = sorted(set(leaves_of(e)) | {wrt})
    for t in range(12):
        try:
            dual.dual(e, sample_env(rng, keys, positive=(t % 2 == 0)), wrt, N)
            return True
        except (dual.OutOfDomain, ZeroDivisionError, OverflowError):
            continue
        except dual.NotInFragment:
            return False
    return False


def raises_same(run, s, cls):
    try:
        run(s)
    except RecursionError:
        raise
    except Exception as ex:
        return type(ex) is cls
    return False


def smallest(e, pred):
    """a smallest subterm satisfying `pred` (falls back to `e`)"""
    best = e
    from ..gen import size
    bs = size(e)
    for s in dual.subterms(e):
        if s is e:
            continue
        sz = size(s)
        if sz < bs and pred(s):
            best, bs = s, sz
    return best

# }}}


def probes():
    """Known findings of C10 replayed on the real code."""
    res = []
    cs = mf("copysign", x, 1)
    try:
        d = run_differentiate(cs, "x", "discontinuous")
        res.append(("copysign-first-argument", d == 0,
                    f"d/dx copysign(x, 1) with allowed_nonsmoothness='discontinuous' -> {d!r}; it is 1 for x > 0"))
    except Exception as ex:
        res.append(("copysign-first-argument", False, f"raises {type(ex).__name__}"))
    try:
        d = run_differentiate(mf("log", 2), "x", "none")
        res.append(("log-integer-constant", False, f"d/dx log(2) -> {d!r}"))
    except Exception as ex:
        res.append(("log-integer-constant", True,
                    f"d/dx log(2) raises {type(ex).__name__}: {ex}"))
    try:
        d = run_differentiate(p.Power(x, y), "y", "none")
        res.append(("power-rule-unqualified-log", uses_bare_log(d), f"d/dy x**y -> {d!r}"))
    except Exception as ex:
        res.append(("power-rule-unqualified-log", False, f"raises {type(ex).__name__}"))
    # repaired (status "fixed": a VIOLATION if it returns): the CSE handler wrapped a vanishing
    # child derivative, `CSE(0)` is truthy, so the power rule kept its log(f) term
    cy = p.CommonSubexpression(y)
    for v, what in (("x", "the plain power rule CSE(y)*x**(CSE(y) + -1)"), (a1, "0")):
        key = "vanishing-derivative-wrapped-CommonSubexpression"
        try:
            d = run_differentiate(p.Power(x, cy), v, "none")
        except Exception as ex:
            res.append((key, True, f"d/d{v} x**CSE(y) raises {type(ex).__name__}: {ex}"))
            continue
        bad = uses_bare_log(d) or "CommonSubexpression" in zero_wrapper_kinds(d)
        if not bad and v == "x":
            # ... and the tree can be evaluated at x <= 0 for an integer y >= 1
            from ..oracles.pyeval import pyeval
            try:
                bad = pyeval(d, {"x": -2, "y": 3}) != 12 or pyeval(d, {"x": 0, "y": 1}) != 1
            except Exception:
                bad = True
        if not bad and v is a1:
            bad = not _const_zero(d)
        res.append((key, bad, f"d/d{v} x**CSE(y) -> {show(d)}; expected {what} (no log(x) term: "
                              f"the exponent does not depend on {v})"))
    # known: `map_if` keeps `If(c, 0, 0)` around vanishing branch derivatives (truthy as well)
    cond = p.Comparison(y, "<", 1)
    try:
        d = run_differentiate(p.Power(x, p.If(cond, 2, 3)), "x", "discontinuous")
        res.append(("vanishing-derivative-wrapped-If",
                    uses_bare_log(d) and zero_wrapper_kinds(d) == ["If"],
                    f"d/dx x**If(y < 1, 2, 3) -> {show(d)}"))
    except Exception as ex:
        res.append(("vanishing-derivative-wrapped-If", False, f"raises {type(ex).__name__}"))
    return res


def extract(ctx=None):
    """T-gen: lean/PV/Generated/Diff.lean from the source of pymbolic/mapper/differentiator.py"""
    from extract.differentiator import extract_diff_table
    return extract_diff_table(ctx)


PROP = Prop(
    id="C10",
    title="Symbolic differentiation yields the true derivative",
    lean_targets=["PV.Properties.C10"],
    theorems=[],
    extractors=[extract],
    streams=[TreeStream(), HistStream(), TableStream(), GenTableStream(), GenTreeStream(),
             RuleStream(), TemporariesStream(), ComposedStream(), CallHistoryStream()],
    probes=[probes],
    trusted_base=[
        "Lean 4.33 kernel; axioms propext, Classical.choice, Quot.sound only",
        "Mathlib's real analysis (HasDerivAt, Real.sin/cos/tan/exp/log/sinh/cosh/tanh, Real.rpow)",
        "the model of the overloaded operators (C03) and of Python == (C01)",
        "extract/differentiator.py: reads map_math_functions_by_name, every DifferentiationMapper "
        "handler and differentiate() from the source with ast (an unrecognised shape is an "
        "extraction error, never a default); the meaning given to the table's terms "
        "(PV/Model/DiffTable.lean: c10TmEval) is validated by the correspondence streams "
        "function-table-generated, generated-table-trees and two-child-rules",
        "harness serialisation",
    ],
    assumptions=["the meaning of math.<f> is the real function f; floating-point evaluation of the "
                 "derivative tree is not modelled (the search oracle compares floats with relative "
                 "tolerance 1e-6 plus running rounding-error bounds)"],
    level_text="Lean theorem diff_hasDerivAt (unbounded: all expressions, variables and subscripted variables, all three settings): whenever the modelled differentiator returns a tree d for e, and the point lies in the domain of e (denominators nonzero, log arguments and bases of non-integer powers positive, cos nonzero under tan, arguments of fabs/copysign nonzero, conditions locally constant), the real function t -> eval(e)[v:=t] has derivative eval(d) at that point (Mathlib HasDerivAt). diff_refuses: fabs, copysign, If and unknown functions with arguments are refused unless the setting allows them. diff_var_absent: a variable that does not occur gives a tree that evaluates to 0; diff_var_absent_literal: it is the literal 0 for If-free trees (the repaired CSE handler answers 0 for a vanishing child derivative); diff_pow_absent_exponent / diff_pow_cse_exponent: an exponent that does not depend on the variable gives the plain power rule g*f**(g-1)*f' without a log term. Tied to differentiate()/DifferentiationMapper by (1) T-gen: the function table (derivative expressions, gates, error classes), the branch chains of map_quotient/map_power, the If gate, the CSE handler's is_zero test with the literal it answers, the leaf rules and a shape descriptor of every handler are re-read from the SOURCE on every run (lean/PV/Generated/Diff.lean) and diff_eq_table_current / handler_shapes_current prove that this table, interpreted, is the model the theorems are about; (2) correspondence on derivative trees and error kinds, also through the interpreted regenerated table and by running the real map_quotient/map_power with prescribed child derivatives; independent dual-number oracle on the real code.",
    level_note="Known findings kept as counterexample theorems: copysign differentiated w.r.t. its first argument gives 0; log of an integer constant other than 1 crashes (AttributeError from pymbolic.rational); the power rule emits the free variable `log` instead of math.log; map_if keeps If(c, 0, 0) around vanishing branch derivatives (truthy, so the power rule keeps a log term: if_zero_wrapped_cex); repaired and replayed on the table: the CSE handler wrapped a vanishing child derivative (cse_zero_wrapped_table_cex). `If` only under the hypothesis that the condition is locally constant. The CSE cache is modelled (diffC) and proved irrelevant when == identifies no two different CSE nodes; float results of int/int true division are outside the tree model (model abstains).",
    technique="Lean 4 + Mathlib analysis: mutual structural induction over the differentiator model with soundness lemmas for the overloaded operators over the reals; differential correspondence; forward-mode dual numbers over Fraction / floats with running error bounds",
    design_ref="DESIGN.md §4 C10",
)
