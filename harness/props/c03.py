"""C03 — operator overloading builds trees that mean what the operators mean."""
from __future__ import annotations

import itertools
import operator as op
from fractions import Fraction

import pymbolic.primitives as p

from ..core import Failure, Prop, Stream
from ..oracles.pyeval import pyeval
from ..sexp import A, dumps, exc_to_sx, expr_to_sx, loads, sx_to_expr
from .c03_syntax import ExhaustiveSyntax, RandomSyntax
from .c03_syntax import probes as syntax_probes

BINOPS = {"add": op.add, "sub": op.sub, "mul": op.mul, "truediv": op.truediv,
          "floordiv": op.floordiv, "mod": op.mod, "pow": op.pow, "lshift": op.lshift,
          "rshift": op.rshift, "and": op.and_, "or": op.or_, "xor": op.xor}
UNOPS = {"neg": op.neg, "pos": op.pos, "invert": op.invert}

x, y, z = p.Variable("x"), p.Variable("y"), p.Variable("z")


def operand_kinds():
    return {
        "var": x,
        "sum2": p.Sum((x, y)), "sum0": p.Sum(()), "sum1zero": p.Sum((0,)), "sum1": p.Sum((y,)),
        "prod2": p.Product((x, y)), "prodzero": p.Product((x, 0)), "prod0": p.Product(()),
        "quot": p.Quotient(x, y), "quotzero": p.Quotient(0, y), "floordiv": p.FloorDiv(x, y),
        "rem": p.Remainder(x, y), "pow": p.Power(x, 2), "call": p.Call(p.Variable("f"), (x,)),
        "sub": p.Subscript(p.Variable("t"), 0), "lshift": p.LeftShift(z, 1),
        "bnot": p.BitwiseNot(z), "if": p.If(p.Comparison(x, "<", y), x, y),
        # the same node classes with a CONSTANT operand (shortcuts that look at an operand's value)
        "quotc": p.Quotient(7, x), "floordivc": p.FloorDiv(7, x), "remc": p.Remainder(7, x),
        "floordivd": p.FloorDiv(x, 2), "remd": p.Remainder(x, 3), "powc": p.Power(2, x),
        "negfloordivc": p.FloorDiv(-7, y), "sumc": p.Sum((x, 3)), "prodc": p.Product((3, x)),
        "zero": 0, "one": 1, "negone": -1, "two": 2, "fzero": 0.0, "fone": 1.0, "fnegone": -1.0,
        "fhalf": 2.5, "true": True, "false": False,
    }


def invalid_operand_kinds():
    return {"str": "a", "none": None, "tuple": (1, 2), "list": [x]}


ENV_BOX = [-2, -1, 0, 1, 2, Fraction(1, 2), Fraction(-3, 2)]


def envs():
    from ..sexp import Func
    for vx, vy in itertools.product(ENV_BOX, ENV_BOX):
        yield {"x": vx, "y": vy, "z": 3, "t": (5, 7), "f": (lambda a: a * 2 + 1)}


def build_sx(fn):
    try:
        return dumps(expr_to_sx(fn()))
    except RecursionError:
        raise
    except Exception as ex:
        return dumps(exc_to_sx(ex))


def prog_to_req(pr) -> str:
    if pr[0] == "leaf":
        return f"(leaf {pr[1]})"
    if pr[0] == "bin":
        return f"(bin {pr[1]} {prog_to_req(pr[2])} {prog_to_req(pr[3])})"
    return f"(un {pr[1]} {prog_to_req(pr[2])})"


def prog_build(pr):
    if pr[0] == "leaf":
        return sx_to_expr(loads(pr[1]))
    if pr[0] == "bin":
        return BINOPS[pr[1]](prog_build(pr[2]), prog_build(pr[3]))
    return UNOPS[pr[1]](prog_build(pr[2]))


INEXACT = (float, complex)


def close(a, b):
    return abs(complex(a) - complex(b)) <= 1e-9 * max(1.0, abs(complex(a)))


def exact_env(env):
    return {k: (Fraction(v) if isinstance(v, int) and not isinstance(v, bool) else v)
            for k, v in env.items()}


def _frac_consts(e):
    """(tree, bindings): the tree with every int constant replaced by a fresh variable bound to the
    Fraction of that value (so that int / int inside a composite leaf stays exact; the reference
    interpreter pyeval takes numbers only from the environment or as int / float literals)"""
    from pymbolic.mapper import IdentityMapper
    extra = {}

    class M(IdentityMapper):
        def map_constant(self, expr, *a, **k):
            if isinstance(expr, int) and not isinstance(expr, bool):
                n = f"__k{len(extra)}"
                extra[n] = Fraction(expr)
                return p.Variable(n)
            return expr
    try:
        return M()(e), extra
    except Exception:
        return e, {}


def _iroot(n, q):
    """the exact integer q-th root of n >= 0, or None if n is not a perfect q-th power"""
    if n < 2:
        return n
    lo, hi = 1, 1 << (n.bit_length() // q + 1)
    while lo < hi:
        mid = (lo + hi) // 2
        if mid ** q < n:
            lo = mid + 1
        else:
            hi = mid
    return lo if lo ** q == n else None


def exact_pow(a, b):
    """a ** b in exact rationals wherever the true value IS rational.  Python rounds
    Fraction ** Fraction through floats as soon as the exponent is not an integer ((9/4) ** (1/2) is
    the float 1.5); mathematically a non-negative rational whose numerator and denominator are
    perfect q-th powers has the exact rational power r ** p for the exponent p/q.  Everything else
    (irrational or complex results, huge denominators of the exponent) is left to Python and stays
    inexact, i.e. without a verdict."""
    if (isinstance(a, (int, Fraction)) and not isinstance(a, bool) and isinstance(b, Fraction)
            and b.denominator != 1 and b.denominator <= 64 and a >= 0):
        a = Fraction(a)
        rn, rd = _iroot(a.numerator, b.denominator), _iroot(a.denominator, b.denominator)
        if rn is not None and rd is not None:
            return Fraction(rn, rd) ** b.numerator        # integer exponent: exact (0 ** -k raises)
    return a ** b


def _intlike(f):
    """the integer operators of the exact computation: integers travel as Fractions there, the
    shifts and bitwise operators need them back as ints (only reached where the plain computation
    had a value, i.e. where the operands were ints)"""
    def as_int(v):
        return int(v) if isinstance(v, Fraction) and v.denominator == 1 else v

    def g(*args):
        r = f(*[as_int(a) for a in args])
        return Fraction(r) if isinstance(r, int) and not isinstance(r, bool) else r
    return g


EXACT_BINOPS = {**BINOPS, "pow": exact_pow,
                **{o: _intlike(BINOPS[o]) for o in ("lshift", "rshift", "and", "or", "xor")}}
EXACT_UNOPS = {**UNOPS, "invert": _intlike(op.invert)}


def prog_plain(pr, env, exact=False):
    """the same program on plain numbers (`exact`: integers travel as Fractions, and powers with a
    rational exponent are exact wherever the true value is rational)"""
    if pr[0] == "leaf":
        if pr[1].startswith("(FracLeaf"):
            _h, n, d = pr[1].strip("()").split()
            return Fraction(int(n), int(d))
        if "FracLeaf" in pr[1]:
            raise ValueError("float inside a composite leaf")
        e = sx_to_expr(loads(pr[1]))
        if exact:
            if isinstance(e, p.Expression):
                e, extra = _frac_consts(e)
                env = {**env, **extra}
            elif isinstance(e, int) and not isinstance(e, bool):
                return Fraction(e)
        return pyeval(e, env)
    if pr[0] == "bin":
        return (EXACT_BINOPS if exact else BINOPS)[pr[1]](prog_plain(pr[2], env, exact),
                                                          prog_plain(pr[3], env, exact))
    return (EXACT_UNOPS if exact else UNOPS)[pr[1]](prog_plain(pr[2], env, exact))


def may_round(pr):
    """can a float arise anywhere in the plain computation?"""
    if pr[0] == "leaf":
        return any(t in pr[1] for t in ("(Flt", "(Quotient", "(Power"))
    if pr[0] == "bin" and pr[1] in ("truediv", "pow"):
        return True
    return any(may_round(q) for q in pr[2:])


def has_node(pr):
    if pr[0] == "leaf":
        return isinstance(sx_to_expr(loads(pr[1])), p.Expression)
    return any(has_node(q) for q in pr[2:])


def known_fold_inside(pr):
    """key of a known-bad fold occurring in a proper sub-program, if any"""
    for sub in pr[2:] if pr[0] in ("bin", "un") else []:
        k = classify(sub)
        if k in ("floordiv-by-one", "mod-by-one", "zero-pow"):
            return k
        k = known_fold_inside(sub)
        if k is not None:
            return k
    return None


def has_float_leaf(pr):
    if pr[0] == "leaf":
        return "(Flt" in pr[1]
    return any(has_float_leaf(q) for q in pr[2:])


def exactify(pr):
    """the same program with every float leaf replaced by the exact rational it denotes"""
    if pr[0] == "leaf":
        import re
        return ["leaf", re.sub(r'\(Flt "[^"]*" (-?\d+) (\d+)\)',
                               lambda m: f"(FracLeaf {m.group(1)} {m.group(2)})", pr[1])]
    return pr[:2] + [exactify(q) for q in pr[2:]]


def classify(pr):
    """Stable key for a failing program: the shortcut that fired at the root, else op and kinds."""
    if pr[0] == "bin":
        o = pr[1]
        try:
            b = prog_build(pr[3])
            a = prog_build(pr[2])
        except Exception:
            return f"{o}:?"
        is_const = lambda v: isinstance(v, (int, float)) and not isinstance(v, p.Expression)  # noqa
        if o == "floordiv" and is_const(b) and b == 1:
            return "floordiv-by-one"
        if o == "mod" and is_const(b) and b == 1:
            return "mod-by-one"
        if o == "pow" and is_const(a) and a == 0:
            return "zero-pow"
        return f"{o}:{type(a).__name__}:{type(b).__name__}"
    if pr[0] == "un":
        return f"{pr[1]}"
    return "leaf"


_PASSED: dict = {"value": set(), "order": set()}


def _memo_key(which, pr):
    """sub-programs are shared by many programs of the exhaustive families: one that has passed
    (the oracles are pure functions of the program) is not judged again"""
    import json
    if len(_PASSED[which]) > 200000:
        _PASSED[which].clear()
    return json.dumps(pr)


def tree_has_float(tree):
    """does the built tree hold a float constant (anywhere)?"""
    import dataclasses
    if isinstance(tree, float):
        return True
    if isinstance(tree, (tuple, list)):
        return any(tree_has_float(c) for c in tree)
    if isinstance(tree, p.Expression) and dataclasses.is_dataclass(tree):
        return any(tree_has_float(getattr(tree, f.name)) for f in dataclasses.fields(tree))
    return False


def value_oracle(pr, top=True):
    """evaluate(tree) == the same lambda on numbers, in every env where the latter is defined."""
    from pymbolic.mapper.evaluator import EvaluationMapper
    if not top:
        mk = _memo_key("value", pr)
        if mk in _PASSED["value"]:
            return None
        f = value_oracle(pr)
        if f is None:
            _PASSED["value"].add(mk)
        return f
    try:
        tree = prog_build(pr)
    except Exception:
        return None           # construction raised: no tree, nothing to check
    if not has_node(pr):
        return None
    # blame the innermost failing sub-program, so that keys are stable under nesting
    for sub in pr[2:] if pr[0] in ("bin", "un") else []:
        f = value_oracle(sub, top=False)
        if f is not None:
            return f
    for env in envs():
        try:
            want = prog_plain(pr, env)
        except Exception:
            continue
        try:
            got = EvaluationMapper(env)(tree)
        except Exception as ex:
            got = ex
        ok = False
        try:
            if isinstance(want, INEXACT) or isinstance(got, INEXACT):
                ok = (not isinstance(got, Exception)) and close(want, got)
            else:
                ok = bool(want == got)
        except Exception:
            ok = False
        if not ok and may_round(pr):
            # a float anywhere (a float operand, int / int, a negative or fractional power) makes
            # the plain computation a ROUNDED one (e.g. 5 // (0.0 + x/y) is off by one, 1 % 0.1 is
            # 0.0999…); judge against the same computation in exact rationals.  No verdict when
            # that is undefined or itself inexact (floats are outside the exact fragment).
            try:
                exact = prog_plain(exactify(pr), exact_env(env), exact=True)
                if isinstance(got, Exception):
                    ok = False
                elif isinstance(exact, INEXACT):
                    ok = True         # irrational power: rounding may be amplified, no verdict
                elif isinstance(got, INEXACT):
                    ok = close(exact, got)
                else:
                    ok = bool(exact == got)
            except Exception:
                ok = True
        if not ok and isinstance(got, TypeError) and not has_float_leaf(pr) and (
                tree_has_float(tree) or (may_round(pr) and "'float'" in str(got))):
            # construction-time arithmetic on two plain ints left the exact domain (`-1 / 1` is the
            # FLOAT -1.0 in Python, where the same step on the environment's Fractions stays a
            # Fraction): equal in value, but `>>`, `<<`, `&`, `|`, `^`, `~` reject a float.  Floats
            # are outside the exact fragment the value claim is about: no verdict.  The same when the
            # float arises while the TREE is evaluated (`Quotient(-1, x)` at an int x, after a fold
            # dropped the zero-valued operand that carried the environment's Fraction type) and an
            # operator then rejects it: the message names the float operand.
            continue
        if not ok:
            shown = {k: v for k, v in env.items() if k in "xyz"}
            # a known fold below may leave an == value of another TYPE (x // True -> x keeps a
            # Fraction where the plain computation has an int) that only fails further up
            inner = known_fold_inside(pr)
            if inner is not None and classify(pr) not in ("floordiv-by-one", "mod-by-one", "zero-pow"):
                return Failure(inner, f"(via a folded operand) tree {tree!r} evaluates to {got!r} "
                               f"at {shown}, plain computation gives {want!r}", pr)
            return Failure(classify(pr), f"tree {tree!r} evaluates to {got!r} at {shown}, "
                           f"plain computation gives {want!r}", pr)
    return None


def nc_envs():
    """environments in which multiplication does NOT commute: every variable a generator of a free
    algebra (harness/oracles/ncpoly.py)"""
    from ..oracles.ncpoly import NCPoly
    g = {n: NCPoly.gen(n) for n in ("x", "y", "z", "w")}
    yield {**g, "t": (5, 7), "f": (lambda a: a * 2 + 1)}
    # a second one with sums as values (reordered factors of a product of sums)
    yield {"x": g["x"] + 1, "y": g["y"] * g["x"], "z": g["z"] - g["x"], "w": g["w"],
           "t": (5, 7), "f": (lambda a: a * 2 + 1)}


def order_oracle(pr, top=True):
    """"never reorder non-commuting operands": the tree and the plain computation agree in a value
    domain where `*` does not commute (no verdict where the plain computation has no value there:
    divisions by non-numbers, remainders, shifts, … raise TypeError)."""
    from pymbolic.mapper.evaluator import EvaluationMapper
    from ..oracles.ncpoly import NCPoly, NCTooBig
    if not top:
        mk = _memo_key("order", pr)
        if mk in _PASSED["order"]:
            return None
        f = order_oracle(pr)
        if f is None:
            _PASSED["order"].add(mk)
        return f
    try:
        tree = prog_build(pr)
    except Exception:
        return None
    if not has_node(pr) or has_float_leaf(pr):
        return None
    for sub in pr[2:] if pr[0] in ("bin", "un") else []:
        f = order_oracle(sub, top=False)
        if f is not None:
            return f
    for env in nc_envs():
        try:
            want = prog_plain(pr, env)
        except Exception:
            continue
        if not isinstance(want, NCPoly):
            continue
        try:
            got = EvaluationMapper(env)(tree)
            ok = bool(got == want)
        except NCTooBig:
            continue
        except Exception as ex:
            got, ok = ex, False
        if (not ok and isinstance(got, (int, float)) and set(want.terms) <= {()}
                and close(want.terms.get((), 0), got)):
            # the tree has lost its generators through an absorbing element (x * 0 dropped) and
            # divides number by number: a float; the plain value is the same CONSTANT polynomial
            continue
        if not ok and "(Flt" in dumps(expr_to_sx(tree)):
            # a float made at construction time (int / int of two constant sub-programs): the free
            # algebra is over the rationals, a float has no value there - no verdict
            return None
        if not ok:
            k = classify(pr)
            # one of the value-changing folds at the root (0 ** e -> 0 …) is that fold, exhibited
            # in this domain too, not a reordering
            return Failure(k if k in ("floordiv-by-one", "mod-by-one", "zero-pow") else "reorders:" + k,
                           f"tree {tree!r} evaluates to {got!r} over non-commuting x, y, z, w; the "
                           f"plain computation gives {want!r}", pr)
    return None


class ProgStream(Stream):
    def request(self, pl):
        return f"(opprog {prog_to_req(pl)})"

    def run_impl(self, pl):
        return build_sx(lambda: prog_build(pl))

    def oracle(self, pl):
        return value_oracle(pl) or order_oracle(pl)

    def nontrivial_key(self, pl, model, impl):
        return dumps(pl) if has_node(pl) else None

    def shrink(self, pl):
        if pl[0] in ("bin", "un"):
            for q in pl[2:]:
                yield q
            if pl[0] == "bin":
                for i in (2, 3):
                    for q in self.shrink(pl[i]):
                        yield pl[:i] + [q] + pl[i + 1:]

    def stats(self, pl, mo, io, acc):
        k = "tree" if not io.startswith("(err") else io
        acc.setdefault("outcomes", {})
        acc["outcomes"][k] = acc["outcomes"].get(k, 0) + 1


class ExhaustiveOps(ProgStream):
    """every (operator, left kind, right kind) and every (unary operator, kind) — exhaustive"""
    name = "ops-exhaustive"

    def cases(self, rng, tier):
        kinds = operand_kinds()
        sx = {k: dumps(expr_to_sx(v)) for k, v in kinds.items()}
        for o in BINOPS:
            for ka, kb in itertools.product(kinds, kinds):
                if not (isinstance(kinds[ka], p.Expression) or isinstance(kinds[kb], p.Expression)):
                    continue
                yield ["bin", o, ["leaf", sx[ka]], ["leaf", sx[kb]]]
        for o in UNOPS:
            for ka in kinds:
                if isinstance(kinds[ka], p.Expression):
                    yield ["un", o, ["leaf", sx[ka]]]
        # operands that are NOT valid (`is_valid_operand` / `is_constant` guards, asserts): every
        # node kind against a str, None, a tuple and a list, on either side
        bad = {k: dumps(expr_to_sx(v)) for k, v in invalid_operand_kinds().items()}
        for o in BINOPS:
            for ka in kinds:
                if isinstance(kinds[ka], p.Expression):
                    for kb in bad:
                        yield ["bin", o, ["leaf", sx[ka]], ["leaf", bad[kb]]]
                        yield ["bin", o, ["leaf", bad[kb]], ["leaf", sx[ka]]]


class RandomProgs(ProgStream):
    name = "opprog-random"

    def cases(self, rng, tier):
        n = 1500 if tier == "quick" else 40000
        kinds = operand_kinds()
        sx = [dumps(expr_to_sx(v)) for v in kinds.values()]

        def gen(d):
            if d == 0 or rng.random() < 0.25:
                return ["leaf", rng.choice(sx)]
            if rng.random() < 0.15:
                return ["un", rng.choice(list(UNOPS)), gen(d - 1)]
            o = rng.choice(["add", "add", "sub", "sub", "mul", "mul", "truediv", "floordiv", "mod",
                            "pow", "lshift", "rshift", "and", "or", "xor"])
            if o == "pow":
                return ["bin", o, gen(d - 1), ["leaf", rng.choice([sx[18], sx[19], sx[21], sx[0]])]]
            return ["bin", o, gen(d - 1), gen(d - 1)]
        for _ in range(n):
            yield gen(rng.randint(1, 5))


class NonCommutative(ProgStream):
    """programs of + - * (and small powers) over products, sums and nested products of FOUR
    different variables: exhaustive two-operator programs in both groupings, random deeper ones.
    The order oracle decides them in the free algebra."""
    name = "opprog-noncommutative"

    @staticmethod
    def pool():
        w = p.Variable("w")
        return [x, y, z, w, p.Product((x, y)), p.Product((z, w)), p.Product((y, p.Product((z, w)))),
                p.Product((p.Product((x, y)), z)), p.Sum((x, y)), p.Sum((z, p.Product((w, x)))),
                p.Power(x, 2), p.Quotient(y, 2), 2, -1, 1, 0]

    def cases(self, rng, tier):
        sx = [dumps(expr_to_sx(v)) for v in self.pool()]
        ops = ["mul", "add", "sub"]
        trip = list(itertools.product(range(len(sx)), repeat=3))
        if tier == "quick":
            trip = rng.sample(trip, 450)
        for a, b, c in trip:
            for o1, o2 in itertools.product(ops, ops):
                if "mul" not in (o1, o2):
                    continue
                yield ["bin", o2, ["bin", o1, ["leaf", sx[a]], ["leaf", sx[b]]], ["leaf", sx[c]]]
                yield ["bin", o1, ["leaf", sx[a]], ["bin", o2, ["leaf", sx[b]], ["leaf", sx[c]]]]

        def gen(d):
            if d == 0 or rng.random() < 0.2:
                return ["leaf", rng.choice(sx)]
            k = rng.random()
            if k < 0.1:
                return ["un", "neg", gen(d - 1)]
            if k < 0.2:
                return ["bin", "pow", gen(d - 1), ["leaf", rng.choice(["(Int 0)", "(Int 1)", "(Int 2)", "(Int 3)"])]]
            return ["bin", rng.choice(["mul", "mul", "mul", "add", "sub"]), gen(d - 1), gen(d - 1)]
        for _ in range(600 if tier == "quick" else 20000):
            yield gen(rng.randint(2, 5))


def _leaf(v):
    return ["leaf", dumps(expr_to_sx(v))]


class NeutralLooking(ProgStream):
    """Operands BUILT IN TWO STEPS out of pieces the neutral-/absorbing-element tests look at:
    `(a op1 b)` for EVERY operator and every pair from a pool of variables, 0, 1 and nodes that
    are zero- or one-looking by their structure (0 // x, 0 % x, a quotient with numerator 0, a
    product with a factor 0, the empty sum / product), then used as the left or the right operand of
    a second operator (always as an addend and as a factor, plus random other contexts; every
    context in the thorough tier), and random deeper programs over the same pool.  The shortcuts
    decide by `bool(node)`; the environments decide by value (x, y range over a box that contains
    0, so `0 ** 0`, `0 // x`, `x * 0` … all occur)."""
    name = "opprog-neutral-looking"

    @staticmethod
    def pool(tier):
        small = [x, y, 0, 1, p.FloorDiv(0, x), p.Quotient(0, y), p.Product((x, 0)), p.Sum(())]
        if tier == "quick":
            return small
        return small + [p.Remainder(0, x), p.Sum((0,)), p.Product(()), p.Sum((y,)), p.Power(x, 0),
                        2, -1, z]

    @staticmethod
    def contexts():
        outer = [z, 5, p.Sum((z, 1)), 1, 0]
        return [(o, side, _leaf(c)) for o in BINOPS for side in ("l", "r") for c in outer]

    @staticmethod
    def wrap(inner, ctx):
        o, side, c = ctx
        return ["bin", o, inner, c] if side == "l" else ["bin", o, c, inner]

    def cases(self, rng, tier):
        pool = [_leaf(v) for v in self.pool(tier)]
        ctxs = self.contexts()
        always = [("add", "l", _leaf(z)), ("mul", "r", _leaf(z))]
        for o1 in BINOPS:
            for a, b in itertools.product(pool, pool):
                inner = ["bin", o1, a, b]
                try:
                    if not isinstance(prog_build(inner), p.Expression):
                        continue          # folded to a number (or no tree): a one-step case
                except Exception:
                    continue
                for ctx in always + rng.sample(ctxs, 2 if tier == "quick" else 14):
                    yield self.wrap(inner, ctx)
        for o1 in UNOPS:
            for a in pool:
                for ctx in always + rng.sample(ctxs, 2 if tier == "quick" else 14):
                    yield self.wrap(["un", o1, a], ctx)

        def gen(d):
            if d == 0 or rng.random() < 0.2:
                return rng.choice(pool)
            if rng.random() < 0.1:
                return ["un", rng.choice(list(UNOPS)), gen(d - 1)]
            return ["bin", rng.choice(list(BINOPS)), gen(d - 1), gen(d - 1)]
        for _ in range(400 if tier == "quick" else 20000):
            yield self.wrap(gen(rng.randint(2, 3)), rng.choice(ctxs))


class PowerLaws(ProgStream):
    """Programs on which the (in general FALSE) power laws would act if a construction-time
    shortcut applied one: towers `(b ** m) ** n`, products and quotients of powers of one base
    `(b ** m) * (b ** n)`, powers of products / quotients / negations `(b1 * b2) ** n`, powers with
    a constant base `(c ** b) ** n`, `c ** b1 * c ** b2` - over operator-built bases, with the
    exponents ranging over negative, zero, positive integers AND non-integer floats (0.5, 0.25,
    1.5, -0.5: where `(b ** 2) ** 0.5` is |b|, not b), bare and inside a further operator.  The
    environments contain negative, zero and fractional values of the bases; with a float exponent
    the verdict is taken in exact rationals (`exact_pow`: perfect roots are exact)."""
    name = "opprog-powers"

    INT_EXP = [-2, -1, 0, 1, 2, 3, 4]
    FLT_EXP = [0.5, 0.25, 1.5, -0.5, 2.0, 1.0, 0.0, 3.0]

    @staticmethod
    def bases():
        X, Y = _leaf(x), _leaf(y)
        return [X, Y, ["bin", "add", X, Y], ["bin", "mul", X, Y], ["bin", "sub", X, Y],
                ["un", "neg", X], ["bin", "mul", _leaf(2), X], ["bin", "truediv", X, Y],
                ["bin", "add", X, _leaf(1)], ["bin", "pow", X, _leaf(2)]]

    def cases(self, rng, tier):
        quick = tier == "quick"
        bases = self.bases()
        exps = [_leaf(e) for e in self.INT_EXP + self.FLT_EXP]
        simple = bases[:2] + bases[5:7] + [_leaf(2), _leaf(-1), _leaf(-2)]
        consts = [_leaf(c) for c in (2, -1, -2, 3, 0.5, 4)]
        P = lambda a, b: ["bin", "pow", a, b]  # noqa: E731

        def family():
            for m, n in itertools.product(exps, exps):
                for b in ([rng.choice(bases)] if quick else bases):
                    yield P(P(b, m), n)                                   # tower
                b = rng.choice(bases)
                for o in ("mul", "truediv"):
                    yield ["bin", o, P(b, m), P(b, n)]                    # same base
            for m in exps:
                for b in (rng.sample(bases, 5) if quick else bases):
                    for o in ("mul", "truediv"):
                        yield ["bin", o, P(b, m), b]
                        yield ["bin", o, b, P(b, m)]
                    yield P(["un", "neg", b], m)
                    yield ["un", "neg", P(b, m)]
                for b1, b2 in itertools.product(simple, simple):
                    if quick and rng.random() < 0.75:
                        continue
                    for o in ("mul", "truediv"):
                        yield P(["bin", o, b1, b2], m)                    # power of a product
                        yield ["bin", o, P(b1, m), P(b2, m)]
                for c in consts:
                    b = rng.choice(bases[:7])
                    yield P(P(c, b), m)                                   # constant base
                    yield P(c, ["bin", "mul", b, m])
                    yield P(P(b, bases[1]), m)                            # symbolic inner exponent
                    yield P(P(b, m), bases[1])
            for c in consts:
                for b1, b2 in itertools.product(bases[:5], bases[:5]):
                    if quick and rng.random() < 0.6:
                        continue
                    for o in ("mul", "truediv"):
                        yield ["bin", o, P(c, b1), P(c, b2)]
                    yield P(c, ["bin", "add", b1, b2])

        wraps = [lambda q: ["bin", "add", q, _leaf(1)], lambda q: ["bin", "mul", _leaf(2), q],
                 lambda q: ["bin", "mul", q, _leaf(y)], lambda q: ["un", "neg", q],
                 lambda q: ["bin", "sub", _leaf(x), q], lambda q: ["bin", "truediv", _leaf(1), q],
                 lambda q: ["bin", "pow", q, _leaf(2)], lambda q: ["bin", "pow", q, _leaf(0.5)]]
        for q in family():
            if not has_node(q):
                continue                  # constants only: plain Python, nothing is built
            yield q
            if not quick or rng.random() < 0.25:
                yield rng.choice(wraps)(q)


class Helpers(Stream):
    """truthiness of nodes, flattened_sum / flattened_product"""
    name = "helpers"

    def cases(self, rng, tier):
        kinds = list(operand_kinds().values())
        for k in kinds:
            yield {"what": "truthy", "args": [dumps(expr_to_sx(k))]}
        extra = [p.Sum((p.Sum((0,)),)), p.Product((p.Sum((0,)), x)), p.Quotient(p.Product((0, x)), y),
                 p.Sum((p.Product((x, 0)),)), p.Product((1, x)), p.Product((p.Product((x, y)), z)),
                 p.Sum((p.Sum((x, p.Sum((y, z)))), 0, 1))]
        for k in extra:
            yield {"what": "truthy", "args": [dumps(expr_to_sx(k))]}
        pool = kinds + extra
        n = 400 if tier == "quick" else 5000
        for _ in range(n):
            terms = [rng.choice(pool) for _ in range(rng.randint(0, 4))]
            yield {"what": rng.choice(["flatsum", "flatprod"]),
                   "args": [dumps(expr_to_sx(t)) for t in terms]}

    def request(self, pl):
        return f"({pl['what']} {' '.join(pl['args'])})"

    def run_impl(self, pl):
        args = [sx_to_expr(loads(a)) for a in pl["args"]]
        if pl["what"] == "truthy":
            return "true" if bool(args[0]) else "false"
        f = p.flattened_sum if pl["what"] == "flatsum" else p.flattened_product
        return build_sx(lambda: f(args))

    def oracle(self, pl):
        # value preservation of the flatteners on the env box
        if pl["what"] == "truthy":
            return None
        from pymbolic.mapper.evaluator import EvaluationMapper
        args = [sx_to_expr(loads(a)) for a in pl["args"]]
        f = p.flattened_sum if pl["what"] == "flatsum" else p.flattened_product
        try:
            tree = f(args)
        except Exception as ex:
            return Failure(pl["what"] + "-raises", repr(ex), pl)
        for env in list(envs())[::5]:
            try:
                vals = [pyeval(a, env) for a in args]
                want = sum(vals) if pl["what"] == "flatsum" else __import__("math").prod(vals)
            except Exception:
                continue
            try:
                got = EvaluationMapper(env)(tree)
                ok = (abs(float(want) - float(got)) < 1e-9) if isinstance(got, float) or isinstance(want, float) else want == got
            except Exception as ex:
                got, ok = ex, False
            if not ok:
                return Failure(pl["what"] + "-value", f"{tree!r} gives {got!r}, terms give {want!r}", pl)
        # "does not change the order of the terms": the same over non-commuting values
        from ..oracles.ncpoly import NCPoly, NCTooBig
        if any("(Flt" in a for a in pl["args"]):
            return None
        for env in nc_envs():
            try:
                vals = [pyeval(a, env) for a in args]
                want = 0 if pl["what"] == "flatsum" else 1
                for v in vals:
                    want = (want + v) if pl["what"] == "flatsum" else (want * v)
            except Exception:
                continue
            if not isinstance(want, NCPoly):
                continue
            try:
                got = EvaluationMapper(env)(tree)
                ok = bool(got == want)
            except NCTooBig:
                continue
            except Exception as ex:
                got, ok = ex, False
            if not ok:
                return Failure(pl["what"] + "-reorders", f"{tree!r} gives {got!r} over non-commuting "
                               f"x, y, z, w; the terms in order give {want!r}", pl)
        return None


class OrderComparisons(Stream):
    """<, <=, >, >= between an expression and anything raise TypeError (oracle only)."""
    name = "order-comparisons"
    has_model = False

    def cases(self, rng, tier):
        kinds = operand_kinds()
        for ka, kb in itertools.product(kinds, kinds):
            if isinstance(kinds[ka], p.Expression) or isinstance(kinds[kb], p.Expression):
                for o in ("lt", "le", "gt", "ge"):
                    yield {"op": o, "a": dumps(expr_to_sx(kinds[ka])), "b": dumps(expr_to_sx(kinds[kb]))}

    def run_impl(self, pl):
        a, b = sx_to_expr(loads(pl["a"])), sx_to_expr(loads(pl["b"]))
        try:
            r = getattr(op, pl["op"])(a, b)
            return f"(value {type(r).__name__})"
        except TypeError:
            return "(err TypeError)"
        except Exception as ex:
            return f"(err {type(ex).__name__})"

    def oracle(self, pl):
        r = self.run_impl(pl)
        if r != "(err TypeError)":
            return Failure("order-comparison-no-typeerror", f"{pl} -> {r}", pl)
        return None


def probes():
    """Known findings of C03 replayed on the real code."""
    res = []
    from pymbolic.mapper.evaluator import EvaluationMapper as EM
    half = Fraction(1, 2)
    t = x // 1
    res.append(("floordiv-by-one", EM({"x": half})(t) != half // 1, f"(x // 1) -> {t!r}; at x=1/2 gives {EM({'x': half})(t)!r}, plain 0"))
    t = x % 1
    res.append(("mod-by-one", EM({"x": half})(t) != half % 1, f"(x % 1) -> {t!r}; at x=1/2 plain 1/2"))
    t = 0 ** x
    res.append(("zero-pow", EM({"x": 0})(t) != 0 ** 0, f"(0 ** x) -> {t!r}; at x=0 plain 1"))
    a, b, c = (p.Variable(n) for n in "abc")
    t = p.flattened_product((x, p.Product((a, b)), c))
    res.append(("flatprod-reorders", t != p.Product((x, a, b, c)),
                f"flattened_product((x, a*b, c)) -> {t!r}; in order it is x*a*b*c (repaired: the spliced "
                f"factors keep their place; fails again if they are moved behind c)"))
    return res


def extract(ctx=None):
    """T-gen: the decision trees of the operator dunders of Expression / Sum / Product, the
    `__bool__` rules of the node classes, the operand predicates, `quotient` and the flatteners, regenerated from the live source of the tree under
    test into lean/PV/Generated/Operators.lean (obligations `*_current` of PV.Properties.C03)"""
    from extract.operators import extract_operators
    return extract_operators(ctx)


def extract_syntax(ctx=None):
    """T-gen: `Expression.__getitem__`, `__call__`, `attr`, `a` (+ `_AttributeLookupCreator`),
    `index`, `not_ / and_ / or_`, `eq … gt`, `__abs__`, `__le__ … __gt__`, `__iter__` and the field
    lists of the node classes they build, regenerated from the live source into
    lean/PV/Generated/OperatorsSyntax.lean (obligations `*_current` of PV.Properties.C03Syntax)"""
    from extract.operators import extract_operators_syntax
    return extract_operators_syntax(ctx)


PROP = Prop(
    id="C03",
    title="Operator overloading builds trees that mean what the operators mean",
    lean_targets=["PV.Properties.C03", "PV.Properties.C03Syntax"],
    theorems=[],
    extractors=[extract, extract_syntax],
    streams=[ExhaustiveOps(), RandomProgs(), NonCommutative(), NeutralLooking(), PowerLaws(),
             Helpers(), OrderComparisons(),
             ExhaustiveSyntax(), RandomSyntax()],
    probes=[probes, syntax_probes],
    trusted_base=[
        "Lean 4.33 kernel; axioms propext, Classical.choice, Quot.sound only",
        "CPython's binary-operator dispatch as modelled by `dispatch` in lean/PV/Model/Ops.lean "
        "(validated by the exhaustive operator x kind x kind stream)",
        "PyNum (see C02)",
        "extract/operators.py (ast reader of the operator dunders, operand predicates, quotient and "
        "flatteners of pymbolic/primitives.py; unknown shapes are errors) and the table interpreter "
        "`opByTable` of lean/PV/Model/OpsTable.lean as the reading of such a table",
        "the reader of the non-arithmetic syntax in extract/operators.py (SynReader: __getitem__, "
        "__call__, attr / a, index, not_/and_/or_, eq…gt, __abs__, __le__…__gt__, __iter__; unknown "
        "shapes and overrides in node classes are errors) and `c03SynCall` of "
        "lean/PV/Model/OpsSyntaxTable.lean as the reading of such a table; the aggregates of "
        "harness/props/c03_syntax.py (dict keyed by index tuples, Table, Rec, Fn, Obj) as the "
        "environments that tell index / argument / attribute spellings apart",
    ],
    assumptions=["numpy scalars and registered constant classes are not modelled"],
    level_text='Lean theorems for every overloaded operator (unbounded over operands and operator programs): the tree built by Python-style dispatch evaluates, wherever the plain computation on numbers is defined with an exact value, to a value == the plain one; over an arbitrary non-commutative ring the built tree equals the plain computation (no reordering). Three folds (x//1, x%1, 0**x) are proved false with concrete witnesses and kept as known findings. The hand-written operator model is proved (ops_eq_table_current, un_eq_table_current, truthy/preds/flatten/build_eq_table_current, for all operands) to be a generic decision-tree interpreter run on the table of every operator dunder of Expression/Sum/Product, the __bool__ of every node class, the operand predicates, quotient and the flatteners that extract/operators.py regenerates from the live source on every run; in addition it is tied to the code by the exhaustive (operator x left kind x right kind) table, invalid operands on either side, random operator programs, two-step operands built from zero-/one-looking pieces in every operator context (opprog-neutral-looking: what bool(node) takes for zero must be zero in every environment, 0 ** 0 included), power-law shaped programs with negative / zero / non-integer float exponents over negative, zero and fractional bases (opprog-powers; float exponents judged in exact rationals, perfect roots exact) and products decided in a free non-commutative algebra (opprog-noncommutative). The non-arithmetic syntax (subscript with every index shape, call with positional/keyword/mixed/empty arguments, attribute access in both spellings, not_/and_/or_, eq..gt, abs) has its own regenerated table (getitem/call/attr/attr_a/logical/cmp/abs_eq_table_current, syntax_impl_eq_table_current), per-construct soundness theorems against den (getitem_sound_partial, call_sound, attr_sound, not/and/or/cmp/abs_sound; x[()] -> x is excluded, witnessed and kept as a known finding) and two streams (exhaustive-small over index shapes x aggregates x contexts, random typed programs) that compare the built tree with the table-driven model and its value with the same program run on plain values in environments whose aggregates distinguish the index / argument / attribute spellings. The flattening helpers keep the order of the terms (flattenedProduct_no_reorder: the value of flattened_product(terms) is the ORDERED product of the terms in any, possibly non-commutative, ring; flattenedProduct_in_order / flattenedSum_in_order: the result lists exactly the in-order non-neutral terms) - true since repo fix 64927f1, found by the order oracle that decides every operator program and every flattener call in a free algebra (harness/oracles/ncpoly.py).',
    level_note='Trusted: Lean kernel; PyNum; the model of CPython binary-operator dispatch (validated exhaustively). Side conditions of the theorems are explicit Bool predicates (exact result for true division / constant-base power; integer-valued left operand for the //1 and %1 folds). numpy scalars and registered constant classes are not modelled. Also trusted: the ast reader extract/operators.py (unknown shapes are errors) and the reading of a table given by opByTable; CPython dispatch order and bool()/x-1 of float constants are hand-written and tied by correspondence only.',
    technique='Lean 4 per-operator soundness lemmas + program induction + ring-evaluation theorem; dunder decision trees regenerated from source (T-gen) and proved equal to the model; exhaustive differential correspondence of the dunder-method model',
    design_ref="DESIGN.md §4 C03",
)
