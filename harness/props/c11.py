"""C11 — algebraic rewrites preserve value and reach their normal forms."""
from __future__ import annotations

import itertools
from fractions import Fraction

import pymbolic.primitives as p

from ..core import Failure, Prop, Stream
from ..gen import ExprGen, node_types, rand_env
from ..oracles import ratfun as rf
from ..sexp import Atom, dumps, expr_to_sx, loads, sx_shrinks, sx_to_expr

x, y, z = p.Variable("x"), p.Variable("y"), p.Variable("z")
VARS = ["x", "y", "z"]

OPS = ("flatten", "fold-plain", "fold-comm", "collect", "expand", "expand-nocomm")


# {{{ running the real code

def err_sx(ex):
    from pymbolic.mapper import UnsupportedExpressionError
    from pymbolic.mapper.evaluator import UnknownVariableError
    if isinstance(ex, (UnsupportedExpressionError,)):
        return "(err Unsupported)"
    if isinstance(ex, ValueError) and "invalid foreign object" in str(ex):
        return "(err Foreign)"
    if isinstance(ex, UnknownVariableError):
        return "(err UnknownVariable)"
    return f"(err {type(ex).__name__})"


def run_op(op, e, params=()):
    """the public entry points named by the property"""
    import pymbolic
    from pymbolic.mapper.collector import TermCollector
    from pymbolic.mapper.constant_folder import (
        CommutativeConstantFoldingMapper,
        ConstantFoldingMapper,
    )
    from pymbolic.mapper.distributor import distribute
    if op == "flatten":
        return pymbolic.flatten(e)
    if op == "fold-plain":
        return ConstantFoldingMapper()(e)
    if op == "fold-comm":
        return CommutativeConstantFoldingMapper()(e)
    if op == "collect":
        return TermCollector({p.Variable(v) for v in params})(e)
    if op == "expand":
        if params:
            return distribute(e, parameters=frozenset(p.Variable(v) for v in params))
        return pymbolic.expand(e)
    if op == "expand-nocomm":
        return distribute(e, commutative=False)
    raise ValueError(op)


def canon_sx(s):
    """sort the children of every Sum and Product (recursively): TermCollector iterates a
    frozenset, so factor order depends on string hashes"""
    if isinstance(s, Atom) or not isinstance(s, list):
        return s
    kids = [canon_sx(c) for c in s]
    if kids and kids[0] in ("Sum", "Product"):
        return [kids[0], *sorted(kids[1:], key=dumps)]
    return kids


ORDER_FREE = ("collect", "expand")


def order_sensitive(s):
    """does the tree contain a Product with a Sum operand and another operand that is not a
    numeric literal?"""
    if isinstance(s, Atom) or not isinstance(s, list):
        return False
    if s and s[0] == "Product":
        kids = s[1:]
        if any(isinstance(k, list) and k and k[0] == "Sum" for k in kids) and any(
                isinstance(k, list) and k and k[0] not in ("Sum", "Int") for k in kids):
            return True
    return any(order_sensitive(k) for k in s[1:] if isinstance(k, list))


def contains_float(s):
    if isinstance(s, list):
        if s and s[0] == "Flt":
            return True
        return any(contains_float(c) for c in s)
    return False

# }}}


# {{{ generators

class FragGen:
    """expressions of the polynomial / rational fragment: integer constants, variables, sums,
    products, literal integer powers, optionally quotients, negative/zero exponents and CSE
    wrappers.  No floats, no bools."""

    def __init__(self, rng, quotients=0.0, min_exp=1, max_exp=3, cse=0.0, zeros=0.2):
        self.rng = rng
        self.quotients = quotients
        self.min_exp = min_exp
        self.max_exp = max_exp
        self.cse = cse
        self.zeros = zeros

    def leaf(self):
        r = self.rng
        if r.random() < 0.6:
            return p.Variable(r.choice(VARS))
        if r.random() < self.zeros:
            return r.choice([0, 1, 1, -1])
        return r.randint(-3, 4)

    def gen(self, depth):
        r = self.rng
        if depth <= 0 or r.random() < 0.15:
            return self.leaf()
        k = r.random()
        if k < self.cse:
            return p.CommonSubexpression(self.gen(depth - 1), r.choice([None, "cs"]))
        k = r.random()
        if k < self.quotients:
            return p.Quotient(self.gen(depth - 1), self.gen(depth - 1))
        k = r.random()
        if k < 0.4:
            return p.Sum(tuple(self.gen(depth - 1) for _ in range(r.randint(1, 3))))
        if k < 0.8:
            return p.Product(tuple(self.gen(depth - 1) for _ in range(r.randint(1, 3))))
        return p.Power(self.gen(depth - 1), r.randint(self.min_exp, self.max_exp))


def small_shapes():
    """exhaustive small enumeration of the shapes the property names"""
    atoms = [x, y, 0, 1, 2, -1]
    out = []
    # nested sums / products with neutral elements (flatten, fold)
    for a, b, c in itertools.product(atoms, repeat=3):
        for outer, inner in itertools.product((p.Sum, p.Product), repeat=2):
            out.append(outer((a, inner((b, c)))))
            out.append(outer((inner((a, b)), c)))
    for a in atoms:
        out += [p.Sum((a,)), p.Product((a,)), p.Sum(()), p.Product(()),
                p.CommonSubexpression(p.Sum((a, 0))), p.CommonSubexpression(p.Product((a, 0))),
                p.Sum((a, p.CommonSubexpression(p.Product((0, x)))))]
    return out


def expand_shapes():
    facs = [x, 2, p.Sum((x, 1)), p.Sum((y, 2)), p.Product((x, y)), p.Power(x, 2)]
    out = []
    for n in (1, 2, 3):
        for fs in itertools.product(facs, repeat=n):
            out.append(p.Product(tuple(fs)))
    for base in (p.Sum((x, 1)), p.Product((x, y)), x, p.Product((x, p.Sum((y, 1)))),
                 p.Power(p.Sum((x, 1)), 2), p.Sum((x, y, 1))):
        for ex in (-2, -1, 0, 1, 2, 3):
            out.append(p.Power(base, ex))
    # exponents that are not positive ints: symbolic, a quotient, a float, a bool
    for base in (p.Sum((x, 1)), p.Product((x, p.Sum((y, 1))))):
        for ex in (y, p.Quotient(1, 2), 2.0, True, False):
            out.append(p.Power(base, ex))
    for num, den in itertools.product((1, x, p.Sum((x, 1)), 2), (y, p.Sum((y, 1)), p.Product((x, y)), 3)):
        out.append(p.Quotient(num, den))
        out.append(p.Sum((p.Quotient(num, den), z)))
        out.append(p.Product((p.Sum((x, 1)), p.Quotient(num, den))))
    return out

# }}}


# {{{ directed family: operands that CHANGE KIND while they are rewritten

HALF = 0.5      # how 1/2 is written as a pymbolic constant (exactly representable)


def collapse_subst(e, values):
    """the expression `substitute(e, values)` returns (placeholders replaced by numbers, nothing
    simplified): the real `pymbolic.substitute` where it does exactly that, the literal
    replacement otherwise (substitution is not what C11 is about)"""
    def lit(t):
        if isinstance(t, p.Variable):
            return values.get(t.name, t)
        if isinstance(t, (p.Sum, p.Product)):
            return type(t)(tuple(lit(c) for c in t.children))
        if isinstance(t, p.Power):
            return p.Power(lit(t.base), lit(t.exponent))
        return t
    ref = lit(e)
    try:
        import pymbolic
        res = pymbolic.substitute(e, dict(values))
        if dumps(expr_to_sx(res)) == dumps(expr_to_sx(ref)):
            return res
    except RecursionError:
        raise
    except Exception:
        pass
    return ref


class CollapseGen:
    """nested sums / products / powers over two variables whose CONSTANT PARTS are drawn so that,
    with noticeable probability, they cancel to the neutral element of the node they stand in:
    a sum whose numbers add up to 0 collapses to its single other term, a product whose numbers
    multiply to 1 collapses to its single other factor, a product with a 0 collapses to a number,
    a power with exponent 1 (0) collapses to its base (to 1) -- and that term / factor / base is
    itself, more often than not, a node of the OTHER kind carrying a number of its own, so that
    the rewritten operand has a different class than the written one, next to a number one level
    up.  Neutral elements are also written as placeholders `z` (-> 0) and `k` (-> 1) that are
    substituted afterwards (`substitute(e, {z: 0, k: 1})` leaves `Sum((.., 0))` behind), and
    numbers occasionally as variable-free subexpressions."""

    def __init__(self, rng, halves=0.0, placeholders=0.25, nvars=2):
        self.rng = rng
        self.halves = halves
        self.placeholders = placeholders
        self.vars = VARS[:nvars]
        self.used_placeholder = False

    # numbers ---------------------------------------------------------------------------------
    def number(self):
        r = self.rng
        if r.random() < self.halves:
            return r.choice([HALF, HALF, -HALF, 1.5])
        return r.choice([-1, 0, 1, 2, 2, 3, -2, 4])

    def nonneutral(self):
        while True:
            c = self.number()
            if c not in (0, 1):
                return c

    def written(self, c, kind):
        """the number `c` as an operand of a node of class `kind`: itself, a placeholder when it
        is the neutral element, or a variable-free subexpression with that value"""
        r = self.rng
        k = r.random()
        if k < self.placeholders:
            if kind is p.Sum and c == 0:
                self.used_placeholder = True
                return p.Variable("z")
            if kind is p.Product and c == 1:
                self.used_placeholder = True
                return p.Variable("k")
        if k > 0.92 and isinstance(c, int):
            return r.choice([p.Sum((c - 1, 1)), p.Product((-1, -c)), p.Power(c, 1),
                             p.Sum((c, 0)), p.Product((1, c))])
        return c

    def summing_to(self, total):
        r = self.rng
        cs = [self.number() for _ in range(r.choice([0, 1, 1, 2]))]
        cs.append(total - sum(cs))
        return cs

    def multiplying_to_one(self):
        r = self.rng
        opts = [[1], [1], [-1, -1], [1, 1], [-1, 1, -1]]
        if self.halves:
            opts += [[2, HALF], [HALF, 2], [-2, -HALF], [4, HALF, HALF], [HALF, 2, 1]]
        return list(r.choice(opts))

    # terms -------------------------------------------------------------------------------------
    def var(self):
        return p.Variable(self.rng.choice(self.vars))

    def build(self, kind, body, numbers):
        ops = [body] + [self.written(c, kind) for c in numbers]
        self.rng.shuffle(ops)
        return kind(tuple(ops))

    def scaled(self, d):
        """a product carrying a number"""
        extra = [self.var()] if self.rng.random() < 0.3 else []
        ops = [self.nonneutral(), self.term(d - 1), *extra]
        self.rng.shuffle(ops)
        return p.Product(tuple(ops))

    def shifted(self, d):
        """a sum carrying a number"""
        extra = [self.var()] if self.rng.random() < 0.3 else []
        ops = [self.nonneutral(), self.term(d - 1), *extra]
        self.rng.shuffle(ops)
        return p.Sum(tuple(ops))

    def body(self, d, prefer):
        k = self.rng.random()
        if d <= 0 or k < 0.2:
            return self.var()
        if k < 0.75:
            return prefer(d)
        return self.term(d)

    def collapsing_sum(self, d):
        body = self.body(d - 1, self.scaled)
        if self.rng.random() < 0.12:
            return p.Sum((body,))
        return self.build(p.Sum, body, self.summing_to(0))

    def collapsing_product(self, d):
        body = self.body(d - 1, self.shifted)
        if self.rng.random() < 0.12:
            return p.Product((body,))
        return self.build(p.Product, body, self.multiplying_to_one())

    def collapsing_power(self, d):
        r = self.rng
        body = self.body(d - 1, r.choice([self.scaled, self.shifted]))
        return p.Power(body, r.choice([1, 1, 1, 2, 0]))

    def to_number(self, d):
        """a node with variables that rewrites to a number: a product with a factor 0, a power
        with exponent 0; or a variable-free node"""
        r = self.rng
        k = r.random()
        if k < 0.5:
            return self.build(p.Product, self.term(d - 1), [0] + ([self.number()] if k < 0.2 else []))
        if k < 0.7:
            return p.Power(self.term(d - 1), 0)
        return r.choice([p.Sum, p.Product])((self.number(), self.number()))

    def mixed(self, kind, d, numbers=0.4):
        r = self.rng
        ops = [self.term(d - 1)]
        for _ in range(r.randint(1, 3)):
            ops.append(self.written(self.number(), kind) if r.random() < numbers
                       else self.term(d - 1))
        r.shuffle(ops)
        return kind(tuple(ops))

    def term(self, d):
        r = self.rng
        if d <= 0:
            return self.var()
        k = r.random()
        if k < 0.12:
            return self.var()
        if k < 0.38:
            return self.collapsing_sum(d)
        if k < 0.64:
            return self.collapsing_product(d)
        if k < 0.74:
            return self.collapsing_power(d)
        if k < 0.82:
            return self.to_number(d)
        return self.mixed(r.choice([p.Sum, p.Product]), d)

    def gen(self, depth):
        """depth >= 2: a node with (mostly) a number among its operands and operands that change
        kind"""
        r = self.rng
        if r.random() < 0.1:
            return p.Power(self.gen(depth) if depth > 2 else self.term(depth - 1), r.choice([1, 2, 1, 0]))
        kind = r.choice([p.Sum, p.Product])
        ops = [self.term(depth - 1) for _ in range(r.choice([1, 1, 2, 3]))]
        if r.random() < 0.8:
            ops.append(self.nonneutral())
            if r.random() < 0.2:
                ops.append(self.written(self.number(), kind))
        r.shuffle(ops)
        return kind(tuple(ops))

    def expression(self, depth):
        """(expression, came out of a substitution?)"""
        self.used_placeholder = False
        e = self.gen(depth)
        if self.used_placeholder:
            return collapse_subst(e, {"z": 0, "k": 1}), True
        return e, False

    def collect_input(self):
        """a sum of multiplicative terms (what TermCollector documents as its input) in which
        like terms have coefficients that cancel and powers of one base have exponents that add
        up to 0 or 1"""
        r = self.rng
        monos = []
        for _ in range(r.randint(1, 3)):
            fs = []
            for v in r.sample(self.vars + ["a"], r.randint(1, 2)):
                es = r.choice([[1], [2], [1, 1], [2, -1], [1, -1], [3, -2], [0], [1, 0]])
                for ex in es:
                    fs.append(p.Variable(v) if ex == 1 and r.random() < 0.7
                              else p.Power(p.Variable(v), ex))
            monos.append(fs)
        terms = []
        for fs in monos:
            for c in (self.summing_to(r.choice([0, 0, 1, self.number()])) if r.random() < 0.7
                      else [self.number()]):
                ops = list(fs)
                r.shuffle(ops)
                if c != 1 or r.random() < 0.3:
                    ops.insert(r.randint(0, len(ops)), c)
                    if r.random() < 0.15:
                        ops.insert(r.randint(0, len(ops)), self.number())
                terms.append(ops[0] if len(ops) == 1 else p.Product(tuple(ops)))
        if r.random() < 0.3:
            terms.append(self.number())
        r.shuffle(terms)
        return p.Sum(tuple(terms))


COLLAPSE_ATOMS = [x, y, -1, 0, 1, 2, HALF]
COLLAPSE_NUMBERS = [-1, 0, 1, 2, HALF]


def two_level_shapes(skip_integer_only=False):
    """ALL two-level shapes over {x, y} x {-1, 0, 1, 2, 1/2}: a sum / product with a sum /
    product / power operand, a power of a sum / product.  (`skip_integer_only`: without the
    sum / product shapes that `small_shapes` already has, i.e. those without 1/2.)"""
    out = []
    for a, b, c in itertools.product(COLLAPSE_ATOMS, repeat=3):
        if skip_integer_only and not any(isinstance(t, float) for t in (a, b, c)):
            continue
        for outer, inner in itertools.product((p.Sum, p.Product), repeat=2):
            out.append(outer((a, inner((b, c)))))
            out.append(outer((inner((a, b)), c)))
    for a, b in itertools.product(COLLAPSE_ATOMS, repeat=2):
        for n in (0, 1, 2):
            for k in (p.Sum, p.Product):
                out.append(k((a, p.Power(b, n))))
                out.append(k((p.Power(a, n), b)))
                out.append(p.Power(k((a, b)), n))
    return out


def collapse_chains(numbers, carried=None):
    """three levels, the smallest shape in which an operand changes its class NEXT TO a number:
    outer(c1, mid) with mid = middle(inner, n) and inner = innermost(c2, x); `mid` rewrites to
    `inner` when n is neutral for `middle` (also written as a power with exponent 1), every
    operand order at the two upper levels; c1, c2 from `carried`, n from `numbers`"""
    out = []
    kinds = (p.Sum, p.Product)
    for k1, k3 in itertools.product(kinds, repeat=2):
        for c1, c2 in itertools.product(numbers if carried is None else carried, repeat=2):
            inner = k3((c2, x))
            mids = [p.Power(inner, 1)]
            for k2 in kinds:
                for n in numbers:
                    mids += [k2((inner, n)), k2((n, inner))]
                mids.append(k2((inner,)))
            for mid in mids:
                out.append(k1((c1, mid)))
                out.append(k1((mid, c1)))
    return out


def exact_tree(e, limit=1 << 24):
    """the tree with every float written as the Fraction it IS, or None when a float is not a
    small dyadic number (then nothing exact can be said about float arithmetic on it)"""
    if isinstance(e, bool) or isinstance(e, int):
        return e
    if isinstance(e, float):
        if e != e or e in (float("inf"), float("-inf")):
            return None
        f = Fraction(e)
        if abs(f.numerator) > limit or f.denominator > limit:
            return None
        return int(f) if f.denominator == 1 else f
    if isinstance(e, p.Variable):
        return e
    if isinstance(e, (p.Sum, p.Product)):
        cs = [exact_tree(c, limit) for c in e.children]
        return None if any(c is None for c in cs) else type(e)(tuple(cs))
    if isinstance(e, p.Power):
        b = exact_tree(e.base, limit)
        if b is None or not rf._is_int(e.exponent) or e.exponent < 0:
            return None
        return p.Power(b, e.exponent)
    return None


def number_operands(node):
    """how many operands of a Sum / Product are numbers (a constant in the sense of the
    property and of the existing scan: an int / float / complex, not a variable-free tree)"""
    return sum(1 for c in node.children if isinstance(c, (int, float, complex)))


def nodes_with_path(e, path=()):
    """independent walk: (path, node) for every node of a tree of sums, products, powers,
    quotients, CSE wrappers (the fragment) -- anything else through the generic field scan"""
    yield path, e
    if isinstance(e, (p.Sum, p.Product)):
        for i, c in enumerate(e.children):
            yield from nodes_with_path(c, (*path, i))
    elif isinstance(e, p.Power):
        yield from nodes_with_path(e.base, (*path, "base"))
        yield from nodes_with_path(e.exponent, (*path, "exponent"))
    elif isinstance(e, p.Quotient):
        yield from nodes_with_path(e.numerator, (*path, "numerator"))
        yield from nodes_with_path(e.denominator, (*path, "denominator"))
    elif isinstance(e, p.CommonSubexpression):
        yield from nodes_with_path(e.child, (*path, "child"))
    elif isinstance(e, p.Expression):
        from ..oracles.scan import children
        for i, c in enumerate(children(e)):
            yield from nodes_with_path(c, (*path, i))


def fold_nf_walk(res, commutative):
    """at most one constant operand in each folded sum (either folder) / product (commutative
    folder): (violation, path of the node) or None"""
    for path, s in nodes_with_path(res):
        if isinstance(s, p.Sum) or (commutative and isinstance(s, p.Product)):
            if number_operands(s) > 1:
                return "two-constants-in-" + type(s).__name__.lower(), path
    return None


def flatten_nf_walk(res):
    """no sum directly under a sum, no product directly under a product, neutral elements
    dropped (0 in a sum, 1 in a product; a 0 in a product is a product that should be 0)"""
    for path, s in nodes_with_path(res):
        if isinstance(s, p.Sum):
            for c in s.children:
                if isinstance(c, p.Sum):
                    return "sum-under-sum", path
                if isinstance(c, (int, float, complex)) and c == 0:
                    return "zero-in-sum", path
        if isinstance(s, p.Product):
            for c in s.children:
                if isinstance(c, p.Product):
                    return "product-under-product", path
                if isinstance(c, (int, float, complex)) and c == 1:
                    return "one-in-product", path
                if isinstance(c, (int, float, complex)) and c == 0:
                    return "zero-in-product", path
    return None

# }}}


# {{{ oracles shared by the streams

GRID = [Fraction(v) for v in (0, 1, -1, 2, -2, 3)] + [Fraction(1, 2), Fraction(-3, 2), Fraction(5, 3)]


def sample_points(rng_seed, names, n):
    import random
    r = random.Random(rng_seed)
    pts = [{v: Fraction(0) for v in names}, {v: Fraction(1) for v in names}]
    while len(pts) < n:
        pts.append({v: r.choice(GRID) for v in names})
    return pts


def value_failure(op, e, res):
    """exact value preservation on the rational fragment:
    (1) equal as rational functions (exact normal form, decides), and
    (2) wherever the input has a value (all points of a grid) the output has the same value."""
    try:
        fin = rf.ratfun(e)
    except (rf.NotRational, rf.TooBig):
        return None
    try:
        fout = rf.ratfun(res)
    except rf.TooBig:
        return None
    except rf.NotRational as ex:
        if rf.has_float(res) or contains_float(expr_to_sx(res)):
            return None
        return Failure(f"{op}-value", f"output leaves the rational fragment ({ex}): {res}")
    if fin[1]:      # the input is defined somewhere
        if not fout[1] or not rf.same_ratfun(fin, fout):
            return Failure(f"{op}-value", f"{e}  ->  {res}: different rational functions")
    names = sorted({v.name for v in rf.subterms(e) if isinstance(v, p.Variable)}
                   | {v.name for v in rf.subterms(res) if isinstance(v, p.Variable)})
    for pt in sample_points(len(str(e)), names, 12):
        vin = rf.rat_eval(e, pt)
        if vin is None:
            continue
        vout = rf.rat_eval(res, pt)
        if vout != vin:
            return Failure(f"{op}-value", f"{e}  ->  {res}: at {pt} input = {vin}, output = {vout}")
    return None


def general_value_failure(op, e, res, seed):
    """all node types: exact evaluation (Python semantics, exact division) in random
    environments; demanded only where the input evaluates without floats"""
    import random
    r = random.Random(seed)
    for _ in range(4):
        env = rand_env(r)
        try:
            vin = rf.xeval(e, env)
        except RecursionError:
            raise
        except Exception:
            continue
        if rf.has_float(vin):
            continue
        try:
            vout = rf.xeval(res, env)
        except RecursionError:
            raise
        except Exception as ex:
            return Failure(f"{op}-value", f"{e} -> {res}: input = {vin!r}, output raises "
                           f"{type(ex).__name__} in {env}")
        from ..oracles.pyeval import loosely_equal
        if rf.has_float(vout):
            continue
        if not loosely_equal(vin, vout):
            return Failure(f"{op}-value", f"{e} -> {res}: input = {vin!r}, output = {vout!r} in {env}")
    return None


def has_empty_seq_cse(e):
    return any(isinstance(s, p.CommonSubexpression) and isinstance(s.child, (tuple, list))
               and len(s.child) == 0 for s in rf.subterms(e))


def has_nested_power(e):
    return any(isinstance(s, p.Power) and isinstance(s.base, p.Power) for s in rf.subterms(e))


def n_terms(c):
    try:
        return len(rf.ratfun(c, allow_quotients=False)[0])
    except (rf.NotRational, rf.TooBig):
        return 2


def has_leading_factor_shape(e):
    """a product whose first factor that multiplies out to a sum (>= 2 monomials) is preceded by
    a factor other than 1 and followed by another such factor: the shape on which `dist` is known
    to stop early"""
    for s in rf.subterms(e):
        if isinstance(s, p.Product):
            ks = [n_terms(c) for c in s.children]
            sums = [i for i, k in enumerate(ks) if k >= 2]
            if len(sums) >= 2 and sums[0] > 0:
                lead = s.children[:sums[0]]
                if any(not (isinstance(c, int) and c == 1) for c in lead):
                    return True
    return False


def has_opaque_power_base(e):
    """a power whose base is itself a power, or a sum / product that multiplies out to a single
    monomial (so that the mapped base is a product or a power): TermCollector keeps such a base as
    an opaque dictionary key"""
    for s in rf.subterms(e):
        if isinstance(s, p.Power):
            b = s.base
            if isinstance(b, p.Power):
                return True
            if isinstance(b, (p.Sum, p.Product)) and n_terms(b) <= 1:
                return True
    return False


def expand_nf_key(e, v):
    """classification of a normal-form failure of expand: failures on the input shapes with a
    known cause get the key of that known finding, everything else the rule that failed"""
    if has_leading_factor_shape(e):
        return "expand-nf-sum-beneath-product"
    if v != "sum-beneath-product" and has_opaque_power_base(e):
        return "expand-nf-nested-power"
    return f"expand-nf-{v}"


def in_fragment(e, quotients=True):
    try:
        n, d = rf.ratfun(e, allow_quotients=quotients)
    except rf.NotRational:
        return False
    except rf.TooBig:
        return False
    if not d:           # defined nowhere
        return False
    return True


def has_cse(e):
    return any(isinstance(s, p.CommonSubexpression) for s in rf.subterms(e))


def collect_input_ok(e):
    """TermCollector documents that its argument 'has to be fully expanded already': sums of
    multiplicative terms (products of constants, variables, powers, quotients), no sum directly
    under a sum"""
    for s in rf.subterms(e):
        if isinstance(s, p.Sum) and any(isinstance(c, (p.Sum, p.CommonSubexpression))
                                        for c in s.children):
            return False
    return True

# }}}


class RewriteStream(Stream):
    """correspondence of output trees + value / non-failure / normal-form oracles"""
    name = "rewrites"
    ops = OPS
    n_quick = 2400
    all_nodes = False

    def gen_expr(self, rng, op, i):
        if op in ("flatten", "fold-plain", "fold-comm"):
            g = FragGen(rng, quotients=0.12, min_exp=-2, max_exp=3, cse=0.08)
            return g.gen(rng.randint(1, 4))
        if op == "collect":
            g = FragGen(rng, quotients=0.05 if i % 3 == 0 else 0.0, min_exp=-2, max_exp=3, zeros=0.1)
            terms = []
            for _ in range(rng.randint(1, 5)):
                fs = []
                for _ in range(rng.randint(1, 3)):
                    k = rng.random()
                    if k < 0.55:
                        fs.append(p.Variable(rng.choice(VARS + ["a"])))
                    elif k < 0.75:
                        fs.append(rng.randint(-3, 4))
                    elif k < 0.9:
                        fs.append(p.Power(p.Variable(rng.choice(VARS)), rng.randint(-2, 3)))
                    else:
                        fs.append(g.gen(2))
                terms.append(fs[0] if len(fs) == 1 and rng.random() < 0.7 else p.Product(tuple(fs)))
            e = p.Sum(tuple(terms))
            if rng.random() < 0.2:
                e = p.Product((e, g.gen(1)))
            return e
        # expand
        k = i % 4
        if k == 0:
            g = FragGen(rng, quotients=0.15, min_exp=-2, max_exp=3, cse=0.03)
        else:
            g = FragGen(rng, quotients=0.0, min_exp=1, max_exp=3)
        return g.gen(rng.randint(1, 3 if k else 4))

    def cases(self, rng, tier):
        n = self.n_quick if tier == "quick" else self.n_quick * 12
        for i in range(n):
            op = self.ops[i % len(self.ops)]
            e = self.gen_expr(rng, op, i)
            params = []
            if op in ("collect", "expand") and rng.random() < 0.2:
                params = rng.sample(["a", "x", "y"], rng.randint(1, 2))
            yield {"op": op, "expr": dumps(expr_to_sx(e)), "params": params}
        if not self.all_nodes:
            for e in small_shapes():
                for op in ("flatten", "fold-plain", "fold-comm", "expand"):
                    yield {"op": op, "expr": dumps(expr_to_sx(e)), "params": []}
            for e in expand_shapes():
                for op in ("expand", "expand-nocomm", "collect", "fold-comm"):
                    yield {"op": op, "expr": dumps(expr_to_sx(e)), "params": []}

    def request(self, pl):
        op, e = pl["op"], pl["expr"]
        ps = " ".join(dumps(expr_to_sx(p.Variable(v))) for v in pl["params"])
        if op == "flatten":
            return f"(flatten {e})"
        if op == "fold-plain":
            return f"(fold plain {e})"
        if op == "fold-comm":
            return f"(fold comm {e})"
        if op == "collect":
            return f"(collect ({ps}) {e})"
        if op == "expand":
            return f"(expand ({ps}) {e})"
        return f"(expand nocomm {e})"

    def _run(self, pl):
        e = sx_to_expr(loads(pl["expr"]))
        try:
            return e, run_op(pl["op"], e, pl["params"]), None
        except RecursionError:
            raise
        except Exception as ex:
            return e, None, ex

    def run_impl(self, pl):
        _e, res, ex = self._run(pl)
        if ex is not None:
            return err_sx(ex)
        s = expr_to_sx(res)
        if pl["op"] in ORDER_FREE:
            s = canon_sx(s)
        return dumps(s)

    def agree(self, model, impl, pl):
        if "(noclaim)" in model or model == "(err Fuel)":
            return "trivial"        # the model abstains (floats, ..., or its fuel ran out)
        if pl["op"] in ORDER_FREE and not model.startswith("(err") and not model.startswith("(bad"):
            msx = canon_sx(loads(model))
            model = dumps(msx)
            if model != impl and not impl.startswith("(err"):
                # Known finding expand-nf-sum-beneath-product: once `dist` has left a sum beneath
                # a product with another non-constant factor, TermCollector keys that product by a
                # frozenset with two entries and rebuilds it in hash order; whether the sum comes
                # first decides if a later `dist` pass multiplies it out.  The degree of expansion
                # of the real output then depends on PYTHONHASHSEED and no deterministic model can
                # mirror it: the model abstains.
                if order_sensitive(msx) or order_sensitive(loads(impl)):
                    return "trivial"
        return "ok" if model == impl else "diff"

    def oracle(self, pl):
        op = pl["op"]
        e, res, ex = self._run(pl)
        frag = in_fragment(e)
        if ex is not None:
            # "they do not fail on inputs of their fragment"
            if not frag:
                return None
            if op == "collect" and not collect_input_ok(e):
                return None
            if op in ORDER_FREE and has_cse(e):
                return None         # CSE wrappers are not part of the polynomial/rational fragment
            if isinstance(ex, ZeroDivisionError):
                return None         # a constant subterm divides by zero: the input has no value
            # the known RuntimeError findings are about quotient terms; anything else is new
            where = "" if any(isinstance(t, p.Quotient) for t in rf.subterms(e)) else "-without-quotient"
            return Failure(f"{op}-raises-{type(ex).__name__}{where}",
                           f"{e}: {type(ex).__name__}: {ex}", pl)
        if frag:
            f = value_failure(op, e, res)
        else:
            f = general_value_failure(op, e, res, len(pl["expr"]))
            if f is not None and has_empty_seq_cse(e):
                f.key = "cse-empty-sequence-collapses"
        if f is not None:
            f.payload = pl
            return f
        if contains_float(expr_to_sx(res)):
            return None
        if op == "flatten":
            v = rf.flatten_nf_violation(res)
            if v:
                return Failure(f"flatten-nf-{v}", f"{e} -> {res}", pl)
        if op in ("fold-plain", "fold-comm"):
            # every Sum of the result (and every Product, commutative folder) is a folded one
            v = rf.fold_nf_violation(res, op == "fold-comm")
            if v:
                return Failure(f"fold-nf-{v}", f"{e} -> {res}", pl)
        if op == "expand" and not pl["params"] and rf.is_polynomial_expr(e):
            try:
                v = rf.expand_nf_violation(res)
            except rf.TooBig:
                v = None
            except rf.NotRational:
                v = "term-not-polynomial"
            if v:
                return Failure(expand_nf_key(e, v), f"{e} -> {res}", pl)
        return None

    def shrink(self, pl):
        for s in sx_shrinks(loads(pl["expr"])):
            yield {**pl, "expr": dumps(s)}
        if pl["params"]:
            yield {**pl, "params": []}

    def nontrivial_key(self, pl, model, impl):
        return pl["op"] + pl["expr"] if (not impl.startswith("(err") and impl != pl["expr"]) else None

    def stats(self, pl, mo, io, acc):
        d = acc.setdefault(pl["op"], {"n": 0, "changed": 0, "errors": 0, "floats": 0})
        d["n"] += 1
        if io.startswith("(err"):
            d["errors"] += 1
            k = acc.setdefault("error_kinds", {})
            k[io] = k.get(io, 0) + 1
        elif io != pl["expr"]:
            d["changed"] += 1
        if "Flt" in io:
            d["floats"] += 1


class CollapseStream(RewriteStream):
    """NORMAL-FORM clauses on operands that change kind while they are rewritten (a sum collapsing
    to its single non-constant term, a product to one factor, a power to its base, a node with
    variables to a number) next to a number one level up: the directed family `CollapseGen`
    (depth 2-4, placeholders substituted by 0 / 1, numbers incl. 1/2 = 0.5) under all six rewrites,
    plus, exhaustively, every two-level shape over {x, y} x {-1, 0, 1, 2, 1/2} and every
    three-level collapse chain over these numbers.  Correspondence as in `rewrites` (the model
    abstains on floats); oracles: the parent's (value, non-failure, scans), the value clause on
    inputs with exactly representable floats (decided over the rationals they are), and the
    normal-form clauses of flatten / fold by an independent walk, floats or not."""
    name = "rewrites-collapsing"
    n_quick = 1500
    nf_ops = ("flatten", "fold-plain", "fold-comm")

    def cases(self, rng, tier):
        n = self.n_quick if tier == "quick" else self.n_quick * 12
        for i in range(n):
            op = OPS[i % len(OPS)]
            g = CollapseGen(rng, halves=0.3 if i % 3 == 0 else 0.0,
                            placeholders=0.35 if i % 2 else 0.0)
            if op == "collect" and rng.random() < 0.7:
                e, via = g.collect_input(), False
            else:
                deep = op in self.nf_ops
                e, via = g.expression(rng.choice([2, 2, 3, 3, 4] if deep else [2, 2, 3]))
            yield {"op": op, "expr": dumps(expr_to_sx(e)), "params": [],
                   "via": "substitute" if via else "written"}
        quick = tier == "quick"
        # (the integer-only sum / product shapes run in `rewrites`: small_shapes, same oracles)
        for e in two_level_shapes(skip_integer_only=True):
            for op in (*self.nf_ops, "expand"):
                yield {"op": op, "expr": dumps(expr_to_sx(e)), "params": []}
        # quick: the numbers carried at the outer and the innermost level are not neutral there
        for e in collapse_chains(COLLAPSE_NUMBERS, carried=[-1, 2, HALF] if quick else None):
            for op in self.nf_ops if quick else (*self.nf_ops, "expand", "expand-nocomm"):
                yield {"op": op, "expr": dumps(expr_to_sx(e)), "params": []}

    _memo = (None, None)

    def _run(self, pl):
        key = (pl["op"], pl["expr"], tuple(pl["params"]))
        if self._memo[0] != key:
            self._memo = (key, super()._run(pl))
        return self._memo[1]

    def oracle(self, pl):
        op = pl["op"]
        e, res, ex = self._run(pl)
        if not contains_float(loads(pl["expr"])):
            f = super().oracle(pl)
            if f is not None or ex is not None:
                return f
        else:
            # floats that ARE small dyadic rationals: the clauses are decided on the rationals
            ee = exact_tree(e)
            if ex is not None:
                if ee is None or not in_fragment(ee) or isinstance(ex, ZeroDivisionError):
                    return None
                if op == "collect" and not collect_input_ok(e):
                    return None
                return Failure(f"{op}-raises-{type(ex).__name__}-without-quotient",
                               f"{e}: {type(ex).__name__}: {ex}", pl)
            er = exact_tree(res)
            if ee is not None and er is not None and in_fragment(ee):
                f = self.exact_value_failure(op, e, res, ee, er)
                if f is not None:
                    f.payload = pl
                    return f
        # the normal-form clauses: counting / class tests only, independent walk
        if op == "flatten":
            v = flatten_nf_walk(res)
            if v:
                return Failure(f"flatten-nf-{v[0]}", f"{e!r} -> {res!r}: at {list(v[1])}", pl)
        if op in ("fold-plain", "fold-comm"):
            v = fold_nf_walk(res, op == "fold-comm")
            if v:
                return Failure(f"fold-nf-{v[0]}", f"{e!r} -> {res!r}: at {list(v[1])}", pl)
        return None

    @staticmethod
    def exact_value_failure(op, e, res, ee, er):
        """`value_failure` for trees whose floats are small dyadic rationals (`ee`, `er`: the same
        trees with those floats written as Fractions; polynomial fragment, no division)"""
        try:
            fin, fout = rf.ratfun(ee), rf.ratfun(er)
            if not rf.same_ratfun(fin, fout):
                return Failure(f"{op}-value", f"{e!r}  ->  {res!r}: different polynomials")
        except (rf.NotRational, rf.TooBig):
            return None
        return None

    def stats(self, pl, mo, io, acc):
        super().stats(pl, mo, io, acc)
        if "via" not in pl:
            return
        acc[pl["via"]] = acc.get(pl["via"], 0) + 1
        if pl["op"] not in self.nf_ops:
            return
        # how often the family does what it is for: an operand of the root that is rewritten to
        # another class while the root holds a number
        e = sx_to_expr(loads(pl["expr"]))
        if not isinstance(e, (p.Sum, p.Product)) or number_operands(e) == 0:
            return
        for c in e.children:
            if isinstance(c, p.Expression):
                try:
                    r = run_op(pl["op"], c)
                except RecursionError:
                    raise
                except Exception:
                    continue
                if type(r) is not type(c):
                    k = f"{type(c).__name__}->{type(r).__name__ if isinstance(r, p.Expression) else 'number'}"
                    d = acc.setdefault("operand_changed_kind", {})
                    d[k] = d.get(k, 0) + 1
                    if isinstance(r, (p.Sum, p.Product)) and number_operands(r):
                        acc["number_at_both_levels"] = acc.get("number_at_both_levels", 0) + 1


# {{{ directed family: sparse polynomials written term by term

class SparseGen:
    """polynomial expressions made of SPARSE polynomials written term by term: every term is a
    monomial `c * v1**k1 * v2**k2 ...` whose coefficient is an arbitrary small integer (a sign, 1
    left out or written), whose powers are written as a variable, a literal power, or split into
    several factors of one base, and which may carry BOUNDARY factors `v**0` (and `v**1`) of
    variables it does not otherwise contain.  Shapes: a power (exponent 0 .. 4) of a sum of 2-3
    such monomials, products of 2-3 such sums, a sum times the square of a sum, sums of these --
    and, for the like-term clause, any of these PLUS like terms of its own expansion (some, or all
    of them negated so that everything cancels)."""

    def __init__(self, rng, zero_exp=0.15, nvars=3):
        self.rng = rng
        self.zero_exp = zero_exp
        self.vars = VARS[:nvars]

    def coefficient(self):
        return self.rng.choice([1, 1, 1, -1, -1, 2, 2, -2, 3, -3, 4])

    def power(self, v, k):
        r = self.rng
        if k == 1 and r.random() < 0.8:
            return [p.Variable(v)]
        if k >= 2 and r.random() < 0.15:
            j = r.randint(1, k - 1)
            return self.power(v, j) + self.power(v, k - j)
        return [p.Power(p.Variable(v), k)]

    def power_product(self):
        r = self.rng
        vs = r.sample(self.vars, min(len(self.vars), r.choice([0, 1, 1, 1, 2, 2, 3])))
        return [(v, r.choice([1, 1, 2, 2, 3])) for v in vs]

    def monomial(self, c=None, mono=None):
        r = self.rng
        if c is None:
            c = self.coefficient()
        if mono is None:
            mono = self.power_product()
        fs = []
        for v, k in mono:
            fs += self.power(v, k)
        for v in self.vars:
            if r.random() < self.zero_exp and all(v != w for w, _ in mono):
                fs.append(p.Power(p.Variable(v), 0))
        r.shuffle(fs)
        if c != 1 or not fs or r.random() < 0.1:
            fs.insert(r.choice([0, 0, len(fs)]), c)
        return fs[0] if len(fs) == 1 and r.random() < 0.9 else p.Product(tuple(fs))

    def sparse(self, n):
        ts = [self.monomial() for _ in range(n)]
        return ts[0] if n == 1 and self.rng.random() < 0.5 else p.Sum(tuple(ts))

    def shape(self, d=1):
        r = self.rng
        k = r.random()
        if k < 0.45:
            return p.Power(self.sparse(r.choice([2, 2, 2, 3])), r.choice([0, 1, 2, 2, 2, 3, 3, 4]))
        if k < 0.7:
            return p.Product(tuple(self.sparse(r.choice([1, 2, 2, 3]))
                                   for _ in range(r.choice([2, 2, 3]))))
        if k < 0.8:
            return p.Product((self.sparse(2), p.Power(self.sparse(2), 2)))
        if k < 0.9 and d > 0:
            return p.Sum((*(self.shape(d - 1) for _ in range(2)), self.monomial()))
        return self.sparse(r.choice([2, 3, 4]))

    def like_terms(self, e, how):
        """like terms of the polynomial `e` denotes, written afresh: `how` = "some" (1-2 of its
        monomials with the negated or another coefficient) or "all" (minus every term of it)"""
        r = self.rng
        n, _d = rf.ratfun(e, allow_quotients=False)
        ms = sorted(n.items()) or [((), Fraction(1))]
        if how == "all":
            out = [self.monomial(c=int(-c), mono=list(m)) for m, c in ms]
            r.shuffle(out)
            return out
        out = []
        for _ in range(r.choice([1, 1, 2])):
            m, c = r.choice(ms)
            out.append(self.monomial(c=r.choice([int(-c), int(-c), self.coefficient()]),
                                     mono=list(m)))
        return out

    def expression(self, like=None):
        e = self.shape()
        if like is not None:
            try:
                e = p.Sum((e, *self.like_terms(e, like)))
            except rf.TooBig:
                pass
        return e


def binomial_shapes():
    """ALL powers 2, 3 of a two-term sum whose terms are drawn from a small set of monomials with
    a coefficient / sign and a power among the factors, and the same with one like term of the
    expansion's highest monomials next to it"""
    x2, y3 = p.Power(x, 2), p.Power(y, 3)
    monos = [1, x, y, x2, p.Product((2, x2)), p.Product((-1, y3)), p.Product((x2, y)),
             p.Product((3, x, y)), p.Product((p.Power(x, 0), y))]
    out = []
    for a, b in itertools.permutations(monos, 2):
        for n in (2, 3):
            e = p.Power(p.Sum((a, b)), n)
            out.append(e)
            for t in (a, b):
                # minus t**n, written as ONE monomial (exact arithmetic of the reference)
                tn, _d = rf.ratfun(p.Power(t, n), allow_quotients=False)
                out.append(p.Sum((e, rf.poly_to_expr(rf.p_mul(rf.p_const(-1), tn)))))
    return out


def term_factors(r):
    """the terms of an expanded result, each as the sorted list of its factors (as text): terms
    are compared up to the order of their factors and of the terms"""
    ts = r.children if isinstance(r, p.Sum) else (r,)
    return sorted(sorted(dumps(expr_to_sx(f)) for f in
                         (t.children if isinstance(t, p.Product) else (t,))) for t in ts)


def zero_power_of_sum(res):
    return any(isinstance(s, p.Power) and rf._is_int(s.exponent) and s.exponent == 0
               and any(isinstance(t, p.Sum) for t in rf.subterms(s.base))
               for s in rf.subterms(res))


class SparseExpandStream(RewriteStream):
    """`expand` on the family `SparseGen` (+ all small binomial powers): correspondence as in
    `rewrites`; oracles: the parent's (value decided exactly, non-failure), the normal-form clause
    on polynomial expressions INCLUDING the boundary exponent 0 (no sum beneath a product / integer
    power, every term one monomial, like terms merged: inputs carrying like terms of their own
    expansion must come back with them merged / cancelled), and the last clause literally: the
    input and the term-by-term written expansion of the same polynomial (independent exact
    arithmetic) expand to sums with EQUAL TERM MULTISETS, terms compared as written (up to the
    order of factors and terms)."""
    name = "expand-sparse-polynomials"
    ops = ("expand",)
    all_nodes = True        # (no extra fixed shapes from the parent)

    def cases(self, rng, tier):
        n = 700 if tier == "quick" else 9000
        for i in range(n):
            g = SparseGen(rng, zero_exp=0.15 if i % 2 else 0.0, nvars=3 if i % 4 else 2)
            e = g.expression(like=(None, "some", "all", None, "some")[i % 5])
            yield {"op": "expand", "expr": dumps(expr_to_sx(e)), "params": [], "family": "sparse"}
        shapes = binomial_shapes()
        if tier == "quick":
            shapes = rng.sample(shapes, 150)
        for e in shapes:
            yield {"op": "expand", "expr": dumps(expr_to_sx(e)), "params": [], "family": "binomial"}

    _memo = (None, None)

    def _run(self, pl):
        key = (pl["op"], pl["expr"], tuple(pl["params"]))
        if self._memo[0] != key:
            self._memo = (key, super()._run(pl))
        return self._memo[1]

    def oracle(self, pl):
        f = super().oracle(pl)
        e, res, ex = self._run(pl)
        if f is not None or ex is not None:
            return f
        if not rf.is_polynomial_expr(e, min_exp=0):
            return None
        try:
            v = rf.expand_nf_violation(res)
        except rf.TooBig:
            return None
        except rf.NotRational:
            v = "term-not-polynomial"
        if v == "sum-beneath-power" and zero_power_of_sum(res):
            return Failure("expand-nf-sum-beneath-zero-power", f"{e} -> {res}", pl)
        if v:
            return Failure(expand_nf_key(e, v), f"{e} -> {res}", pl)
        # equal polynomials -> equal term multisets: against the expansion written term by term
        try:
            n, _d = rf.ratfun(e, allow_quotients=False)
        except (rf.TooBig, rf.NotRational):
            return None
        q = rf.poly_to_expr(n)
        try:
            rq = run_op("expand", q)
        except RecursionError:
            raise
        except Exception as exq:
            return Failure(f"expand-raises-{type(exq).__name__}-on-polynomial", f"{q}: {exq}", pl)
        try:
            same = rf.term_multiset(res) == rf.term_multiset(rq)
        except (rf.TooBig, rf.NotRational):
            return None
        if same and isinstance(res, p.Sum) and isinstance(rq, p.Sum):
            # (a result that is no sum never went through term collection: a lone term such as
            # y*y is returned as written, see the known finding expand-nf-zero-term)
            same = term_factors(res) == term_factors(rq)
        if not same:
            key = "expand-equal-polys-differ"
            if has_leading_factor_shape(e):
                key = "expand-nf-sum-beneath-product"
            elif has_opaque_power_base(e):
                key = "expand-nf-nested-power"
            return Failure(key, f"{e} -> {res!r}  but  {q} -> {rq!r}", pl)
        return None

    def stats(self, pl, mo, io, acc):
        super().stats(pl, mo, io, acc)
        fam = pl.get("family", "?")
        acc[fam] = acc.get(fam, 0) + 1
        if "(Int 0))" in pl["expr"]:
            acc["with_zero_exponent"] = acc.get("with_zero_exponent", 0) + 1

# }}}


# {{{ directed family: non-ring nodes whose operands are / become neutral elements

#: deterministic evaluation points: rationals that are not integers for x, y, z (and integers,
#: zeros, ones, signs), integers for i, j, both truth values for b, c
NEUTRAL_POINTS = [
    {"x": Fraction(1, 2), "y": Fraction(-7, 3), "z": Fraction(5, 4), "i": 2, "j": -3, "b": True, "c": False},
    {"x": 3, "y": -2, "z": 1, "i": 0, "j": 1, "b": False, "c": True},
    {"x": Fraction(-3, 2), "y": Fraction(5, 3), "z": 2, "i": -1, "j": 4, "b": True, "c": True},
    {"x": 0, "y": 1, "z": Fraction(1, 2), "i": 5, "j": 0, "b": False, "c": False},
    {"x": Fraction(7, 2), "y": Fraction(1, 3), "z": Fraction(-1, 4), "i": 1, "j": 2, "b": False, "c": True},
    {"x": -1, "y": 0, "z": -1, "i": -4, "j": -1, "b": True, "c": False},
    {"x": 1, "y": Fraction(9, 4), "z": 0, "i": 3, "j": 3, "b": True, "c": True},
]


def neutral_forms(value, rng=None):
    """ways of writing 0 / 1 / -1 as an operand: the literal, and small trees that flattening (or
    folding) turns into it"""
    if value == 1:
        forms = [1, p.Product((1, 1)), p.Sum((0, 1)), p.Sum((1, p.Sum((0, 0)))), p.Product((1,)),
                 p.Product(()), p.Sum((2, -1)), p.Product((-1, -1))]
    elif value == 0:
        forms = [0, p.Sum((0, 0)), p.Sum(()), p.Product((1, 0)), p.Sum((0,)),
                 p.Product((0, x)), p.Sum((1, -1))]
    else:
        forms = [-1, p.Product((-1, 1)), p.Sum((0, -1)), p.Sum((-1,)), p.Sum((1, -2))]
    return forms if rng is None else rng.choice(forms)


NEUTRAL_PLAIN = [x, y, 2, 3, p.Sum((x, p.Sum((y, 0)))), p.Product((x, p.Product((1, y)))), 5,
                 p.Product((1, 3)), p.Sum((y, 0))]

BINARY_NODES = (p.Quotient, p.FloorDiv, p.Remainder, p.Power)


def neutral_contexts(node):
    return [node, p.Sum((node, p.Sum((y, 0)))), p.Product((2, p.Product((node, 1))))]


def neutral_shapes(quick):
    """every binary node of {/, //, %, **} x operand pairs in which at least one side is / becomes
    0, 1 or -1 (all written forms on the right, the literal and two forms on the left), bare and
    inside a sum / a product that is itself flattened"""
    out = []
    for cls in BINARY_NODES:
        for v in (1, 0, -1):
            forms = neutral_forms(v)
            for a in NEUTRAL_PLAIN[:5] if quick else NEUTRAL_PLAIN:
                for nf in forms:
                    out += neutral_contexts(cls(a, nf))
                for nf in forms[:3]:
                    out += neutral_contexts(cls(nf, a))
            for nf in forms[:3]:
                for w in (1, 0, -1):
                    out.append(cls(nf, neutral_forms(w)[1]))
    return out


class NeutralGen:
    """random trees over ALL operator nodes (/, //, %, **, shifts, bitwise, min / max, comparisons,
    conditionals, logical connectives, calls, CSE wrappers) in which operands are, with high
    probability, written neutral elements (0, 1, -1 as literals or as trees that flatten / fold to
    them) -- the operands a 'drop the neutral element' rule would look at -- over rational
    variables x, y, z, integer variables i, j and boolean variables b, c"""

    def __init__(self, rng):
        self.rng = rng

    def neutral(self):
        return neutral_forms(self.rng.choice([1, 1, 0, 0, -1]), self.rng)

    def num(self, d):
        r = self.rng
        k = r.random()
        if d <= 0 or k < 0.25:
            return r.choice([x, y, z, x, y, 2, 3, -2])
        if k < 0.45:
            return self.neutral()
        if k < 0.6:
            return r.choice([p.Sum, p.Product])(tuple(self.num(d - 1) for _ in range(r.randint(1, 3))))
        return self.node(d)

    def intval(self, d):
        r = self.rng
        k = r.random()
        if d <= 0 or k < 0.4:
            return r.choice([p.Variable("i"), p.Variable("j"), 2, 1, 0, 3])
        if k < 0.7:
            return self.neutral()
        return r.choice([p.Sum, p.Product])((self.intval(d - 1), self.intval(d - 1)))

    def node(self, d):
        r = self.rng
        k = r.choice(["quot", "floordiv", "rem", "floordiv", "rem", "pow", "shift", "bit", "minmax",
                      "cmp", "if", "logic", "call", "cse"])
        a = self.num(d - 1)
        b = self.neutral() if r.random() < 0.6 else self.num(d - 1)
        if r.random() < 0.25:
            a, b = b, a
        if k == "quot":
            return p.Quotient(a, b)
        if k == "floordiv":
            return p.FloorDiv(a, b)
        if k == "rem":
            return p.Remainder(a, b)
        if k == "pow":
            return p.Power(a, r.choice([0, 1, 2, -1]) if r.random() < 0.6 else self.neutral())
        if k == "shift":
            return r.choice([p.LeftShift, p.RightShift])(self.intval(d - 1), r.choice(
                [0, 1, self.neutral(), self.intval(d - 1)]))
        if k == "bit":
            return r.choice([p.BitwiseOr, p.BitwiseAnd, p.BitwiseXor])(
                (self.intval(d - 1), r.choice([0, -1, 1, self.neutral()])))
        if k == "minmax":
            return r.choice([p.Min, p.Max])((a, b))
        if k == "cmp":
            return p.Comparison(a, r.choice(["<", "<=", "==", "!=", ">", ">="]), b)
        if k == "if":
            return p.If(r.choice([p.Variable("b"), p.Comparison(a, "<", b), self.neutral()]),
                        self.num(d - 1), self.num(d - 1))
        if k == "logic":
            return r.choice([p.LogicalOr, p.LogicalAnd])(
                (r.choice([p.Variable("b"), p.Variable("c"), self.neutral()]),
                 p.Comparison(a, "<=", b)))
        if k == "call":
            return p.Call(p.Variable("f"), (a, b))
        return p.CommonSubexpression(p.FloorDiv(a, b) if r.random() < 0.5 else p.Remainder(a, b))

    def gen(self, depth):
        e = self.node(depth)
        k = self.rng.random()
        if k < 0.2:
            return p.Sum((e, self.neutral(), self.num(1)))
        if k < 0.4:
            return p.Product((self.num(1), e, self.neutral()))
        return e


def neutral_env(pt):
    from ..gen import Func
    env = dict(pt)
    env["f"] = Func("f")
    env["g"] = Func("g")
    return env


def point_value_failure(op, e, res, points=NEUTRAL_POINTS):
    """value preservation at the given points: exact evaluation with Python's own operators on
    int / bool / Fraction (`rf.xeval`); demanded wherever the input has an exact value"""
    from ..oracles.pyeval import loosely_equal
    for pt in points:
        env = neutral_env(pt)
        try:
            vin = rf.xeval(e, env)
        except RecursionError:
            raise
        except Exception:
            continue
        if rf.has_float(vin):
            continue
        shown = {k: str(v) for k, v in pt.items()}
        try:
            vout = rf.xeval(res, env)
        except RecursionError:
            raise
        except Exception as ex:
            return Failure(f"{op}-value", f"{e} -> {res}: input = {vin!r}, output raises "
                           f"{type(ex).__name__} at {shown}")
        if rf.has_float(vout):
            continue
        if not loosely_equal(vin, vout):
            return Failure(f"{op}-value", f"{e} -> {res}: input = {vin!r}, output = {vout!r} at {shown}")
    return None


class NeutralOperandStream(RewriteStream):
    """flatten and both folders on operator nodes OUTSIDE the ring operations whose operands are /
    become neutral elements (`neutral_shapes`: exhaustive for / // % **; `NeutralGen`: all
    operator nodes, nested): the value clause 'for all node types, all environments' judged at
    rational points that are NOT integers (x // 1 = x, x % 1 = 0, x // -1 = -x hold on the integers
    only), at integers, zeros and signs, with Python's own operators on int / bool / Fraction as
    the reference; normal-form clauses and correspondence as in `rewrites-all-node-types`."""
    name = "rewrites-neutral-operands"
    ops = ("flatten", "fold-plain", "fold-comm")
    all_nodes = True

    def cases(self, rng, tier):
        quick = tier == "quick"
        for e in neutral_shapes(quick):
            for op in (("flatten",) if quick else self.ops):
                yield {"op": op, "expr": dumps(expr_to_sx(e)), "params": [], "family": "shapes"}
        n = 900 if quick else 12000
        for i in range(n):
            g = NeutralGen(rng)
            e = g.gen(rng.choice([1, 2, 2, 3]))
            yield {"op": self.ops[i % 3], "expr": dumps(expr_to_sx(e)), "params": [],
                   "family": "random"}

    _memo = (None, None)

    def _run(self, pl):
        key = (pl["op"], pl["expr"], tuple(pl["params"]))
        if self._memo[0] != key:
            self._memo = (key, super()._run(pl))
        return self._memo[1]

    def oracle(self, pl):
        f = super().oracle(pl)
        e, res, ex = self._run(pl)
        if f is not None or ex is not None:
            return f
        f = point_value_failure(pl["op"], e, res)
        if f is not None:
            if has_empty_seq_cse(e):
                f.key = "cse-empty-sequence-collapses"
            f.payload = pl
        return f

    def stats(self, pl, mo, io, acc):
        super().stats(pl, mo, io, acc)
        fam = pl.get("family", "?")
        acc[fam] = acc.get(fam, 0) + 1

# }}}


class AllNodesStream(RewriteStream):
    """flatten and both folders on every node type (type-directed generator, no floats)"""
    name = "rewrites-all-node-types"
    ops = ("flatten", "fold-plain", "fold-comm")
    n_quick = 1500
    all_nodes = True

    def gen_expr(self, rng, op, i):
        g = ExprGen(rng, floats=0.0, cse=0.1, malformed=0.02)
        e = g.gen(rng.choice(["num", "num", "num", "any", "int", "bool"]), rng.randint(1, 4))
        if not isinstance(e, p.Expression):
            e = p.Sum((e, p.Variable("x")))
        return e

    def stats(self, pl, mo, io, acc):
        super().stats(pl, mo, io, acc)
        nt = acc.setdefault("node_types", {})
        for k, v in node_types(sx_to_expr(loads(pl["expr"]))).items():
            nt[k] = nt.get(k, 0) + v


class TableRewriteStream(RewriteStream):
    """T-gen tie: the compiled TABLE INTERPRETER (lean/PV/Model/RewriteTable.lean) run on the tables
    regenerated from the source on this run (lean/PV/Generated/Rewrite.lean: every method body of
    the rewriting mappers statement by statement; lean/PV/Generated/Traversal.lean: the inherited
    IdentityMapper rows) against the real entry points.  This is what gives the table language its
    meaning and checks the reader extract/rewrite.py: after a source edit the regenerated table
    changes, the `*_table_current` obligations break, and this stream still has to agree with the
    edited code.  (The oracle runs in the `rewrites` stream.)"""
    name = "table-rewrites"
    n_quick = 900

    def request(self, pl):
        return "(c11t " + super().request(pl)[1:]

    def oracle(self, pl):
        return None

    def shrink(self, pl):
        return iter(())


class TableAllNodesStream(AllNodesStream):
    """the same for flatten / both folders on every node type (inherited handlers = C04 rows)"""
    name = "table-rewrites-all-node-types"
    n_quick = 450

    def request(self, pl):
        return "(c11t " + super().request(pl)[1:]

    def oracle(self, pl):
        return None

    def shrink(self, pl):
        return iter(())


class ValidatedExpandStream(Stream):
    """translation validation: the VERIFIED normal form `polyNorm` (theorem
    `polyNorm_sound`) is run by the Lean driver on (input, output of the real `expand`); equal
    normal forms prove that this output equals this input in every environment"""
    name = "expand-validated-by-polyNorm"

    def cases(self, rng, tier):
        n = 500 if tier == "quick" else 8000
        for i in range(n):
            g = FragGen(rng, quotients=0.0, min_exp=0 if i % 5 == 0 else 1, max_exp=3,
                        cse=0.05 if i % 7 == 0 else 0.0)
            e = g.gen(rng.randint(1, 4))
            yield {"expr": dumps(expr_to_sx(e)), "op": rng.choice(["expand", "flatten", "fold-comm"])}

    def _out(self, pl):
        e = sx_to_expr(loads(pl["expr"]))
        try:
            return run_op(pl["op"], e)
        except RecursionError:
            raise
        except Exception:
            return None

    def request(self, pl):
        res = self._out(pl)
        if res is None:
            return "(polyeq (Var \"x\") (Var \"x\"))"
        return f"(polyeq {pl['expr']} {dumps(expr_to_sx(res))})"

    def run_impl(self, pl):
        return "true"

    def agree(self, model, impl, pl):
        if model == "(none)":
            return "trivial"
        return "ok" if model == "true" else "diff"

    def oracle(self, pl):
        # the independent exact comparison (same decision, different implementation)
        e = sx_to_expr(loads(pl["expr"]))
        res = self._out(pl)
        if res is None:
            if has_cse(e):
                return None
            return Failure(f"{pl['op']}-raises-on-polynomial", f"{e}", pl)
        f = value_failure(pl["op"], e, res)
        if f is not None:
            f.payload = pl
        return f

    def shrink(self, pl):
        for s in sx_shrinks(loads(pl["expr"])):
            yield {**pl, "expr": dumps(s)}


class EqualPolysStream(Stream):
    """polynomials equal as functions expand to sums with equal term multisets"""
    name = "expand-equal-polynomials"
    has_model = False

    def variants(self, rng, e):
        """expressions denoting the same polynomial as `e`"""
        n, _d = rf.ratfun(e, allow_quotients=False)
        yield rf.poly_to_expr(n, rng)                    # its expanded form, terms shuffled
        yield self.reshuffle(rng, e)
        yield self.unpower(e)

    def reshuffle(self, rng, e):
        if isinstance(e, (p.Sum, p.Product)):
            cs = [self.reshuffle(rng, c) for c in e.children]
            rng.shuffle(cs)
            if len(cs) > 2 and rng.random() < 0.5:
                cs = [type(e)(tuple(cs[:2])), *cs[2:]]
            return type(e)(tuple(cs))
        if isinstance(e, p.Power):
            return p.Power(self.reshuffle(rng, e.base), e.exponent)
        return e

    def unpower(self, e):
        """b**n -> b*b*...*b"""
        if isinstance(e, (p.Sum, p.Product)):
            return type(e)(tuple(self.unpower(c) for c in e.children))
        if isinstance(e, p.Power):
            return p.Product(tuple(self.unpower(e.base) for _ in range(e.exponent)))
        return e

    def cases(self, rng, tier):
        n = 250 if tier == "quick" else 4000
        fixed = [(p.Power(p.Sum((x, 1)), 2), p.Sum((p.Product((x, x)), p.Product((2, x)), 1))),
                 (p.Product((p.Sum((x, 1)), p.Sum((x, -1)))), p.Sum((p.Power(x, 2), -1))),
                 (p.Product((2, p.Sum((x, 1)), p.Sum((x, 2)))),
                  p.Sum((p.Product((2, p.Power(x, 2))), p.Product((6, x)), 4))),
                 (p.Product((p.Sum((x, y)), p.Sum((x, y)))), p.Power(p.Sum((y, x)), 2))]
        for a, b in fixed:
            yield {"p": dumps(expr_to_sx(a)), "q": dumps(expr_to_sx(b))}
        for i in range(n):
            g = FragGen(rng, quotients=0.0, min_exp=1, max_exp=3)
            e = g.gen(rng.randint(1, 3))
            try:
                vs = list(self.variants(rng, e))
            except rf.TooBig:
                continue
            yield {"p": dumps(expr_to_sx(e)), "q": dumps(expr_to_sx(vs[i % len(vs)]))}

    def request(self, pl):
        return ""

    def run_impl(self, pl):
        return ""

    def oracle(self, pl):
        import pymbolic
        a, b = sx_to_expr(loads(pl["p"])), sx_to_expr(loads(pl["q"]))
        try:
            if not rf.same_ratfun(rf.ratfun(a), rf.ratfun(b)):
                return None       # generator slip: not a pair of equal polynomials
            ra, rb = pymbolic.expand(a), pymbolic.expand(b)
        except rf.TooBig:
            return None
        except RecursionError:
            raise
        except Exception as ex:
            return Failure(f"expand-raises-{type(ex).__name__}-on-polynomial", f"{a} / {b}: {ex}", pl)
        for src, r in ((a, ra), (b, rb)):
            try:
                v = rf.expand_nf_violation(r)
            except rf.TooBig:
                return None
            except rf.NotRational:
                v = "term-not-polynomial"
            if v:
                return Failure(expand_nf_key(src, v), f"{src} -> {r}", pl)
        try:
            same = rf.term_multiset(ra) == rf.term_multiset(rb)
        except rf.TooBig:
            return None
        if not same:
            return Failure("expand-equal-polys-differ", f"{a} -> {ra}  but  {b} -> {rb}", pl)
        return None

    def shrink(self, pl):
        for s in sx_shrinks(loads(pl["p"])):
            yield {"p": dumps(s), "q": dumps(s)}
        for s in sx_shrinks(loads(pl["q"])):
            yield {"p": dumps(s), "q": dumps(s)}

    def nontrivial_key(self, pl, model, impl):
        return pl["p"] + pl["q"] if pl["p"] != pl["q"] else None


# {{{ probes: repaired defects and known findings, replayed on the real code

def _raises(fn):
    try:
        fn()
    except RecursionError:
        raise
    except Exception as ex:
        return f"{type(ex).__name__}: {ex}"
    return None


def hash_seed_probe():
    """expand(Product((Product((x, 1+z, y+3)), 1+x))) in fresh interpreters with different hash
    seeds: the NUMBER OF TERMS of the result differs"""
    import os
    import subprocess
    import sys
    code = ("import pymbolic as pm\nfrom pymbolic.primitives import *\n"
            "x,y,z=Variable('x'),Variable('y'),Variable('z')\n"
            "r=pm.expand(Product((Product((x, Sum((1,z)), Sum((y,3)))), Sum((1,x)))))\n"
            "print(len(r.children))")
    counts = set()
    for hs in ("0", "1", "2", "3"):
        env = dict(os.environ, PYTHONHASHSEED=hs)
        pr = subprocess.run([sys.executable, "-c", code], capture_output=True, text=True, env=env,
                            timeout=120)
        counts.add(pr.stdout.strip())
    return len(counts) > 1, f"number of terms of the result under PYTHONHASHSEED 0..3: {sorted(counts)}"


def probes():
    import pymbolic
    from pymbolic.mapper.collector import TermCollector
    out = []
    # repaired in /repo (fix: expand() no longer fails on powers of products and non-positive
    # powers of sums): these must not come back
    r = _raises(lambda: pymbolic.expand(p.Power(p.Product((x, y)), 2)))
    bad = r is not None
    if not bad:
        res = pymbolic.expand(p.Power(p.Product((x, y)), 2))
        bad = value_failure("expand", p.Power(p.Product((x, y)), 2), res) is not None
    out.append(("expand-power-of-product", bad, f"expand((x*y)**2): {r}"))
    rs = [_raises(lambda k=k: pymbolic.expand(p.Power(p.Sum((x, 1)), k))) for k in (0, -1)]
    bad = any(r is not None for r in rs)
    if not bad:
        for k in (0, -1):
            e = p.Power(p.Sum((x, 1)), k)
            bad = bad or value_failure("expand", e, pymbolic.expand(e)) is not None
    out.append(("expand-nonpositive-power-of-sum", bad,
                f"expand(Power(x+1, 0)), expand(Power(x+1, -1)): {rs}"))
    # known findings
    e = p.Product((2, p.Sum((x, 1)), p.Sum((x, 2))))
    res = pymbolic.expand(e)
    out.append(("expand-nf-sum-beneath-product", rf.expand_nf_violation(res) == "sum-beneath-product",
                f"expand({e}) = {res}"))
    out.append(("expand-result-depends-on-hash-seed", *hash_seed_probe()))
    r = _raises(lambda: pymbolic.expand(p.Sum((p.Quotient(1, y), z))))
    out.append(("expand-raises-RuntimeError", r is not None, f"expand(1/y + z): {r}"))
    r = _raises(lambda: TermCollector()(p.Sum((p.Quotient(x, y), z))))
    out.append(("collect-raises-RuntimeError", r is not None, f"TermCollector()(x/y + z): {r}"))
    e = p.Sum((p.Power(p.Power(x, 2), 3), p.Power(x, 6)))
    res = pymbolic.expand(e)
    out.append(("expand-nf-nested-power", rf.expand_nf_violation(res) == "like-terms-unmerged",
                f"expand({e}) = {res}"))
    res = pymbolic.expand(p.Power(0, 3))
    out.append(("expand-nf-zero-term", rf.expand_nf_violation(res) == "zero-term",
                f"expand(Power(0, 3)) = {res!r}"))
    e = p.Product((p.Power(p.Sum((x, 1)), 0), y))
    res = pymbolic.expand(e)
    out.append(("expand-nf-sum-beneath-zero-power",
                rf.expand_nf_violation(res) == "sum-beneath-power" and zero_power_of_sum(res),
                f"expand({e}) = {res}"))
    res = pymbolic.flatten(p.CommonSubexpression(()))
    out.append(("cse-empty-sequence-collapses", res == 0 and not isinstance(res, tuple),
                f"flatten(CommonSubexpression(())) = {res!r}"))
    return out

# }}}


def extract(ctx=None):
    """T-gen: lean/PV/Generated/Rewrite.lean from the source of pymbolic/mapper/flattener.py,
    constant_folder.py, collector.py, distributor.py (and lean/PV/Generated/Traversal.lean, the
    IdentityMapper rows the inherited handlers go through, shared with C04)"""
    from extract.rewrite import extract_rewrite
    from extract.traversal import extract_traversal
    extract_traversal(ctx)
    return extract_rewrite(ctx)


PROP = Prop(
    id="C11",
    title="Algebraic rewrites preserve value and reach their normal forms",
    lean_targets=["PV.Properties.C11", "PV.Properties.C11Table", "PV.Properties.C11Clauses"],
    theorems=[],
    extractors=[extract],
    streams=[RewriteStream(), AllNodesStream(), TableRewriteStream(), TableAllNodesStream(),
             ValidatedExpandStream(), EqualPolysStream(), CollapseStream(),
             SparseExpandStream(), NeutralOperandStream()],
    probes=[probes],
    trusted_base=["Lean 4.33 kernel + Mathlib (Field, zpow, ring/field_simp); axioms propext, Classical.choice, Quot.sound only",
                  "harness serialisation; outputs of collect/expand are compared after sorting the children of every Sum/Product on both sides (TermCollector iterates a frozenset: order depends on string hashes)",
                  "harness/oracles/ratfun.py: exact polynomial / rational-function arithmetic over Fraction written from scratch (independent reference)",
                  "PyNum/den/evalG/deps models of C02/C09 (constant detection and evaluation inside fold), themselves tied by their own correspondence streams",
                  "extract/rewrite.py: reads every method of FlattenMapper, the two constant folders, TermCollector, DistributeMapper and the entry points flatten / distribute from the source with ast (names resolved to the objects they are bound to; an unrecognised statement / expression / object is an extraction error, never a default); the meaning given to the table language (lean/PV/Model/RewriteTable.lean: c11Eval, c11Exec, c11Apply) and the reader are validated by the streams table-rewrites / table-rewrites-all-node-types (compiled table interpreter on the regenerated tables vs the real entry points)"],
    assumptions=["termination of fold / split_term / dist / map_power is not proved: the models take fuel and every theorem is of the form 'if the model returns a tree, then ...'; the driver supplies fuel 4000 and never ran out on any generated input",
                 "floats are outside the model: a constant subterm whose evaluation leaves the integers (true division, negative powers) makes the model abstain, and the value oracle skips outputs that contain a float",
                 "the CSE result cache of the constant folders is keyed with Python ==; the model computes the uncached result and abstains when the input has a CSE wrapper together with bool/float constants or keyword calls"],
    level_text="Lean theorems, for all expressions, all fields K and all assignments (value semantics evalK: Int constants, variables, sums, products, quotients, integer-literal powers as zpow, CSE wrappers): flattened_sum/flattened_product, flatten, both constant folders, TermCollector (any parameters) and DistributeMapper (expand/distribute, any configuration; one dist step separately) return trees that have the value of the input wherever the input has one; flatten's result has, at every depth, no sum under a sum, no product under a product, no zero operand in a sum and no zero/one operand in a product; a folded sum (either folder) / product (commutative folder) has at most one constant operand; polyNorm is a verified normal form for polynomial expressions (equal normal forms => equal value everywhere) and is run by the driver on every (input, real output) pair of a dedicated stream (translation validation). Tied to the code by correspondence of output trees on ~13k (quick) / ~67k (thorough) generated inputs incl. all node types for flatten/fold, plus an exact rational-function oracle, normal-form scans and a like-term multiset comparison on pairs of equal polynomials. Negation witnesses (theorems *_cex) for the five known findings. T-gen: the table regenerated from the source of the four mapper modules on every run (every method body statement by statement, class MROs, entry points with defaults) is the frozen table the proofs were made for (rfl), and for ALL inputs flattenM, foldM, collectM, splitTerm, distLoop, distM are the statement interpreter run on that table (inherited handlers through the regenerated C04 IdentityMapper rows); the value / normal-form theorems are restated over the table-driven functions; four witnesses show tables read from edited sources (split_term forgetting an exponent, the folder dropping a falsy constant, dist multiplying on the wrong side, a changed default of expand) interpreted differently from the model.",
    level_note="Not proved: termination / non-failure (fuel; non-failure is checked by the oracle on the fragment only, and is FALSE for expand/collect on sums with quotient terms: known findings); the normal form of expand (FALSE: known findings expand-nf-*; checked by the oracle). Trusted: Lean kernel, harness, ratfun oracle, the C02/C09 models used inside fold. Floats and the Python==-keyed CSE cache are outside the model (it abstains).",
    technique="Lean 4 proofs about executable models (fuel-indexed, mirroring the Python control flow) + differential correspondence of output trees + exact rational-function oracle + translation validation with a verified polynomial normal form",
    design_ref="DESIGN.md §4 C11",
)
