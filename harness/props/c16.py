"""C16 — pattern matching results are sound (one-directional unifier + matchpy bridge)."""
from __future__ import annotations

import itertools

import pymbolic.primitives as p

from ..c16_bridge import ConvertStream, FromStream, OrderStream, ReplacementStream
from ..core import Failure, Prop, Stream
from ..oracles import acnorm
from ..sexp import A, dumps, expr_to_sx, loads, sx_shrinks, sx_to_expr

PVARS = ["x", "y", "z", "u"]          # names used as pattern variables
CVARS = ["a", "b", "c", "d"]          # names used as symbols of the target
FVARS = ["f", "g"]
CMP = ["==", "!=", "<", "<=", ">", ">="]


# {{{ generators (every choice from rng)

class UGen:
    KINDS = ["sum", "sum", "sum", "prod", "prod", "quot", "floordiv", "rem", "pow", "call", "call",
             "subscript", "lookup", "cmp", "if", "shift", "not"]

    def __init__(self, rng, leaves, zero_rate=0.04, degenerate=0.0, max_ac=4, kinds=None):
        self.rng = rng
        self.kinds = kinds or self.KINDS
        self.leaves = leaves
        self.zero_rate = zero_rate
        self.degenerate = degenerate
        self.max_ac = max_ac

    def leaf(self):
        r = self.rng
        k = r.random()
        if k < 0.62:
            return p.Variable(r.choice(self.leaves))
        if k < 0.62 + self.zero_rate:
            return r.choice([0, 1])
        if k < 0.95:
            return r.choice([2, 3, 5, -1, -2, 7])
        return r.choice([True, False]) if self.zero_rate > 0 else 2

    def ac_children(self, d):
        r = self.rng
        n = r.choice([2, 2, 2, 3, 3, 4][: max(1, self.max_ac + 2)])
        n = min(n, self.max_ac)
        if r.random() < self.degenerate:
            n = r.choice([0, 1])
        return tuple(self.gen(d - 1) for _ in range(n))

    def gen(self, d):
        r = self.rng
        if d <= 0 or r.random() < 0.22:
            return self.leaf()
        k = r.choice(self.kinds)
        if k == "sum":
            return p.Sum(self.ac_children(d))
        if k == "prod":
            return p.Product(self.ac_children(d))
        if k == "quot":
            return p.Quotient(self.gen(d - 1), self.gen(d - 1))
        if k == "floordiv":
            return p.FloorDiv(self.gen(d - 1), self.gen(d - 1))
        if k == "rem":
            return p.Remainder(self.gen(d - 1), self.gen(d - 1))
        if k == "pow":
            return p.Power(self.gen(d - 1), self.gen(d - 1) if r.random() < 0.5 else r.choice([2, 3]))
        if k == "call":
            fn = p.Variable(r.choice(FVARS)) if r.random() < 0.85 else p.Variable(r.choice(self.leaves))
            return p.Call(fn, tuple(self.gen(d - 1) for _ in range(r.choice([0, 1, 1, 2, 2, 3]))))
        if k == "subscript":
            agg = p.Variable(r.choice(self.leaves + ["a"]))
            kk = r.random()
            if kk < 0.5:
                idx = self.gen(d - 1)
            elif kk < 0.7:
                idx = (self.gen(d - 1),)
            elif kk < 0.97:
                idx = (self.gen(d - 1), self.gen(d - 1))
            else:
                idx = ()
            return p.Subscript(agg, idx)
        if k == "lookup":
            return p.Lookup(self.gen(d - 1) if r.random() < 0.5 else p.Variable(r.choice(self.leaves)),
                            r.choice(["re", "im"]))
        if k == "cmp":
            return p.Comparison(self.gen(d - 1), r.choice(CMP), self.gen(d - 1))
        if k == "if":
            return p.If(p.Comparison(self.gen(d - 1), r.choice(CMP), self.gen(d - 1)),
                        self.gen(d - 1), self.gen(d - 1))
        if k == "shift":
            return r.choice([p.LeftShift, p.RightShift])(self.gen(d - 1), self.gen(d - 1))
        if k == "logic":
            return r.choice([p.LogicalOr, p.LogicalAnd, p.BitwiseOr, p.BitwiseAnd, p.BitwiseXor])(
                self.ac_children(d))
        return r.choice([p.BitwiseNot, p.LogicalNot])(self.gen(d - 1))


def scramble(rng, t, p_shuffle=0.6, p_group=0.25, p_flat=0.5):
    """reorder and regroup sums and products of a wire-format tree (an AC-equal tree)"""
    if not isinstance(t, list):
        return t
    t = [scramble(rng, c, p_shuffle, p_group, p_flat) for c in t]
    if t and isinstance(t[0], A) and t[0] in ("Sum", "Product"):
        h, ops = t[0], t[1:]
        if rng.random() < p_flat:
            flat = []
            for c in ops:
                if isinstance(c, list) and c and c[0] == h and len(c) > 1 and len(flat) + len(c) <= 6:
                    flat.extend(c[1:])
                else:
                    flat.append(c)
            ops = flat
        if rng.random() < p_shuffle:
            rng.shuffle(ops)
        if len(ops) >= 3 and rng.random() < p_group:
            i = rng.randrange(0, len(ops) - 1)
            j = rng.randrange(i + 2, len(ops) + 1)
            if j - i < len(ops):
                ops = ops[:i] + [[h, *ops[i:j]]] + ops[j:]
        return [h, *ops]
    if t and isinstance(t[0], A) and t[0] == "Subscript" and rng.random() < 0.12:
        idx = t[2]
        if isinstance(idx, list) and idx and idx[0] == "Tuple":
            if len(idx) == 2:
                return [t[0], t[1], idx[1]]
        else:
            return [t[0], t[1], [A("Tuple"), idx]]
    return t


def mutate(rng, t, g):
    """replace one random subtree by a fresh random tree (a near miss)"""
    paths = []

    def walk(s, path):
        if isinstance(s, list) and s and isinstance(s[0], A) and s[0] not in ("Int", "Bool", "Var"):
            for i, c in enumerate(s[1:], 1):
                if isinstance(c, list):
                    if c and isinstance(c[0], A):
                        paths.append((*path, i))
                        walk(c, (*path, i))
                    else:
                        for j, cc in enumerate(c):
                            paths.append((*path, i, j))
                            walk(cc, (*path, i, j))
    walk(t, ())
    if not paths:
        return expr_to_sx(g.gen(1))
    path = rng.choice(paths)

    def put(s, path):
        if not path:
            return expr_to_sx(g.gen(rng.randint(0, 2)))
        s = list(s)
        s[path[0]] = put(s[path[0]], path[1:])
        return s
    return put(t, path)

# }}}


class _Budget(Exception):
    pass


def within_budget(pl, limit=1500):
    """Deterministic work bound used when GENERATING cases: the unifier never merges duplicate
    records, so the number of records can explode (6 * n**3 records from one `a + a + a` against
    itself with n incoming records; 248 832 records for a 30-node pattern) — such inputs are dropped
    (they would make the run hang, and say nothing new about soundness)."""
    from pymbolic.mapper.unifier import UnidirectionalUnifier
    from pymbolic.primitives import flattened_product, flattened_sum

    class Bounded(UnidirectionalUnifier):
        left = limit

        def _take(self, gen):
            out = []
            for r in gen:
                self.left -= 1
                if self.left < 0:
                    raise _Budget()
                out.append(r)
            return out

        def map_sum(self, expr, other, unis):
            return self._take(self.map_commut_assoc(expr, other, unis, flattened_sum))

        def map_product(self, expr, other, unis):
            return self._take(self.map_commut_assoc(expr, other, unis, flattened_product))

    try:
        Bounded(set(pl["cands"]))(sx_to_expr(loads(pl["pattern"])), sx_to_expr(loads(pl["target"])))
    except _Budget:
        return False
    except Exception:
        return True
    return True


def run_unifier(pl):
    from pymbolic.mapper.unifier import UnidirectionalUnifier
    pat = sx_to_expr(loads(pl["pattern"]))
    tgt = sx_to_expr(loads(pl["target"]))
    return UnidirectionalUnifier(set(pl["cands"]))(pat, tgt)


def err_sx(ex):
    return f"(err {type(ex).__name__})"


def check_records(pl, recs):
    """the property's own statement on the records the real code returned"""
    pat = loads(pl["pattern"])
    tgt = loads(pl["target"])
    cands = set(pl["cands"])
    want = acnorm.ac_key(tgt, 0)
    for r in recs:
        eqs = list(r.equations)
        bound = {}
        for lhs, rhs in eqs:
            if not isinstance(lhs, p.Variable):
                return Failure("unifier-equation-lhs-not-variable", f"equation {lhs} = {rhs}", pl)
            if lhs.name not in cands:
                return Failure("unifier-binds-undeclared",
                               f"{lhs.name} is bound but the candidates are {sorted(cands)}", pl)
            if lhs.name in bound and dumps(expr_to_sx(rhs)) != bound[lhs.name][0] \
                    and not (rhs == bound[lhs.name][1]):
                return Failure("unifier-two-values",
                               f"{lhs.name} = {bound[lhs.name][1]} and {lhs.name} = {rhs}", pl)
            bound.setdefault(lhs.name, (dumps(expr_to_sx(rhs)), rhs))
        for k in r.lmap:
            if k not in cands:
                return Failure("unifier-binds-undeclared",
                               f"{k} is bound but the candidates are {sorted(cands)}", pl)
        if set(r.lmap) != set(bound):
            return Failure("unifier-lmap-vs-equations", f"lmap {sorted(r.lmap)} equations {sorted(bound)}", pl)
        b = {k: expr_to_sx(v) for k, v in r.lmap.items()}
        got_tree = acnorm.inst(pat, b)
        got = acnorm.ac_key(got_tree, 0)
        if got != want:
            detail = (f"record {{{', '.join(f'{k}: {v}' for k, v in r.lmap.items())}}} instantiates the "
                      f"pattern to {sx_to_expr(got_tree)}, target {sx_to_expr(tgt)}")
            if acnorm.has_empty_ac(pat):
                return Failure("unifier-empty-nary-pattern-resets-records", detail, pl)
            if acnorm.ac_key(got_tree, 0, True) == acnorm.ac_key(tgt, 0, True):
                return Failure("unifier-index-1-tuple-unpacked", detail, pl)
            if acnorm.ac_key(got_tree, 1) == acnorm.ac_key(tgt, 1):
                n_got, n_want = acnorm.nodes(acnorm.norm(got_tree)), acnorm.nodes(acnorm.norm(tgt))
                if n_got > n_want:
                    return Failure("unifier-empty-leftover-binds-identity", detail, pl)
                return Failure("unifier-leftover-drops-neutral-operand", detail, pl)
            if acnorm.ac_key(got_tree, 2) == acnorm.ac_key(tgt, 2):
                return Failure("unifier-product-leftover-zero-collapse", detail, pl)
            # two known deviations in one record: a 1-tuple index unpacked AND a neutral operand
            # dropped / an identity bound / a zero factor collapsing the share
            if acnorm.ac_key(got_tree, 1, True) == acnorm.ac_key(tgt, 1, True):
                n_got, n_want = acnorm.nodes(acnorm.norm(got_tree)), acnorm.nodes(acnorm.norm(tgt))
                return Failure("unifier-empty-leftover-binds-identity" if n_got > n_want
                               else "unifier-leftover-drops-neutral-operand",
                               detail + " (together with a 1-tuple index unpacked)", pl)
            if acnorm.ac_key(got_tree, 2, True) == acnorm.ac_key(tgt, 2, True):
                return Failure("unifier-product-leftover-zero-collapse",
                               detail + " (together with a 1-tuple index unpacked)", pl)
            return Failure("unifier-instantiation-differs", detail, pl)
    return None


class UnifyStream(Stream):
    """records of UnidirectionalUnifier vs the model; instantiation law on the real records"""
    name = "unifier"

    def cases(self, rng, tier):
        n = 2600 if tier == "quick" else 40000
        for i in range(n):
            deg = 0.0 if i % 10 else 0.15
            zr = 0.0 if i % 4 else 0.08
            gp = UGen(rng, PVARS[: rng.randint(1, 4)] + CVARS[: rng.randint(0, 2)],
                      zero_rate=zr, degenerate=deg, max_ac=rng.choice([3, 3, 4]))
            gt = UGen(rng, CVARS[: rng.randint(1, 4)], zero_rate=zr, degenerate=deg,
                      max_ac=rng.choice([3, 4, 5]))
            pat = gp.gen(rng.randint(1, 3))
            pat_sx = expr_to_sx(pat)
            pvars = sorted(acnorm.variables(pat_sx))
            kind = ["instance", "instance", "scrambled", "scrambled", "renaming", "independent",
                    "mutant"][i % 7]
            cands = [v for v in pvars if v in PVARS or rng.random() < 0.1]
            if rng.random() < 0.15:
                cands = [v for v in cands if rng.random() < 0.7]
            if rng.random() < 0.2:
                cands.append(rng.choice(PVARS + CVARS))
            cands = sorted(set(cands))
            if kind == "renaming":
                pool = [v for v in PVARS + CVARS + FVARS + ["p", "q", "r", "s", "t"]
                        if v not in pvars or v in cands]
                ren = [v for v in pvars if v in cands]
                if len(pool) < len(ren):
                    continue
                img = rng.sample(pool, len(ren))
                b = {v: [A("Var"), w] for v, w in zip(ren, img)}
                tgt_sx = acnorm.inst(pat_sx, b)
                pl = {"kind": kind, "pattern": dumps(pat_sx), "target": dumps(tgt_sx),
                      "cands": cands}
                if within_budget(pl):
                    yield pl
                continue
            if kind == "independent":
                tgt_sx = expr_to_sx(gt.gen(rng.randint(1, 3)))
            else:
                b = {}
                for v in pvars:
                    if v in cands:
                        b[v] = expr_to_sx(gt.gen(rng.choice([0, 0, 1, 1, 2])))
                tgt_sx = acnorm.inst(pat_sx, b)
                if kind in ("scrambled", "mutant"):
                    tgt_sx = scramble(rng, tgt_sx)
                if kind == "mutant":
                    tgt_sx = mutate(rng, tgt_sx, gt)
            pl = {"kind": kind, "pattern": dumps(pat_sx), "target": dumps(tgt_sx), "cands": cands}
            if within_budget(pl):
                yield pl

    def request(self, pl):
        cs = " ".join(dumps(c) for c in pl["cands"])
        return f"(unify ({cs}) {pl['pattern']} {pl['target']})"

    def run_impl(self, pl):
        """`((record…) (law…))`: the records and, per record, the verdict of the independent
        instantiation check (the model side prints the verdict of Lean's `acEquiv`)"""
        try:
            recs = run_unifier(pl)
        except RecursionError:
            raise
        except Exception as ex:
            return err_sx(ex)
        pat, tgt = loads(pl["pattern"]), loads(pl["target"])
        want = acnorm.ac_key(tgt, 0)
        law = []
        for r in recs:
            b = {k: expr_to_sx(v) for k, v in r.lmap.items()}
            law.append("true" if acnorm.ac_key(acnorm.inst(pat, b), 0) == want else "false")
        return "((" + " ".join(
            "(" + " ".join(f"({dumps(k)} {dumps(expr_to_sx(v))})" for k, v in r.lmap.items()) + ")"
            for r in recs) + ") (" + " ".join(law) + "))"

    def agree(self, model, impl, pl):
        """records and per-record verdicts must coincide; where the guards of
        `unify_sound_partial` hold, every verdict must be `true` (the theorem, observed on the code)"""
        if "(noclaim)" in model:
            return "trivial"
        m = loads(model)
        if not (isinstance(m, list) and len(m) == 3):
            return "diff"
        if dumps(m[:2]) != impl:
            return "diff"
        if m[2] == "true" and any(f != "true" for f in m[1]):
            return "diff"
        return "ok"

    def oracle(self, pl):
        try:
            recs = run_unifier(pl)
        except RecursionError:
            raise
        except Exception as ex:
            return Failure("unifier-raises", f"{type(ex).__name__}: {str(ex)[:200]}", pl)
        f = check_records(pl, recs)
        if f is not None:
            return f
        if pl["kind"] == "renaming" and not recs:
            return Failure("unifier-renaming-incomplete",
                           f"no record for the renamed pattern {sx_to_expr(loads(pl['target']))}", pl)
        return None

    def shrink(self, pl):
        if pl["kind"] == "renaming":
            return
        for s in sx_shrinks(loads(pl["target"])):
            yield {**pl, "target": dumps(s)}
        for s in sx_shrinks(loads(pl["pattern"])):
            yield {**pl, "pattern": dumps(s)}
        for c in pl["cands"]:
            yield {**pl, "cands": [d for d in pl["cands"] if d != c]}

    def nontrivial_key(self, pl, model, impl):
        """a case counts when at least one record was returned (and therefore checked)"""
        if impl.startswith("(err") or impl.startswith("(() "):
            return None
        return pl["pattern"] + "|" + pl["target"] + "|" + ",".join(pl["cands"])

    def stats(self, pl, mo, io, acc):
        k = acc.setdefault("kinds", {})
        k[pl["kind"]] = k.get(pl["kind"], 0) + 1
        m = acc.setdefault("records", {"none": 0, "one": 0, "several": 0, "err": 0})
        if io.startswith("(err"):
            m["err"] += 1
        else:
            n = len(loads(io)[0])
            m["none" if n == 0 else "one" if n == 1 else "several"] += 1
        if mo is not None and mo.endswith(" true)"):
            acc["guards_hold"] = acc.get("guards_hold", 0) + 1
            if n > 0:
                acc["guards_hold_and_match"] = acc.get("guards_hold_and_match", 0) + 1
        if mo is not None and "(noclaim)" in mo:
            acc["model_abstains"] = acc.get("model_abstains", 0) + 1


class SmallACStream(UnifyStream):
    """sums / products with few operands over a small alphabet (all shapes of the leftover
    partitioning, the degenerate arities 0 and 1, neutral operands), wide targets up to 8 operands"""
    name = "unifier-small-ac"

    def cases(self, rng, tier):
        n = 1500 if tier == "quick" else 30000
        x, y, a, b, f = (p.Variable(v) for v in "xyabf")
        patoms = [x, y, a, 0, 2, f(x), p.Product((x, a)), p.Sum((y, 2))]
        tatoms = [a, b, 0, 1, 2, f(a), f(b), p.Product((a, b)), p.Sum((a, b)), p.Product((2, a)),
                  p.Sum((b, 2))]
        candsets = [["x", "y"], ["x", "y"], ["x"], ["y"], [], ["a", "x", "y"]]
        for i in range(n):
            cls = p.Sum if rng.random() < 0.6 else p.Product
            np_ = rng.choice([0, 1, 1, 2, 2, 2, 3, 3, 3])
            nt = rng.choice([0, 1, 1, 2, 2, 2, 3, 3, 3, 4, 4])
            if i % 25 == 0:
                nt = rng.choice([5, 6, 7, 8])
            pat = cls(tuple(rng.choice(patoms) for _ in range(np_)))
            if rng.random() < 0.55:
                # an instance of the pattern plus extra operands, shuffled
                bind = {"x": expr_to_sx(rng.choice(tatoms)), "y": expr_to_sx(rng.choice(tatoms))}
                ops = [sx_to_expr(acnorm.inst(expr_to_sx(ch), bind)) for ch in pat.children]
                ops += [rng.choice(tatoms) for _ in range(rng.choice([0, 0, 1, 1, 2]))]
                if i % 25 == 0:
                    ops += [rng.choice(tatoms) for _ in range(max(0, nt - len(ops)))]
                rng.shuffle(ops)
                tgt = cls(tuple(ops[:8]))
            else:
                tgt = cls(tuple(rng.choice(tatoms) for _ in range(nt)))
            cands = rng.choice(candsets)
            if not any(isinstance(ch, p.Variable) and ch.name in cands for ch in pat.children) \
                    and len(tgt.children) > 6:
                # no plain variable: partitions(leftovers, 0) enumerates every ordered set partition
                # before yielding nothing (seconds at 8 leftovers, minutes beyond)
                tgt = cls(tgt.children[:6])
            if i % 7 == 0:     # wrapped, so that incoming records exist
                pat = f(x, pat) if i % 14 else p.Quotient(pat, y)
                tgt = f(a, tgt) if i % 14 else p.Quotient(tgt, b)
            pl = {"kind": "small", "pattern": dumps(expr_to_sx(pat)),
                  "target": dumps(expr_to_sx(tgt)), "cands": cands}
            if within_budget(pl):
                yield pl
        # beyond 8 operands the model abstains (set iteration order): a few cases for the record
        for k in (9, 10):
            pat = p.Sum((x, y, f(x)))
            tgt = p.Sum(tuple([f(a)] + [p.Variable(f"c{j}") for j in range(k - 1)]))
            yield {"kind": "small", "pattern": dumps(expr_to_sx(pat)),
                   "target": dumps(expr_to_sx(tgt)), "cands": ["x", "y"]}


# {{{ completeness under injective renamings INTO the pattern's own names

def _S(*ops):
    return p.Sum(tuple(ops))


def _P(*ops):
    return p.Product(tuple(ops))


def _renaming_templates():
    """small patterns whose sums / products carry compound operands that SHARE variables (the
    same operand shape on different variables, and another occurrence that pins the pairing):
    (number of variables, builder).  f, g, h, u are symbols of the pattern (never renamed unless
    the candidate set names them)."""
    f, g, h, u = (p.Variable(v) for v in "fghu")
    lt = p.Comparison
    return [
        (2, lambda a, b: _S(f(a), f(b), g(a))),
        (2, lambda a, b: _S(_P(a, f(a)), _P(b, f(b)))),
        (2, lambda a, b: _P(f(a), f(b), g(a))),
        (2, lambda a, b: _P(_S(a, f(a)), _S(b, f(b)))),
        (2, lambda a, b: _S(f(a), f(b), a)),
        (2, lambda a, b: _P(b, f(a), f(b))),
        (2, lambda a, b: _S(f(a, b), f(b, a), g(a))),
        (2, lambda a, b: _S(f(a), f(b), g(a), u)),
        (2, lambda a, b: _S(f(g(a)), f(g(b)), g(a))),
        (2, lambda a, b: _S(p.Power(a, 2), p.Power(b, 2), p.Power(a, 3))),
        (2, lambda a, b: _S(p.Subscript(u, (a, b)), p.Subscript(u, (b, a)), p.Subscript(u, a))),
        (2, lambda a, b: _P(p.Quotient(a, b), p.Quotient(b, a), p.Quotient(a, 2))),
        # plain variables as operands next to the compound ones
        (2, lambda a, b: _S(a, b, f(a))),
        (2, lambda a, b: _P(a, b, g(b))),
        (2, lambda a, b: _S(a, b, _P(a, f(b)), _P(b, g(a)))),
        (2, lambda a, b: h(_S(a, b, u), b)),
        # nested AC nodes (the other operator, and the same operator left unflattened)
        (2, lambda a, b: _P(_S(a, f(b)), _S(b, f(a)), g(a))),
        (2, lambda a, b: _S(_P(f(a), g(b)), _P(f(b), g(a)), f(a))),
        (2, lambda a, b: _S(_S(f(a), g(b)), _S(f(b), g(a)), a)),
        (2, lambda a, b: _P(_P(f(a), b), _P(f(b), a), g(b))),
        (2, lambda a, b: _S(_P(a, _S(f(a), f(b), g(a))), _P(b, _S(f(b), f(a), g(b))))),
        # the pinning occurrence lies OUTSIDE the sum / product
        (2, lambda a, b: h(_S(f(a), f(b)), a)),
        (2, lambda a, b: h(a, _P(f(a), f(b)))),
        (2, lambda a, b: p.Quotient(_P(f(a), f(b)), g(a))),
        (2, lambda a, b: p.Power(_S(f(a), f(b)), g(b))),
        (2, lambda a, b: lt(_S(f(a), f(b)), "<", g(a))),
        (2, lambda a, b: p.If(lt(_S(f(a), f(b)), "<", a), _P(g(a), g(b), a), b)),
        (2, lambda a, b: p.Subscript(u, (_S(f(a), f(b)), b))),
        # function symbols as the renamed variables
        (2, lambda a, b: _S(a(u), b(u), h(a(u)))),
        (2, lambda a, b: _P(a(u, b(u)), b(u, a(u)), a(u))),
        # three variables
        (3, lambda a, b, c: _S(f(a, b), f(b, c), f(c, a), g(a))),
        (3, lambda a, b, c: _S(_P(a, f(b)), _P(b, f(c)), _P(c, f(a)))),
        (3, lambda a, b, c: _P(f(a), f(b), f(c), g(a, b))),
        (3, lambda a, b, c: _S(f(a), f(b), g(a, c), c)),
        (3, lambda a, b, c: _S(a, b, c, f(a, b))),
        (3, lambda a, b, c: _S(f(_S(a, b)), f(_S(b, c)), g(a))),
        (3, lambda a, b, c: h(_S(_P(a, u), _P(b, g(c))), p.Quotient(g(a), g(b)))),
        (3, lambda a, b, c: _P(_S(a, 2), _S(b, 2), p.Power(h(a), c))),
        (3, lambda a, b, c: p.If(lt(_S(f(a), f(b)), "<", c), _P(g(a), g(b), a),
                                 _S(p.Subscript(u, (a, b)), p.Subscript(u, (b, a)), b))),
    ]


class _RenGen:
    """random patterns of the same class: an ORBIT (one compound operand shape instantiated on
    different variables) plus pinning operands under a sum / product, possibly inside a context"""
    FNS = ["f", "g", "h"]
    SYMS = ["u", "v"]

    def __init__(self, rng, cands):
        self.r = rng
        self.cands = cands

    def leaf(self, leaves):
        r = self.r
        k = r.random()
        if k < 0.8:
            return p.Variable(r.choice(leaves))
        if k < 0.9:
            return p.Variable(r.choice(self.SYMS))
        return r.choice([2, 3, 5, -1])

    def arg(self, d, leaves):
        if d <= 0 or self.r.random() < 0.6:
            return self.leaf(leaves)
        return self.compound(d - 1, leaves)

    def compound(self, d, leaves):
        r = self.r
        k = r.choice(["call1", "call1", "call1", "call2", "prodv", "sumv", "pow", "sub", "quot",
                      "ac", "ac"])
        fn = p.Variable(r.choice(self.FNS))
        if k == "call1":
            return fn(self.arg(d, leaves))
        if k == "call2":
            return fn(self.arg(d, leaves), self.arg(d, leaves))
        if k == "prodv":
            return _P(p.Variable(r.choice(leaves)), fn(self.arg(d, leaves)))
        if k == "sumv":
            return _S(self.arg(d, leaves), r.choice([2, 3, fn(self.arg(d, leaves))]))
        if k == "pow":
            return p.Power(self.arg(d, leaves), r.choice([2, 3, self.arg(d, leaves)]))
        if k == "sub":
            agg = p.Variable(r.choice(self.SYMS))
            if r.random() < 0.5:
                return p.Subscript(agg, (self.arg(d, leaves), self.arg(d, leaves)))
            return p.Subscript(agg, self.arg(d, leaves))
        if k == "quot":
            return p.Quotient(self.arg(d, leaves), self.arg(d, leaves))
        cls = r.choice([p.Sum, p.Product])
        return cls(tuple(self.arg(d, leaves) for _ in range(r.choice([2, 2, 3]))))

    def pattern(self):
        r = self.r
        cands = self.cands
        nh = r.choice([1, 1, 2]) if len(cands) > 1 else 1
        holes = [f"_{i}" for i in range(nh)]
        shape = expr_to_sx(self.compound(r.choice([0, 1, 1]), holes))
        if not acnorm.variables(shape) & set(holes):
            shape = expr_to_sx(p.Variable("f")(*[p.Variable(hh) for hh in holes]))
        ops, seen = [], set()
        for _ in range(r.choice([2, 2, 3])):
            img = r.sample(cands, nh)
            inst = acnorm.inst(shape, {hh: [A("Var"), v] for hh, v in zip(holes, img)})
            if dumps(inst) not in seen:
                seen.add(dumps(inst))
                ops.append(sx_to_expr(inst))
        for _ in range(r.choice([0, 1, 1, 2])):
            k = r.random()
            if k < 0.3:
                ops.append(p.Variable(r.choice(cands)))
            elif k < 0.4:
                ops.append(p.Variable(r.choice(self.SYMS)))
            else:
                ops.append(self.compound(r.choice([0, 1]), cands))
        r.shuffle(ops)
        if len(ops) < 2:
            ops.append(self.compound(0, cands))
        cls = r.choice([p.Sum, p.Sum, p.Product])
        top = cls(tuple(ops[:5]))
        k = r.random()
        h = p.Variable("h")
        if k < 0.45:
            return top
        if k < 0.55:
            return h(top, self.leaf(cands)) if r.random() < 0.5 else h(self.leaf(cands), top)
        if k < 0.63:
            return p.Quotient(top, self.compound(0, cands))
        if k < 0.70:
            return p.Comparison(top, r.choice(CMP), self.arg(1, cands))
        if k < 0.76:
            return p.If(p.Comparison(top, r.choice(CMP), self.arg(1, cands)), self.arg(1, cands),
                        self.arg(1, cands))
        other = p.Product if cls is p.Sum else p.Sum
        outer = r.choice([other, other, cls])
        more = [top, self.arg(1, cands)] + ([self.compound(0, cands)] if r.random() < 0.5 else [])
        r.shuffle(more)
        return outer(tuple(more))


def renaming_class(pvars, ren):
    """how the renaming meets the pattern's own names"""
    moved = {v: w for v, w in ren.items() if v != w}
    if not moved:
        return "identity"
    if set(moved.values()) == set(moved):
        return "permutes"
    if any(w in pvars for w in moved.values()):
        return "overlaps"
    return "fresh"


def renaming_payload(pat_sx, cands, ren):
    """None unless `ren` (identity elsewhere) is injective on the variables of the pattern and
    moves declared variables only"""
    pvars = acnorm.variables(pat_sx)
    ren = {v: w for v, w in ren.items() if v in pvars}
    if any(v not in cands for v in ren):
        return None
    img = [ren.get(v, v) for v in sorted(pvars)]
    if len(set(img)) != len(img):
        return None
    tgt = acnorm.inst(pat_sx, {v: [A("Var"), w] for v, w in ren.items()})
    return {"kind": "renaming", "rclass": renaming_class(pvars, ren), "pattern": dumps(pat_sx),
            "target": dumps(tgt), "cands": sorted(cands), "ren": dict(sorted(ren.items()))}


class RenamingStream(UnifyStream):
    """completeness clause: the target is the pattern under an injective renaming of its variables
    drawn from a pool that CONTAINS the pattern's own variables — every permutation of them, partial
    overlaps, fresh names — for sums / products whose compound operands share variables (so that an
    operand of the pattern can occur verbatim in the target and still have to be paired with a
    different operand).  `unify_complete_renaming` makes no disjointness assumption, so the model
    is run on every case as well (records compared in yield order)."""
    name = "unifier-renaming"
    FRESH = ["x", "y", "z", "w"]

    @staticmethod
    def injections(dom, pool):
        for img in itertools.permutations(pool, len(dom)):
            yield dict(zip(dom, img))

    def cases(self, rng, tier):
        quick = tier == "quick"
        seen = set()

        def emit(pat_sx, cands, ren):
            pl = renaming_payload(pat_sx, cands, ren)
            if pl is None:
                return None
            key = pl["pattern"] + "|" + pl["target"] + "|" + ",".join(pl["cands"])
            if key in seen or not within_budget(pl):
                return None
            seen.add(key)
            return pl

        # 1. exhaustive: every template x every non-empty set of declared variables x EVERY
        #    injective renaming into (declared variables + as many fresh names)
        names = ["a", "b", "c"]
        for nv, build in _renaming_templates():
            vs = names[:nv]
            pat_sx = expr_to_sx(build(*[p.Variable(v) for v in vs]))
            for k in range(nv, 0, -1):
                for dom in itertools.combinations(vs, k):
                    pool = list(dom) + self.FRESH[:k]
                    for ren in self.injections(dom, pool):
                        pl = emit(pat_sx, list(dom), ren)
                        if pl is not None:
                            yield pl
        # 2. random patterns of the class; all permutations of the declared variables, plus
        #    partial overlaps / fresh names / names of symbols from the stream's rng
        n = 110 if quick else 2500
        universe = ["a", "b", "c", "d", "x", "y", "z"]
        for i in range(n):
            k = rng.choice([2, 2, 3, 3] if quick else [2, 3, 3, 4])
            cvars = rng.sample(universe, k)
            pat = _RenGen(rng, cvars).pattern()
            pat_sx = expr_to_sx(pat)
            pvars = acnorm.variables(pat_sx)
            cands = [v for v in cvars if v in pvars]
            if rng.random() < 0.15:      # symbols (function names among them) declared as well
                cands += [v for v in sorted(pvars - set(cands)) if rng.random() < 0.6]
            if len(cands) > 1 and rng.random() < 0.15:   # one variable stays a symbol
                cands.remove(rng.choice(cands))
            if not cands:
                continue
            declared = list(cands)
            if rng.random() < 0.1:       # declared, absent from the pattern
                declared.append(rng.choice([v for v in universe + ["q"] if v not in pvars]))
            fresh = [v for v in universe + ["p", "q", "r", "s", "f", "g", "h", "u", "v"]
                     if v not in pvars]
            rens = []
            if len(cands) <= 4:
                rens.extend(self.injections(cands, cands))
            for _ in range(8 if quick else 12):
                pool = cands + rng.sample(fresh, rng.randint(1, len(cands)))
                rens.append(dict(zip(cands, rng.sample(pool, len(cands)))))
            rens.append(dict(zip(cands, rng.sample(fresh, len(cands)))))
            for ren in rens:
                pl = emit(pat_sx, declared, ren)
                if pl is not None:
                    yield pl

    def oracle(self, pl):
        try:
            recs = run_unifier(pl)
        except RecursionError:
            raise
        except Exception as ex:
            return Failure("unifier-raises", f"{type(ex).__name__}: {str(ex)[:200]}", pl)
        f = check_records(pl, recs)
        if f is not None:
            return f
        if recs:
            return None
        # the completeness clause speaks only if the target IS the renamed pattern
        pat_sx = loads(pl["pattern"])
        ok = renaming_payload(pat_sx, pl["cands"], pl.get("ren", {}))
        if ok is None or ok["target"] != pl["target"] or set(ok["ren"]) != set(pl.get("ren", {})):
            return None
        moved = ", ".join(f"{v}->{w}" for v, w in ok["ren"].items() if v != w) or "identity"
        return Failure(f"unifier-renaming-incomplete:{ok['rclass']}",
                       f"no record although the target {sx_to_expr(loads(pl['target']))} is the pattern "
                       f"{sx_to_expr(pat_sx)} under the injective renaming {moved} "
                       f"(declared: {pl['cands']})", pl)

    def shrink(self, pl):
        pat_sx = loads(pl["pattern"])
        ren = pl.get("ren", {})

        def rebuilt(pat, cands, ren):
            new = renaming_payload(pat, cands, ren)
            if new is not None and (new["pattern"], new["target"], new["cands"]) != \
                    (pl["pattern"], pl["target"], pl["cands"]):
                return new
            return None
        for s in sx_shrinks(pat_sx):
            new = rebuilt(s, pl["cands"], ren)
            if new is not None:
                yield new
        for v in ren:                      # one variable less is moved / declared
            if ren[v] != v:
                new = rebuilt(pat_sx, pl["cands"], {**ren, v: v})
                if new is not None:
                    yield new
        pvars = acnorm.variables(pat_sx)
        for c in pl["cands"]:
            if ren.get(c, c) == c:
                new = rebuilt(pat_sx, [d for d in pl["cands"] if d != c],
                              {v: w for v, w in ren.items() if v != c})
                if new is not None:
                    yield new
        for v in ren:                      # a fresh image instead of one of the pattern's names
            if ren[v] in pvars and ren[v] != v:
                fresh = next(w for w in self.FRESH + ["p", "q", "r", "s"]
                             if w not in pvars and w not in ren.values())
                new = rebuilt(pat_sx, pl["cands"], {**ren, v: fresh})
                if new is not None:
                    yield new

    def stats(self, pl, mo, io, acc):
        super().stats(pl, mo, io, acc)
        k = acc.setdefault("renamings", {})
        k[pl["rclass"]] = k.get(pl["rclass"], 0) + 1

# }}}


class TableStream(Stream):
    """T-gen tie: the compiled TABLE INTERPRETER (lean/PV/Model/UnifyTable.lean) run on the table
    regenerated from the source of unifier.py on this run, against the real unifier: records in
    yield order, lmap AND rmap in insertion order.  This is what the reader extract/unifier.py and
    the meaning given to the table language are trusted through."""
    name = "unifier-table"

    def cases(self, rng, tier):
        n_a, n_b = (500, 350) if tier == "quick" else (6000, 5000)
        a = list(itertools.islice(UnifyStream().cases(rng, tier), n_a))
        b = list(itertools.islice(SmallACStream().cases(rng, tier), n_b))
        yield from a
        yield from b

    def request(self, pl):
        cs = " ".join(dumps(c) for c in pl["cands"])
        return f"(unify-table ({cs}) {pl['pattern']} {pl['target']})"

    def run_impl(self, pl):
        try:
            recs = run_unifier(pl)
        except RecursionError:
            raise
        except Exception as ex:
            return err_sx(ex)

        def amap(m):
            return "(" + " ".join(f"({dumps(k)} {dumps(expr_to_sx(v))})" for k, v in m.items()) + ")"
        return "(ok" + "".join(f" ({amap(r.lmap)} {amap(r.rmap)})" for r in recs) + ")"

    def agree(self, model, impl, pl):
        if "(noclaim)" in model:
            return "trivial"
        if impl.startswith("(err"):
            # the code raised: the table must not claim a result
            return "trivial" if not model.startswith("(ok") else "diff"
        return "ok" if model == impl else "diff"

    def oracle(self, pl):
        return None          # the instantiation law is checked by the streams above

    def shrink(self, pl):
        return iter(())

    def nontrivial_key(self, pl, model, impl):
        if impl.startswith("(err") or impl == "(ok)":
            return None
        return pl["pattern"] + "|" + pl["target"] + "|" + ",".join(pl["cands"])

    def stats(self, pl, mo, io, acc):
        k = "raises" if io.startswith("(err") else "no-record" if io == "(ok)" else "records"
        acc[k] = acc.get(k, 0) + 1
        if mo is not None and mo.startswith("(stuck"):
            acc["table_stuck"] = acc.get("table_stuck", 0) + 1


# {{{ matchpy bridge (oracle only: matchpy's matcher is an external runtime)

MP_KINDS = ["sum", "sum", "sum", "prod", "prod", "quot", "floordiv", "rem", "pow", "call", "call",
            "subscript", "cmp", "if"]


def sx_paths(t, path=()):
    """paths of all expression subtrees of a wire-format tree"""
    if isinstance(t, list) and t and isinstance(t[0], A):
        if t[0] != "Tuple":
            yield path
        for i, c in enumerate(t[1:], 1):
            if isinstance(c, list):
                if c and isinstance(c[0], A):
                    yield from sx_paths(c, (*path, i))
                else:
                    for j, cc in enumerate(c):
                        yield from sx_paths(cc, (*path, i, j))


def sx_get(t, path):
    for i in path:
        t = t[i]
    return t


def sx_put(t, path, new):
    if not path:
        return new
    t = list(t)
    t[path[0]] = sx_put(t[path[0]], path[1:], new)
    return t


def make_wild_pattern(rng, sub, stars=True):
    """abstract a tree into a pattern: some subtrees become dot wildcards (equal subtrees may share
    a name), a tail of an operand list may become a star wildcard"""
    pat = sub
    names = {}
    for _ in range(rng.choice([0, 1, 1, 2, 2, 3])):
        paths = [q for q in sx_paths(pat) if q]
        if not paths:
            break
        q = rng.choice(paths)
        old = sx_get(pat, q)
        if old[0] in ("DotWildcard", "StarWildcard"):
            continue
        key = dumps(old)
        if key in names and rng.random() < 0.7:
            nm = names[key]
        else:
            nm = f"w{len(names)}_"
            names[key] = nm
        pat = sx_put(pat, q, [A("DotWildcard"), nm])
    if stars and rng.random() < 0.45:
        cands = []
        for q in sx_paths(pat):
            s = sx_get(pat, q)
            if s[0] in ("Sum", "Product") and len(s) >= 2:
                cands.append((q, None))
            if s[0] == "Call":
                cands.append((q, 2))
        if cands:
            q, slot = rng.choice(cands)
            s = list(sx_get(pat, q))
            if slot is None:
                ops = s[1:]
                k = rng.randint(0, len(ops))
                rng.shuffle(ops)
                s = [s[0], *ops[:k], [A("StarWildcard"), "s_"]]
            else:
                args = list(s[2])
                k = rng.randint(0, len(args))
                s[2] = [*args[:k], [A("StarWildcard"), "s_"]]
            pat = sx_put(pat, q, s)
    return pat


def binding_to_sx(v):
    """a value reported for a wildcard: a tree (dot) or a sequence of trees (star)"""
    import multiset
    if isinstance(v, multiset.BaseMultiset):
        out = []
        for k, n in v.items():
            out.extend([expr_to_sx(k)] * n)
        return ("seq", out)
    if isinstance(v, tuple):
        return ("seq", [expr_to_sx(k) for k in v])
    return ("one", expr_to_sx(v))


def inst_reported(pat, subst):
    b = {}
    for k, v in subst.items():
        kind, val = binding_to_sx(v)
        b[k] = val
    return acnorm.inst_wild(pat, b)


def occurs_under_arguments(t, keys, under=False):
    """does a subtree with one of the AC keys occur inside the arguments of a call or the indices of
    a subscript (where the bridge wraps the operands in a TupleOp)?"""
    if not isinstance(t, list) or not t:
        return False
    if isinstance(t[0], A):
        if under and t[0] != "Tuple" and acnorm.ac_key(t, 0, True) in keys:
            return True
        if t[0] == "Call":
            return (occurs_under_arguments(t[1], keys, under)
                    or any(occurs_under_arguments(c, keys, True) for c in t[2]))
        if t[0] == "Subscript":
            return (occurs_under_arguments(t[1], keys, under)
                    or occurs_under_arguments(t[2], keys, True))
        return any(occurs_under_arguments(c, keys, under) for c in t[1:])
    return any(occurs_under_arguments(c, keys, under) for c in t)


class MatchpyStream(Stream):
    """to/from conversion round trip, match, match_anywhere, replace_all of the matchpy bridge"""
    name = "matchpy-bridge"
    has_model = False

    def cases(self, rng, tier):
        n = 900 if tier == "quick" else 12000
        for i in range(n):
            op = ["roundtrip", "match", "anywhere", "replace", "match", "roundtrip"][i % 6]
            kinds = MP_KINDS + (["shift", "not", "logic"] if op == "roundtrip" else [])
            g = UGen(rng, CVARS[: rng.randint(1, 4)], zero_rate=0.03,
                     degenerate=0.1 if (op == "roundtrip" and i % 5 == 0) else 0.0,
                     max_ac=rng.choice([3, 4]), kinds=kinds)
            subj = expr_to_sx(g.gen(rng.randint(1, 3)))
            if op == "roundtrip":
                yield {"op": op, "subject": dumps(subj)}
                continue
            paths = list(sx_paths(subj))
            if op == "match":
                base = subj
            else:
                big = [q for q in paths if len(sx_get(subj, q)) > 1
                       and sx_get(subj, q)[0] not in ("Int", "Bool", "Var")]
                base = sx_get(subj, rng.choice(big)) if big else subj
            if base[0] in ("Int", "Bool", "Var"):
                base = [A("Sum"), base, [A("Var"), "a"]]
                if op == "match":
                    subj = base
            if rng.random() < 0.15:
                base = expr_to_sx(g.gen(rng.randint(1, 2)))       # unrelated pattern: mostly no match
                if base[0] in ("Int", "Bool", "Var"):
                    base = [A("Sum"), base, [A("Var"), "a"]]
            pat = make_wild_pattern(rng, base)
            if rng.random() < 0.3:
                subj = scramble(rng, subj)
            yield {"op": op, "subject": dumps(subj), "pattern": dumps(pat)}

    def request(self, pl):
        return "(nop)"

    def _run(self, pl):
        """-> (outcome kind, data)"""
        import pymbolic.interop.matchpy as m
        subj = sx_to_expr(loads(pl["subject"]))
        if pl["op"] == "roundtrip":
            from pymbolic.interop.matchpy.tofrom import (FromMatchpyExpressionMapper,
                                                         ToMatchpyExpressionMapper)
            return "value", FromMatchpyExpressionMapper()(ToMatchpyExpressionMapper()(subj))
        pat = sx_to_expr(loads(pl["pattern"]))
        if pl["op"] == "match":
            return "matches", list(m.match(subj, pat))
        if pl["op"] == "anywhere":
            return "matches", list(m.match_anywhere(subj, pat))
        calls = []

        def repl(**kw):
            calls.append(kw)
            return p.Variable(f"R{len(calls)}_")
        rule = m.make_replacement_rule(pat, repl)
        return "replaced", (m.replace_all(subj, [rule]), calls)

    def run_impl(self, pl):
        try:
            kind, data = self._run(pl)
        except RecursionError:
            raise
        except Exception as ex:
            return err_sx(ex)
        if kind == "value":
            return dumps(expr_to_sx(data))
        if kind == "matches":
            return f"(matches {len(data)})"
        return f"(replaced {len(data[1])})"

    def oracle(self, pl):
        try:
            kind, data = self._run(pl)
        except RecursionError:
            raise
        except Exception:
            return None      # raising reports no match / replacement (counted in the statistics)
        subj = loads(pl["subject"])
        if kind == "value":
            back = expr_to_sx(data)
            if dumps(acnorm.order_norm(back)) == dumps(acnorm.order_norm(subj)):
                return None
            if dumps(acnorm.order_norm(back, True)) == dumps(acnorm.order_norm(subj, True)):
                return Failure("matchpy-roundtrip-flattens-nested-associative",
                               f"{sx_to_expr(subj)!r} comes back as {data!r}", pl)
            return Failure("matchpy-roundtrip-differs", f"{sx_to_expr(subj)!r} comes back as {data!r}", pl)
        pat = loads(pl["pattern"])
        if kind == "matches":
            want = acnorm.ac_key(subj, 0, True)
            for mt in data:
                if pl["op"] == "anywhere":
                    subst, where = mt
                    want = acnorm.ac_key(expr_to_sx(where), 0, True)
                    if want not in acnorm.subtree_keys(subj, 0, True):
                        return Failure("matchpy-anywhere-not-a-subterm",
                                       f"{where} reported as the matched part of {sx_to_expr(subj)}", pl)
                else:
                    subst = mt
                got = acnorm.ac_key(inst_reported(pat, subst), 0, True)
                if got != want:
                    return Failure("matchpy-match-instantiation-differs",
                                   f"{dict(subst)} in {pl['pattern']} does not give the matched term "
                                   f"of {sx_to_expr(subj)}", pl)
            return None
        res, calls = data
        cur = expr_to_sx(res)
        for i in range(len(calls), 0, -1):
            cur = acnorm.inst(cur, {f"R{i}_": inst_reported(pat, calls[i - 1])})
        if acnorm.ac_key(cur, 0, True) != acnorm.ac_key(subj, 0, True):
            matched = {acnorm.ac_key(inst_reported(pat, kw), 0, True) for kw in calls}
            if occurs_under_arguments(subj, matched):
                return Failure("matchpy-replace-inside-arguments-splices-operands",
                               f"replace_all({sx_to_expr(subj)}) with {pl['pattern']} -> R gives {res}", pl)
            return Failure("matchpy-replacement-instantiation-differs",
                           f"undoing the {len(calls)} reported replacement(s) in {res} gives "
                           f"{sx_to_expr(cur)}, subject {sx_to_expr(subj)}", pl)
        return None

    def shrink(self, pl):
        for s in sx_shrinks(loads(pl["subject"])):
            yield {**pl, "subject": dumps(s)}

    def nontrivial_key(self, pl, model, impl):
        if impl.startswith("(err") or impl in ("(matches 0)", "(replaced 0)"):
            return None
        return pl["op"] + pl["subject"] + pl.get("pattern", "")

    def stats(self, pl, mo, io, acc):
        k = acc.setdefault(pl["op"], {})
        key = io if io.startswith(("(err", "(matches", "(replaced")) else "converted"
        if key.startswith("(matches") and key != "(matches 0)":
            key = "(matches >0)"
        if key.startswith("(replaced") and key != "(replaced 0)":
            key = "(replaced >0)"
        k[key] = k.get(key, 0) + 1

# }}}


# {{{ probes: the minimal inputs of the known findings, replayed on the real code

def probes():
    import pymbolic.interop.matchpy as m
    from pymbolic.interop.matchpy.tofrom import (FromMatchpyExpressionMapper,
                                                 ToMatchpyExpressionMapper)
    from pymbolic.mapper.unifier import UnidirectionalUnifier
    x, y, a, b, c, f, g = (p.Variable(v) for v in "xyabcfg")
    out = []

    def uni(key, pat, tgt, cands, bad):
        try:
            recs = [dict(r.lmap) for r in UnidirectionalUnifier(set(cands))(pat, tgt)]
        except Exception as ex:
            out.append((key, False, f"now raises {type(ex).__name__}"))
            return
        out.append((key, recs == bad, f"{pat!r} vs {tgt!r}: records {recs}"))

    uni("unifier-empty-leftover-binds-identity", p.Sum((x, a, b)), p.Sum((a, b)), "x", [{"x": 0}])
    uni("unifier-leftover-drops-neutral-operand", p.Sum((x, b)), p.Sum((b, 0, a)), "x", [{"x": a}])
    uni("unifier-product-leftover-zero-collapse", p.Product((x, b)), p.Product((b, 0, a)), "x",
        [{"x": 0}])
    uni("unifier-empty-nary-pattern-resets-records", f(x, p.Sum(())), f(a, p.Sum(())), "x", [{}])
    uni("unifier-index-1-tuple-unpacked", p.Subscript(a, x), p.Subscript(a, (b,)), "x", [{"x": b}])
    e = p.Sum((p.Sum((a, b)), c))
    try:
        back = FromMatchpyExpressionMapper()(ToMatchpyExpressionMapper()(e))
        out.append(("matchpy-roundtrip-flattens-nested-associative", back == p.Sum((a, b, c)),
                    f"{e!r} -> {back!r}"))
    except Exception as ex:
        out.append(("matchpy-roundtrip-flattens-nested-associative", False, f"raises {ex!r}"))
    try:
        rule = m.make_replacement_rule(g(p.DotWildcard("w_")), lambda w_: p.Variable("R"))
        res = m.replace_all(f(p.Power(g(a), 3)), [rule])
        out.append(("matchpy-replace-inside-arguments-splices-operands",
                    res == f(p.Variable("R"), 3), f"f(g(a)**3) with g(w_) -> R gives {res!r}"))
    except Exception as ex:
        out.append(("matchpy-replace-inside-arguments-splices-operands", False, f"raises {ex!r}"))
    try:
        import multiset
        got = []

        def cb(**kw):
            got.append(kw)
            return p.Variable("R")
        from pymbolic.interop.matchpy.tofrom import ToFromReplacement
        T, F = ToMatchpyExpressionMapper(), FromMatchpyExpressionMapper()
        ms = multiset.Multiset()
        ms.add(m.Variable(m.Id("a"), variable_name="q"), 2)
        ms.add(T(a), 1)
        ToFromReplacement(cb, T, F)(s_=ms)
        out.append(("matchpy-replacement-multiset-keys-differ-only-by-variable-name",
                    dict(got[0]["s_"].items()) == {a: 1},
                    f"captured {{a (named q): 2, a: 1}}, the callback received {got[0]['s_']!r}"))
    except Exception as ex:
        out.append(("matchpy-replacement-multiset-keys-differ-only-by-variable-name", False,
                    f"raises {ex!r}"))
    return out

# }}}


def extract(ctx=None):
    """T-gen: the flag / arity table of the bridge's operation classes, regenerated from the live
    classes into lean/PV/Generated/MatchpyOps.lean"""
    from extract.matchpy_ops import extract_matchpy
    return extract_matchpy(ctx)


def extract_unifier(ctx=None):
    """T-gen: every function of pymbolic/mapper/unifier.py translated statement by statement into
    lean/PV/Generated/Unifier.lean"""
    from extract.unifier import extract_unifier as ex
    return ex(ctx)


PROP = Prop(
    id="C16",
    title="Pattern matching results are sound",
    lean_targets=["PV.Properties.C16", "PV.Properties.C16Table"],
    theorems=[],
    partial={
        "PV.C16.unify_sound_partial":
            "the instantiation law holds for all patterns / targets / candidate sets satisfying the "
            "decidable hypothesis `guards`; the five excluded shapes are real deviations of the code "
            "(witness theorems *_cex, known findings unifier-*)",
        "PV.C16.unify_extends_partial":
            "same guards; the call with incoming records extends one of them",
        "PV.C16.unify_value_partial":
            "same guards; the instantiated pattern and the target have the same value in every "
            "field of characteristic 0",
        "PV.C16.roundtrip_exact_partial":
            "the matchpy round trip returns the tree unchanged under the decidable hypothesis "
            "`bridgeNormal` (no nested application of an operator declared associative, operands of "
            "commutative operators in list.sort() order, tuple indices, no wildcards); the excluded "
            "shapes are witnessed by roundtrip_*_cex; roundtrip_equiv / roundtrip_value hold for "
            "every convertible wildcard-free tree",
        "PV.C16.logical_flags_den_partial":
            "for the evaluator meaning `den` the commutative / associative flags on LogicalOr / "
            "LogicalAnd are sound when every operand evaluates to a value with a truth value "
            "(computable hypothesis `truths env cs = ok _`); any / all short-circuit, so an operand "
            "that raises makes the value order-dependent (logical_commutative_den_cex)",
        "PV.C16.replacement_receives_all_partial":
            "ToFromReplacement hands every captured operand to the callback with its multiplicity "
            "when the images of the keys of the captured Multiset are pairwise different "
            "(decidable `pairwiseNe`); otherwise the dict comprehension overwrites a count "
            "(replacement_multiset_overwrite_cex, known finding)",
    },
    streams=[UnifyStream(), SmallACStream(), TableStream(), MatchpyStream(), ConvertStream(), FromStream(),
             OrderStream(), ReplacementStream(), RenamingStream()],
    probes=[probes],
    extractors=[extract, extract_unifier],
    trusted_base=[
        "Lean 4.33 kernel; axioms propext, Classical.choice, Quot.sound only",
        "harness serialisation; Expr.pyEq as the model of Python == (C01)",
        "flattened_sum / flattened_product as modelled in lean/PV/Model/Ops.lean (C03)",
        "unifier table (T-gen): the reader extract/unifier.py (Python name resolution, alias check) and "
        "the meaning lean/PV/Model/UnifyTable.lean gives the table language (value semantics, "
        "ascending iteration of small-int sets, itertools.combinations, Mapper.__call__ = the dispatch "
        "model of C04) — tied to the code by the unifier-table stream",
        "matchpy's matcher (match / match_anywhere / replace_all: external runtime, only observed); "
        "its Operation metaclass (flatten / one-identity / sort) and CPython 3.12 list.sort for "
        "fewer than 64 elements are modelled (mk, pySort) and tied by the matchpy-order stream",
    ],
    assumptions=[
        "model fragment: int/bool constants, variables, Sum, Product, Quotient, FloorDiv, Remainder, "
        "Power, shifts, BitwiseNot, LogicalNot, Comparison, If, Call, Subscript, Lookup; targets with "
        "at most 8 operands per sum / product (CPython small-int set order); elsewhere the model "
        "abstains and only the oracle speaks",
        "matchpy bridge: the model covers the operation classes and their flags (table regenerated "
        "from the live classes), __lt__ / __eq__ / __repr__ of the terms, matchpy's constructor, "
        "ToMatchpyExpressionMapper, FromMatchpyExpressionMapper, ToFromReplacement and the "
        "substitution conversion of match; exact for plain-ASCII names, finite floats and fewer than "
        "64 operands per node, elsewhere the model abstains; match / match_anywhere / replace_all "
        "results are checked by the independent oracles only (matchpy's matcher is an external "
        "runtime)",
    ],
    level_text='The model of the unifier is proved to be what the CURRENT SOURCE of pymbolic/mapper/unifier.py prescribes: every function of the module (unify_map, UnificationRecord, unify_many, unification_record_from_equation, all map_* handlers, map_commut_assoc with match_children / match_plain_var_candidates / subsets / partitions) is re-read statement by statement on every run into a table, and for all patterns of the model, all targets and all records one dispatched call of the table interpreter on that table equals unifyE (unifyE_eq_table_current; unifyE is the unique solution: unifyE_unique_current); the compiled interpreter on the regenerated table is compared with the real unifier on 850 cases per run. Lean theorems about a model of UnidirectionalUnifier (unify_map, records with lmap/rmap, all structural rules, map_commut_assoc with candidate pairing and leftover partitioning), unbounded in tree size and arity: on ALL inputs every record binds only declared variables and each of them once; on all inputs outside five explicitly excluded shapes (decidable guards) every record binds every pattern variable and instantiates the pattern to the target up to reordering / regrouping of sums and products (an inductive congruence with a proved-sound normal-form decision procedure). Each excluded shape is proved to violate the law by a concrete witness and is a known finding replayed on the code. Completeness: if the target is the pattern under a renaming that is injective on its variables and fixes the non-candidates, a record is returned and one of the records is the renaming (full strength on the fragment, including degenerate sums). AC-equal trees have equal values in every field of characteristic 0. The model is tied to the code by exact comparison of the record lists (order, binding order) and of the per-record verdicts (Lean acEquiv vs an independent Python AC normaliser) on ~4k cases per quick run; "guards imply all verdicts true" and renaming completeness are also checked on the real records; the completeness clause is additionally run (model and oracle) on renamings INTO the pattern\'s own names - every permutation of its variables, partial overlaps, fresh names, exhaustive over all injective renamings for 39 small patterns whose sums / products carry compound operands that share variables (stream unifier-renaming, ~2.8k cases). Matchpy bridge: a Lean model of the term classes of the bridge (flag / arity table regenerated from the live classes on every run and compared by `decide`), of the constructor of matchpy (flatten, sort with the list.sort of CPython on the non-transitive `<`), of both mappers and of ToFromReplacement; theorems: exactly which trees convert; the conversion round trip returns the tree unchanged on the decidable fragment `bridgeNormal`, and for EVERY convertible wildcard-free tree returns a tree equal up to operand order of the operators declared commutative, merging of nested applications of operators declared associative and tuple-writing of indices, with the same value in every field of characteristic 0; every class declared commutative / associative stands for an n-ary node whose evalC value is invariant under permutation / regrouping (no class is declared one-identity), and the constructor of matchpy preserves the value; ToFromReplacement hands every captured operand to the callback with its multiplicity when the images of the captured keys are pairwise different, which is proved for every Multiset of pairwise different well-formed name-free terms, i.e. for everything captured from a converted subject (fromM reflects ==). Tied to the code by ~9k structural comparisons per quick run (terms printed structurally). match / match_anywhere / replace_all results (the matcher of matchpy) are checked by independent oracles only.',
    level_note='Trusted: Lean kernel; the harness; Expr.pyEq for Python ==; matchpy is an external runtime (its matcher is not modelled). The instantiation law is FALSE on the current tree in five shapes (empty leftover bound to 0/1, neutral leftover operands dropped, zero factor collapsing a product share, empty Sum/Product pattern resetting the records, 1-tuple subscript index unpacked) and for the bridge in three (nested associative operators flattened by matchpy; replace_all below call arguments / subscript indices splices operands; ToFromReplacement overwrites the count of Multiset keys that differ only in a variable_name): all eight are known findings with minimal inputs. Crashes are not counted as violations (match / match_anywhere raise on every star wildcard; Min/Max/bitwise/logical patterns raise in generate_permutations(range(n))).',
    technique='source of unifier.py re-read on every run into a statement-level table (T-gen) + Lean proof that the hand-written unifier model is the table interpreter run on that table (all arguments; unique solution of the dispatch equation) + Lean 4 mutual-induction soundness proof of the unifier model w.r.t. an inductive AC congruence + invariant-based refutations + differential correspondence (records and verdicts) + independent AC-normaliser oracles for the unifier and the matchpy bridge + regenerated class table (T-gen) and structural term correspondence for the bridge model',
    design_ref="DESIGN.md §4 C16",
)
