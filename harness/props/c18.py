"""C18 — multivectors obey the axioms of geometric (Clifford) algebra."""
from __future__ import annotations

import itertools
from fractions import Fraction

import numpy as np

from ..core import Failure, Prop, Stream
from ..sexp import dumps


def space(dims, metric):
    from pymbolic.geometric_algebra import Space
    return Space(dims, np.diag(np.array(list(metric) + [1] * (dims - len(metric)), dtype=object))
                 if dims else np.zeros((0, 0), dtype=object))


def mv_sx(d):
    return "(" + " ".join(f"({k} {int(v)})" for k, v in d.items()) + ")"


def data_of(m):
    from pymbolic.geometric_algebra import MultiVector
    return m.data if isinstance(m, MultiVector) else m


def metric_sx(metric):
    return "(" + " ".join(str(int(g)) for g in metric) + ")"


# {{{ independent list-based blade multiplication (the oracle)

def blade_list(bits):
    return [i for i in range(bits.bit_length()) if bits >> i & 1]


def list_product(a_list, b_list, metric):
    """Multiply two basis blades given as index lists by sorting with adjacent swaps (each swap
    of distinct vectors flips the sign) and contracting equal neighbours with the metric."""
    seq = list(a_list) + list(b_list)
    sign = 1
    changed = True
    while changed:
        changed = False
        for i in range(len(seq) - 1):
            if seq[i] > seq[i + 1]:
                seq[i], seq[i + 1] = seq[i + 1], seq[i]
                sign = -sign
                changed = True
    coeff = sign
    out = []
    i = 0
    while i < len(seq):
        if i + 1 < len(seq) and seq[i] == seq[i + 1]:
            coeff = coeff * metric[seq[i]]
            i += 2
        else:
            out.append(seq[i])
            i += 1
    bits = 0
    for k in out:
        bits |= 1 << k
    return bits, coeff


def grade(bits):
    return bin(bits).count("1")

# }}}


METRIC_VALUES = [1, -1, 0, 2]


def metrics_for(dims, rng, tier):
    allm = list(itertools.product(METRIC_VALUES, repeat=dims))
    if tier == "thorough" or len(allm) <= 16:
        return allm
    pick = [tuple([1] * dims), tuple([-1] * dims), tuple([0] * dims), tuple([2] * dims)]
    pick += rng.sample(allm, 12)
    return pick


class BladePairs(Stream):
    """all pairs of basis blades in dimensions 0..4 (5 thorough) x diagonal metrics over {1,-1,0,2}"""
    name = "blade-pairs"

    def cases(self, rng, tier):
        maxd = 4 if tier == "quick" else 5
        for dims in range(maxd + 1):
            for metric in metrics_for(dims, rng, tier):
                for a in range(2 ** dims):
                    for b in range(2 ** dims):
                        yield {"dims": dims, "metric": list(metric), "a": a, "b": b}

    def request(self, pl):
        return f"(ga-blade {metric_sx(pl['metric'])} {pl['a']} {pl['b']})"

    def _weights(self, pl):
        from pymbolic.geometric_algebra import (_GeometricProduct, _InnerProduct,
                                                _LeftContractionProduct, _OuterProduct,
                                                _RightContractionProduct, _ScalarProduct,
                                                canonical_reordering_sign)
        sp = space(pl["dims"], pl["metric"])
        a, b = pl["a"], pl["b"]
        ws = [c.orthogonal_blade_product_weight(a, b, sp) for c in
              (_OuterProduct, _GeometricProduct, _InnerProduct, _LeftContractionProduct,
               _RightContractionProduct, _ScalarProduct)]
        return canonical_reordering_sign(a, b), ws

    def run_impl(self, pl):
        s, ws = self._weights(pl)
        return "(" + " ".join(str(int(x)) for x in [s] + ws) + ")"

    def oracle(self, pl):
        s, ws = self._weights(pl)
        a, b, metric = pl["a"], pl["b"], pl["metric"]
        bits, coeff = list_product(blade_list(a), blade_list(b), metric)
        if bits != a ^ b:
            return Failure("oracle-bug", "xor", pl)
        ga, gb, gr = grade(a), grade(b), grade(bits)
        want = {
            "geometric": coeff,
            "outer": coeff if gr == ga + gb else 0,
            "inner": coeff if gr == abs(ga - gb) else 0,
            "lc": coeff if (ga <= gb and gr == gb - ga) else 0,
            "rc": coeff if (gb <= ga and gr == ga - gb) else 0,
            "scalar": coeff if gr == 0 else 0,
        }
        got = dict(zip(["outer", "geometric", "inner", "lc", "rc", "scalar"], [s * w for w in ws]))
        for k in want:
            if want[k] != got[k]:
                return Failure(f"blade-{k}", f"blades {a},{b} metric {metric}: {k} product "
                               f"coefficient {got[k]}, list-based multiplication gives {want[k]}", pl)
        return None

    def nontrivial_key(self, pl, model, impl):
        return f"{pl['dims']} {pl['metric']} {pl['a']} {pl['b']}" if pl["a"] and pl["b"] else None

    def stats(self, pl, mo, io, acc):
        acc.setdefault("by_dim", {})
        acc["by_dim"][str(pl["dims"])] = acc["by_dim"].get(str(pl["dims"]), 0) + 1


def rand_mv(rng, dims, maxterms=4):
    d = {}
    for _ in range(rng.randint(0, maxterms)):
        d[rng.randrange(2 ** dims)] = rng.randint(-3, 3)
    return d


def make(d, sp):
    from pymbolic.geometric_algebra import MultiVector
    return MultiVector({k: Fraction(v) for k, v in d.items()}, sp)


class MultiVectors(Stream):
    """random multivectors (integer coefficients, stored zeros included): every operation the
    model mirrors, and the algebraic laws on the real objects"""
    name = "multivectors"

    def cases(self, rng, tier):
        n = 600 if tier == "quick" else 10000
        for _ in range(n):
            dims = rng.randint(0, 4)
            metric = [rng.choice(METRIC_VALUES) for _ in range(dims)]
            yield {"dims": dims, "metric": metric, "a": rand_mv(rng, dims), "b": rand_mv(rng, dims),
                   "c": rand_mv(rng, dims, 2)}
        # all triples of basis blades in dims <= 3 (associativity), Euclidean and mixed metrics
        for dims in range(0, 4 if tier == "quick" else 5):
            for metric in ([1] * dims, [2, -1, 0, 1][:dims]):
                for a, b, c in itertools.product(range(2 ** dims), repeat=3):
                    yield {"dims": dims, "metric": metric, "a": {a: 1}, "b": {b: 1}, "c": {c: 1}}

    def request(self, pl):
        # JSON turns int keys into strings on replay; normalise
        a = {int(k): v for k, v in pl["a"].items()}
        b = {int(k): v for k, v in pl["b"].items()}
        return f"(ga-mv {metric_sx(pl['metric'])} {pl['dims']} {mv_sx(a)} {mv_sx(b)})"

    def _objs(self, pl):
        sp = space(pl["dims"], pl["metric"])
        return sp, *[make({int(k): v for k, v in pl[x].items()}, sp) for x in "abc"]

    def run_impl(self, pl):
        sp, a, b, _c = self._objs(pl)

        def sh(m):
            return mv_sx(data_of(m))

        def tr(f):
            try:
                return str(int(f()))
            except ValueError:
                return "ERR"
        parts = [sh(a * b), sh(a ^ b), sh(a | b), sh(a << b), sh(a >> b),
                 tr(lambda: a.scalar_product(b)), sh(a.rev()), sh(a.invol()), sh(a.project(2)),
                 tr(lambda: a.norm_squared())]
        try:
            nsq = a.norm_squared()
            r = a.inv()
            parts.append("(" + mv_sx({k: v * nsq for k, v in r.data.items()}) + f" {int(nsq)})")
        except (ZeroDivisionError, NotImplementedError, ValueError) as e:
            parts.append(type(e).__name__)
        low = lambda v: "true" if v else "false"  # noqa: E731
        parts += [low(a == b), low(a == a), low(bool(a)), low(a == 0)]
        parts.append(sh(a.dual()))
        pg = a.get_pure_grade()
        parts.append("none" if pg is None else str(pg))
        parts += [sh(a + b), sh(a - b)]
        return "(" + " ".join(parts) + ")"

    def agree(self, model, impl, pl):
        if model == impl:
            return "ok"
        # a + b / a - b iterate a Python set: compare the last two dictionaries as mappings
        from ..sexp import loads
        m, i = loads(model), loads(impl)
        if m[:-2] != i[:-2]:
            return "diff"
        for x, y in zip(m[-2:], i[-2:]):
            if sorted(map(tuple, x)) != sorted(map(tuple, y)):
                return "diff"
        return "ok"

    def oracle(self, pl):
        sp, a, b, c = self._objs(pl)

        def coeffs(m):
            return {k: v for k, v in data_of(m).items() if v != 0}

        def same(x, y):
            return coeffs(x) == coeffs(y)
        # associativity and bilinearity of the geometric and outer products
        if not same((a * b) * c, a * (b * c)):
            return Failure("assoc", f"(a*b)*c != a*(b*c): {a!r} {b!r} {c!r}", pl)
        if not same((a ^ b) ^ c, a ^ (b ^ c)):
            return Failure("outer-assoc", "(a^b)^c != a^(b^c)", pl)
        if not same(a * (b + c), a * b + a * c) or not same((a + b) * c, a * c + b * c):
            return Failure("bilinear", "distributivity fails", pl)
        if not same((2 * a) * b, 2 * (a * b)):
            return Failure("bilinear", "scalar factor", pl)
        if not same((a * b).rev(), b.rev() * a.rev()):
            return Failure("rev", "rev is not an anti-automorphism", pl)
        if not same((a * b).invol(), a.invol() * b.invol()):
            return Failure("invol", "invol is not an automorphism", pl)
        # grade parts: outer/inner/contractions of blades are grade parts of the geometric product
        # equality / truth vs coefficient-wise comparison
        pruned = lambda m: all(v != 0 for v in data_of(m).values())  # noqa: E731
        if pruned(a) and pruned(b):
            if (a == b) != (coeffs(a) == coeffs(b)):
                return Failure("eq-coeffwise", f"{a!r} == {b!r} is {a == b}", pl)
            if bool(a) != bool(coeffs(a)):
                return Failure("bool-coeffwise", f"bool({a!r})", pl)
            if (a == b) and hash(a) != hash(b):
                return Failure("hash", "equal multivectors hash differently", pl)
        # results of the products themselves compare / test coefficient-wise
        from pymbolic.geometric_algebra import MultiVector
        for nm, r in (("geometric", a * b), ("outer", a ^ b), ("inner", a | b), ("sum", a + b)):
            clean = MultiVector(dict(coeffs(r)), sp)
            if bool(r) != bool(coeffs(r)):
                return Failure("result-bool-coeffwise", f"bool({nm} product {r!r}) = {bool(r)}", pl)
            if not (r == clean) or (hash(r) != hash(clean)):
                return Failure("result-eq-coeffwise", f"{nm} product {r!r} != its non-zero "
                               f"coefficients {clean!r} (or hashes differ)", pl)
        # inverse of a non-null blade
        if len(coeffs(a)) == 1 and pruned(a):
            try:
                nsq = a.norm_squared()
                ok = nsq != 0
            except Exception:
                ok = False
            if ok:
                one = a.inv() * a
                if coeffs(one) != {0: 1}:
                    return Failure("blade-inv", f"inv(a)*a = {one!r} for {a!r}", pl)
        return None

    def nontrivial_key(self, pl, model, impl):
        return dumps([pl["dims"], pl["metric"], sorted(pl["a"].items()), sorted(pl["b"].items())]) \
            if pl["a"] and pl["b"] else None


class Perms(Stream):
    name = "permutation-signs"

    def cases(self, rng, tier):
        for n in range(0, 5 if tier == "quick" else 7):
            for p in itertools.permutations(range(n)):
                yield {"what": "permsign", "p": list(p)}
        for n in range(0, 4):
            for p in itertools.permutations(range(4), n):
                yield {"what": "bitsandsign", "p": list(p)}
        yield {"what": "permsign", "p": [1, 0, 3]}

    def request(self, pl):
        return f"(ga-{pl['what']} ({' '.join(map(str, pl['p']))}))"

    def run_impl(self, pl):
        from pymbolic.geometric_algebra import Space, permutation_sign
        if pl["what"] == "permsign":
            try:
                return str(permutation_sign(pl["p"]))
            except IndexError:
                return "IndexError"
        b, s = Space(4).bits_and_sign(tuple(pl["p"]))
        return f"({b} {s})"

    def oracle(self, pl):
        if pl["what"] != "permsign" or sorted(pl["p"]) != list(range(len(pl["p"]))):
            return None
        from pymbolic.geometric_algebra import permutation_sign
        p = pl["p"]
        inv = sum(1 for i in range(len(p)) for j in range(i) if p[j] > p[i])
        want = -1 if inv % 2 else 1
        if permutation_sign(p) != want:
            return Failure("permutation-sign", f"{p}: {permutation_sign(p)} vs inversion parity {want}", pl)
        return None


def probes():
    from pymbolic.geometric_algebra import MultiVector, Space
    sp = Space(2)
    e0 = MultiVector({1: 1}, sp)
    z = e0 - e0
    res = [("mv-scalar-zero-stored", (not (z == 0)) or bool(MultiVector(0, sp)),
            "(e0 - e0) == 0 is False and bool(MultiVector(0)) is True: a scalar zero is stored as "
            "{0: 0} while arithmetic prunes zeros")]
    return res


PROP = Prop(
    id="C18",
    title="Multivectors obey the axioms of geometric (Clifford) algebra",
    lean_targets=["PV.Properties.C18"],
    theorems=[],
    streams=[BladePairs(), MultiVectors(), Perms()],
    probes=[probes],
    trusted_base=["Lean 4.33 kernel; axioms propext, Classical.choice, Quot.sound only",
                  "harness/props/c18.py (line protocol, list-based blade multiplication oracle)",
                  "coefficients are integers in the model (weights and cocycles are proved over "
                  "arbitrary commutative rings); floats/symbolic coefficients are not modelled"],
    level_text='Lean theorems for ALL bitmaps (hence all dimensions, beyond the 0-5 of the property) and all diagonal integer metrics: the reordering sign is the inversion parity and satisfies the cocycle identity, metric weights satisfy theirs, hence the geometric and outer products of arbitrary multivectors are associative and bilinear (under Python == of the pruned dictionaries); basis vectors square to the metric and anticommute; the five other products are the stated grade parts; rev is an anti-automorphism, invol an automorphism; blade inverse; == and bool are coefficient-wise on pruned data. The model mirrors the code loop by loop and is tied by exhaustive blade pairs in dims 0-4 x metrics and random multivectors.',
    level_note='Trusted: Lean kernel; harness. Multivector coefficients are integers in the model (weights/cocycles proved over arbitrary commutative rings); float and symbolic coefficients, non-diagonal metrics and dual/multi-term inverse have no theorem (correspondence and algebraic-law oracles only).',
    technique='Lean 4 proofs (bit-parity bilinearity, cocycle, finitely-supported-function refinement of the dict product) + exhaustive blade-pair correspondence + list-based blade multiplication oracle',
    design_ref="DESIGN.md §4 C18",
)
