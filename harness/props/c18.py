"""C18 — multivectors obey the axioms of geometric (Clifford) algebra."""
from __future__ import annotations

import itertools
from fractions import Fraction

import numpy as np

from ..core import Failure, Prop, Stream
from ..sexp import dumps


def space(dims, metric):
    from pymbolic.geometric_algebra import Space
    return Space(dims, np.diag(np.array(list(metric) + [1] * (dims - len(metric)), dtype=object))
                 if dims else np.zeros((0, 0), dtype=object))


def mv_sx(d):
    return "(" + " ".join(f"({k} {int(v)})" for k, v in d.items()) + ")"


def data_of(m):
    from pymbolic.geometric_algebra import MultiVector
    return m.data if isinstance(m, MultiVector) else m


def metric_sx(metric):
    return "(" + " ".join(str(int(g)) for g in metric) + ")"


# {{{ independent list-based blade multiplication (the oracle)

def blade_list(bits):
    return [i for i in range(bits.bit_length()) if bits >> i & 1]


def list_product(a_list, b_list, metric):
    """Multiply two basis blades given as index lists by sorting with adjacent swaps (each swap
    of distinct vectors flips the sign) and contracting equal neighbours with the metric."""
    seq = list(a_list) + list(b_list)
    sign = 1
    changed = True
    while changed:
        changed = False
        for i in range(len(seq) - 1):
            if seq[i] > seq[i + 1]:
                seq[i], seq[i + 1] = seq[i + 1], seq[i]
                sign = -sign
                changed = True
    coeff = sign
    out = []
    i = 0
    while i < len(seq):
        if i + 1 < len(seq) and seq[i] == seq[i + 1]:
            coeff = coeff * metric[seq[i]]
            i += 2
        else:
            out.append(seq[i])
            i += 1
    bits = 0
    for k in out:
        bits |= 1 << k
    return bits, coeff


def grade(bits):
    return bin(bits).count("1")

# }}}


METRIC_VALUES = [1, -1, 0, 2]


def metrics_for(dims, rng, tier):
    allm = list(itertools.product(METRIC_VALUES, repeat=dims))
    if tier == "thorough" or len(allm) <= 16:
        return allm
    pick = [tuple([1] * dims), tuple([-1] * dims), tuple([0] * dims), tuple([2] * dims)]
    pick += rng.sample(allm, 12)
    return pick


class BladePairs(Stream):
    """all pairs of basis blades in dimensions 0..4 (5 thorough) x diagonal metrics over {1,-1,0,2}"""
    name = "blade-pairs"

    def cases(self, rng, tier):
        maxd = 4 if tier == "quick" else 5
        for dims in range(maxd + 1):
            for metric in metrics_for(dims, rng, tier):
                for a in range(2 ** dims):
                    for b in range(2 ** dims):
                        yield {"dims": dims, "metric": list(metric), "a": a, "b": b}

    def request(self, pl):
        return f"(ga-blade {metric_sx(pl['metric'])} {pl['a']} {pl['b']})"

    def _weights(self, pl):
        from pymbolic.geometric_algebra import (_GeometricProduct, _InnerProduct,
                                                _LeftContractionProduct, _OuterProduct,
                                                _RightContractionProduct, _ScalarProduct,
                                                canonical_reordering_sign)
        sp = space(pl["dims"], pl["metric"])
        a, b = pl["a"], pl["b"]
        ws = [c.orthogonal_blade_product_weight(a, b, sp) for c in
              (_OuterProduct, _GeometricProduct, _InnerProduct, _LeftContractionProduct,
               _RightContractionProduct, _ScalarProduct)]
        return canonical_reordering_sign(a, b), ws

    def run_impl(self, pl):
        s, ws = self._weights(pl)
        return "(" + " ".join(str(int(x)) for x in [s] + ws) + ")"

    def oracle(self, pl):
        s, ws = self._weights(pl)
        a, b, metric = pl["a"], pl["b"], pl["metric"]
        bits, coeff = list_product(blade_list(a), blade_list(b), metric)
        if bits != a ^ b:
            return Failure("oracle-bug", "xor", pl)
        ga, gb, gr = grade(a), grade(b), grade(bits)
        want = {
            "geometric": coeff,
            "outer": coeff if gr == ga + gb else 0,
            "inner": coeff if gr == abs(ga - gb) else 0,
            "lc": coeff if (ga <= gb and gr == gb - ga) else 0,
            "rc": coeff if (gb <= ga and gr == ga - gb) else 0,
            "scalar": coeff if gr == 0 else 0,
        }
        got = dict(zip(["outer", "geometric", "inner", "lc", "rc", "scalar"], [s * w for w in ws]))
        for k in want:
            if want[k] != got[k]:
                return Failure(f"blade-{k}", f"blades {a},{b} metric {metric}: {k} product "
                               f"coefficient {got[k]}, list-based multiplication gives {want[k]}", pl)
        return None

    def nontrivial_key(self, pl, model, impl):
        return f"{pl['dims']} {pl['metric']} {pl['a']} {pl['b']}" if pl["a"] and pl["b"] else None

    def stats(self, pl, mo, io, acc):
        acc.setdefault("by_dim", {})
        acc["by_dim"][str(pl["dims"])] = acc["by_dim"].get(str(pl["dims"]), 0) + 1


def rand_mv(rng, dims, maxterms=4):
    d = {}
    for _ in range(rng.randint(0, maxterms)):
        d[rng.randrange(2 ** dims)] = rng.randint(-3, 3)
    return d


def make(d, sp):
    from pymbolic.geometric_algebra import MultiVector
    return MultiVector({k: Fraction(v) for k, v in d.items()}, sp)


class MultiVectors(Stream):
    """random multivectors (integer coefficients, stored zeros included): every operation the
    model mirrors, and the algebraic laws on the real objects"""
    name = "multivectors"

    def cases(self, rng, tier):
        n = 600 if tier == "quick" else 10000
        for _ in range(n):
            dims = rng.randint(0, 4)
            metric = [rng.choice(METRIC_VALUES) for _ in range(dims)]
            yield {"dims": dims, "metric": metric, "a": rand_mv(rng, dims), "b": rand_mv(rng, dims),
                   "c": rand_mv(rng, dims, 2)}
        # all triples of basis blades in dims <= 3 (associativity), Euclidean and mixed metrics
        for dims in range(0, 4 if tier == "quick" else 5):
            for metric in ([1] * dims, [2, -1, 0, 1][:dims]):
                for a, b, c in itertools.product(range(2 ** dims), repeat=3):
                    yield {"dims": dims, "metric": metric, "a": {a: 1}, "b": {b: 1}, "c": {c: 1}}

    def request(self, pl):
        # JSON turns int keys into strings on replay; normalise
        a = {int(k): v for k, v in pl["a"].items()}
        b = {int(k): v for k, v in pl["b"].items()}
        return f"(ga-mv {metric_sx(pl['metric'])} {pl['dims']} {mv_sx(a)} {mv_sx(b)})"

    def _objs(self, pl):
        sp = space(pl["dims"], pl["metric"])
        return sp, *[make({int(k): v for k, v in pl[x].items()}, sp) for x in "abc"]

    def run_impl(self, pl):
        sp, a, b, _c = self._objs(pl)

        def sh(m):
            return mv_sx(data_of(m))

        def tr(f):
            try:
                return str(int(f()))
            except ValueError:
                return "ERR"
        parts = [sh(a * b), sh(a ^ b), sh(a | b), sh(a << b), sh(a >> b),
                 tr(lambda: a.scalar_product(b)), sh(a.rev()), sh(a.invol()), sh(a.project(2)),
                 tr(lambda: a.norm_squared())]
        try:
            nsq = a.norm_squared()
            r = a.inv()
            parts.append("(" + mv_sx({k: v * nsq for k, v in r.data.items()}) + f" {int(nsq)})")
        except (ZeroDivisionError, NotImplementedError, ValueError) as e:
            parts.append(type(e).__name__)
        low = lambda v: "true" if v else "false"  # noqa: E731
        parts += [low(a == b), low(a == a), low(bool(a)), low(a == 0)]
        parts.append(sh(a.dual()))
        pg = a.get_pure_grade()
        parts.append("none" if pg is None else str(pg))
        parts += [sh(a + b), sh(a - b)]
        return "(" + " ".join(parts) + ")"

    def agree(self, model, impl, pl):
        if model == impl:
            return "ok"
        # a + b / a - b iterate a Python set: compare the last two dictionaries as mappings
        from ..sexp import loads
        m, i = loads(model), loads(impl)
        if m[:-2] != i[:-2]:
            return "diff"
        for x, y in zip(m[-2:], i[-2:]):
            if sorted(map(tuple, x)) != sorted(map(tuple, y)):
                return "diff"
        return "ok"

    def oracle(self, pl):
        sp, a, b, c = self._objs(pl)

        def coeffs(m):
            return {k: v for k, v in data_of(m).items() if v != 0}

        def same(x, y):
            return coeffs(x) == coeffs(y)
        # associativity and bilinearity of the geometric and outer products
        if not same((a * b) * c, a * (b * c)):
            return Failure("assoc", f"(a*b)*c != a*(b*c): {a!r} {b!r} {c!r}", pl)
        if not same((a ^ b) ^ c, a ^ (b ^ c)):
            return Failure("outer-assoc", "(a^b)^c != a^(b^c)", pl)
        if not same(a * (b + c), a * b + a * c) or not same((a + b) * c, a * c + b * c):
            return Failure("bilinear", "distributivity fails", pl)
        if not same((2 * a) * b, 2 * (a * b)):
            return Failure("bilinear", "scalar factor", pl)
        if not same((a * b).rev(), b.rev() * a.rev()):
            return Failure("rev", "rev is not an anti-automorphism", pl)
        if not same((a * b).invol(), a.invol() * b.invol()):
            return Failure("invol", "invol is not an automorphism", pl)
        # grade parts: outer/inner/contractions of blades are grade parts of the geometric product
        # equality / truth vs coefficient-wise comparison
        pruned = lambda m: all(v != 0 for v in data_of(m).values())  # noqa: E731
        if pruned(a) and pruned(b):
            if (a == b) != (coeffs(a) == coeffs(b)):
                return Failure("eq-coeffwise", f"{a!r} == {b!r} is {a == b}", pl)
            if bool(a) != bool(coeffs(a)):
                return Failure("bool-coeffwise", f"bool({a!r})", pl)
            if (a == b) and hash(a) != hash(b):
                return Failure("hash", "equal multivectors hash differently", pl)
        # results of the products themselves compare / test coefficient-wise
        from pymbolic.geometric_algebra import MultiVector
        for nm, r in (("geometric", a * b), ("outer", a ^ b), ("inner", a | b), ("sum", a + b)):
            clean = MultiVector(dict(coeffs(r)), sp)
            if bool(r) != bool(coeffs(r)):
                return Failure("result-bool-coeffwise", f"bool({nm} product {r!r}) = {bool(r)}", pl)
            if not (r == clean) or (hash(r) != hash(clean)):
                return Failure("result-eq-coeffwise", f"{nm} product {r!r} != its non-zero "
                               f"coefficients {clean!r} (or hashes differ)", pl)
        # inverse of a non-null blade
        if len(coeffs(a)) == 1 and pruned(a):
            try:
                nsq = a.norm_squared()
                ok = nsq != 0
            except Exception:
                ok = False
            if ok:
                one = a.inv() * a
                if coeffs(one) != {0: 1}:
                    return Failure("blade-inv", f"inv(a)*a = {one!r} for {a!r}", pl)
        return None

    def nontrivial_key(self, pl, model, impl):
        return dumps([pl["dims"], pl["metric"], sorted(pl["a"].items()), sorted(pl["b"].items())]) \
            if pl["a"] and pl["b"] else None


# {{{ extension: Fraction coefficients, the remaining operations, a ring with zero divisors

def frac_str(x):
    """canonical text of an exact coefficient (int or Fraction): 'n' or 'n/d'"""
    return str(Fraction(x))


def fmv_sx(d):
    return "(" + " ".join(f"({k} {frac_str(v)})" for k, v in d.items()) + ")"


def rand_frac(rng, zero_ok=True):
    while True:
        v = Fraction(rng.randint(-4, 4), rng.choice([1, 1, 2, 3]))
        if zero_ok or v != 0:
            return v


def rand_fmv(rng, dims, maxterms=4, stored_zero=0.1):
    """a dict bitmap -> 'n/d' in insertion order; rarely with a stored zero coefficient"""
    d = {}
    for _ in range(rng.randint(0, maxterms)):
        v = rand_frac(rng, zero_ok=rng.random() < stored_zero)
        d[rng.randrange(2 ** dims)] = str(v)
    return d


def rand_vector(rng, dims):
    d = {}
    for i in rng.sample(range(dims), rng.randint(1, dims)) if dims else []:
        d[1 << i] = str(rand_frac(rng, zero_ok=False))
    return d


QMETRIC_VALUES = ["1", "-1", "0", "2", "1", "-1", "1/2", "-3"]


def fspace(dims, metric):
    from pymbolic.geometric_algebra import Space
    vals = [Fraction(m) for m in metric]
    vals = [int(v) if v.denominator == 1 else v for v in vals]
    return Space(dims, np.diag(np.array(vals, dtype=object)) if dims
                 else np.zeros((0, 0), dtype=object))


def fmake(d, sp):
    from pymbolic.geometric_algebra import MultiVector
    return MultiVector({int(k): Fraction(v) for k, v in d.items()}, sp)


def list_mul(x, y, metric):
    """independent geometric product of two coefficient dicts (bitmap -> coefficient) through the
    list-based blade multiplication; zero coefficients dropped"""
    out = {}
    for ka, va in x.items():
        for kb, vb in y.items():
            bits, c = list_product(blade_list(ka), blade_list(kb), metric)
            out[bits] = out.get(bits, 0) + c * va * vb
    return {k: v for k, v in out.items() if v != 0}


def wedge_of(factors, metric):
    """outer product of vectors (dicts bitmap -> 'n/d'): the top-grade part of their list-based
    geometric product"""
    acc = {0: Fraction(1)}
    for i, f in enumerate(factors):
        acc = {k: v for k, v in list_mul(acc, {int(k): Fraction(v) for k, v in f.items()},
                                         metric).items() if grade(k) == i + 1}
    return acc


class _ImplOps:
    """the answers of the real code for the `c18AllOps` list of the driver, in the same order"""

    exc_names = (ZeroDivisionError, NotImplementedError, ValueError, RuntimeError)

    def sh(self, m):
        return "(" + " ".join(f"({k} {self.cs(v)})" for k, v in data_of(m).items()) + ")"

    def tr(self, f, wrap=None):
        try:
            r = f()
        except self.exc_names as e:
            return type(e).__name__
        return wrap(r) if wrap else r

    def xp(self, a, r):
        from pymbolic.geometric_algebra import MultiVector

        def go():
            v = a.xproject(r)
            if isinstance(v, MultiVector):
                return "(mv " + self.sh(v) + ")"
            if isinstance(v, np.ndarray):
                return "(" + " ".join(["vector"] + [self.cs(x) for x in v]) + ")"
            return "(scalar " + self.cs(v) + ")"
        return self.tr(go)

    def all_ops(self, a, b, dims, n, r, with_inv):
        sh, tr, cs = self.sh, self.tr, self.cs
        low = lambda v: "true" if v else "false"  # noqa: E731
        parts = [sh(a * b), sh(a ^ b), sh(a | b), sh(a << b), sh(a >> b),
                 tr(lambda: cs(a.scalar_product(b))), sh(a.rev()), sh(a.invol()),
                 tr(lambda: cs(a.norm_squared()))]
        if with_inv:
            parts += [tr(lambda: sh(a.inv())), tr(lambda: sh(a / b))]
        else:
            parts += [None, "skip"]
        parts += [sh(a.dual()), sh(a.dual().dual()), sh(a.I),
                  "(" + " ".join(sh(a.project(g)) for g in range(dims + 2)) + ")",
                  self.xp(a, 0), self.xp(a, 1), self.xp(a, r),
                  "(" + " ".join(sh(x) for x in a.gen_blades()) + ")",
                  "(" + " ".join(sh(x) for x in a.gen_blades(r)) + ")",
                  tr(lambda: cs(a.as_scalar())), tr(lambda: sh(a ** n)),
                  sh(a.odd()), sh(a.even())]
        pg = a.get_pure_grade()
        parts.append("none" if pg is None else str(pg))
        parts += [low(a == b), low(a == a), low(bool(a)), low(a == 0), low(a == 1),
                  sh(-a), sh(a + b), sh(a - b)]
        return parts

    @staticmethod
    def agree_lists(model, impl, skip=()):
        from ..sexp import loads
        m, i = loads(model), loads(impl)
        if len(m) != len(i):
            return "diff"
        for idx, (x, y) in enumerate(zip(m, i)):
            if idx in skip:
                continue
            if idx >= len(m) - 2:
                # a + b / a - b iterate a Python set: compare as mappings
                if sorted(map(tuple, x)) != sorted(map(tuple, y)):
                    return "diff"
            elif x != y:
                return "diff"
        return "ok"


class FractionMultiVectors(_ImplOps, Stream):
    """multivectors with Fraction coefficients (exact; stored zeros included) over diagonal metrics
    with zero, negative and fractional entries: EVERY operation of the model — the six products,
    scalar_product, rev, invol, norm_squared, inv (the divided inverse), /, dual, I, project(r) for
    every r, xproject, gen_blades, as_scalar, **, odd/even, ==, bool, +, - — compared exactly with
    the driver, and their defining identities checked on the real objects"""
    name = "mv-fraction"

    cs = staticmethod(frac_str)

    def cases(self, rng, tier):
        n = 500 if tier == "quick" else 8000
        for i in range(n):
            dims = rng.randint(0, 4)
            metric = [rng.choice(QMETRIC_VALUES) for _ in range(dims)]
            kind = i % 5
            if kind == 0 and dims:          # a vector / a blade: inv returns
                a = rand_vector(rng, dims)
            elif kind == 1:
                a = {rng.randrange(2 ** dims): str(rand_frac(rng, zero_ok=False))}
            else:
                a = rand_fmv(rng, dims)
            if kind == 2 and dims:
                b = rand_vector(rng, dims)
            elif kind == 3:
                b = {rng.randrange(2 ** dims): str(rand_frac(rng, zero_ok=False))}
            else:
                b = rand_fmv(rng, dims)
            yield {"dims": dims, "metric": metric, "a": a, "b": b,
                   "n": rng.choice([-1, 0, 1, 2, 3, 4, 5, 6, 7]), "r": rng.randint(0, dims + 1)}
        # blades given by their vector factors (outer product computed independently here)
        for _ in range(40 if tier == "quick" else 600):
            dims = rng.randint(2, 4)
            metric = [rng.choice(QMETRIC_VALUES) for _ in range(dims)]
            factors = [rand_vector(rng, dims) for _ in range(rng.randint(2, min(3, dims)))]
            a = wedge_of(factors, [Fraction(m) for m in metric])
            yield {"dims": dims, "metric": metric, "a": {k: str(v) for k, v in a.items()},
                   "b": rand_fmv(rng, dims), "n": 2, "r": len(factors), "factors": factors}
        # every basis blade of dims <= 3 (4 thorough) under mixed metrics: dual, inv, pow, I
        for dims in range(0, 4 if tier == "quick" else 5):
            for metric in (["1"] * dims, ["-1", "2", "0", "1/2"][:dims], ["-1"] * dims):
                for k in range(2 ** dims):
                    yield {"dims": dims, "metric": metric, "a": {k: "2/3"}, "b": {k ^ 1 if dims else 0: "-1"},
                           "n": 3, "r": bin(k).count("1")}

    def request(self, pl):
        m = "(" + " ".join(pl["metric"]) + ")"
        a = {int(k): v for k, v in pl["a"].items()}
        b = {int(k): v for k, v in pl["b"].items()}
        return f"(ga-mvq {m} {pl['dims']} {fmv_sx(a)} {fmv_sx(b)} {pl['n']} {pl['r']})"

    def _objs(self, pl):
        sp = fspace(pl["dims"], pl["metric"])
        return sp, fmake(pl["a"], sp), fmake(pl["b"], sp)

    def run_impl(self, pl):
        _sp, a, b = self._objs(pl)
        return "(" + " ".join(self.all_ops(a, b, pl["dims"], pl["n"], pl["r"], True)) + ")"

    def agree(self, model, impl, pl):
        return "ok" if model == impl else self.agree_lists(model, impl)

    def oracle(self, pl):  # noqa: C901
        from pymbolic.geometric_algebra import MultiVector
        sp, a, b = self._objs(pl)
        dims, n = pl["dims"], pl["n"]
        metric = [Fraction(m) for m in pl["metric"]]
        full = 2 ** dims - 1

        def coeffs(m):
            return {k: Fraction(v) for k, v in data_of(m).items() if v != 0}

        ca, cb = coeffs(a), coeffs(b)
        det = Fraction(1)
        for g in metric:
            det *= g
        rsign = -1 if (dims * (dims - 1) // 2) % 2 else 1
        # dual: A * rev(I) by the list-based blade multiplication
        want = list_mul(ca, {full: Fraction(rsign)}, metric)
        if coeffs(a.dual()) != want:
            return Failure("dual", f"dual({a!r}) = {a.dual()!r}, list-based A*rev(I) gives {want}", pl)
        want = {k: rsign * det * v for k, v in ca.items() if rsign * det * v != 0}
        if coeffs(a.dual().dual()) != want:
            return Failure("dual-dual", f"dual(dual(A)) != (-1)^(n(n-1)/2) det(g) A for {a!r}", pl)
        if coeffs(a.I * a.I) != ({0: rsign * det} if det != 0 else {}):
            return Failure("pseudoscalar-square", f"I*I = {a.I * a.I!r}", pl)
        # grade projections: idempotent, orthogonal, sum to the identity
        total = {}
        for r in range(dims + 1):
            p = a.project(r)
            if any(grade(k) != r for k in data_of(p)) or \
                    coeffs(p) != {k: v for k, v in ca.items() if grade(k) == r}:
                return Failure("project", f"project({r}) of {a!r} is {p!r}", pl)
            if coeffs(p.project(r)) != coeffs(p) or (r + 1 <= dims and coeffs(p.project(r + 1))):
                return Failure("project-idempotent", f"project({r}) twice on {a!r}", pl)
            total.update(coeffs(p))
        if total != ca:
            return Failure("project-sum", f"the grade projections of {a!r} do not add up to it", pl)
        if coeffs(a.even() + a.odd()) != ca:
            return Failure("project-sum", f"even + odd != A for {a!r}", pl)
        blades = list(a.gen_blades())
        acc = {}
        for x in blades:
            if len(data_of(x)) != 1:
                return Failure("gen-blades", f"gen_blades yields {x!r}", pl)
            for k, v in data_of(x).items():
                acc[k] = acc.get(k, 0) + v
        if {k: v for k, v in acc.items() if v != 0} != ca:
            return Failure("gen-blades", f"gen_blades of {a!r} do not add up to it", pl)
        # norm_squared: scalar part of rev(A)*A = sum over blades of (metric of its factors) c^2
        want = Fraction(0)
        for k, v in ca.items():
            w = Fraction(1)
            for i in blade_list(k):
                w *= metric[i]
            want += w * v * v
        nsq = a.norm_squared()
        if nsq != want or list_mul(coeffs(a.rev()), ca, metric).get(0, 0) != want:
            return Failure("norm-squared", f"norm_squared({a!r}) = {nsq}, expected {want}", pl)
        if a.scalar_product(b) != list_mul(ca, cb, metric).get(0, 0):
            return Failure("scalar-product", f"scalar_product({a!r}, {b!r})", pl)
        # as_scalar
        try:
            s = a.as_scalar()
            if any(k != 0 for k in data_of(a)) or s != data_of(a).get(0, 0):
                return Failure("as-scalar", f"as_scalar({a!r}) = {s}", pl)
        except ValueError:
            if all(k == 0 for k in data_of(a)):
                return Failure("as-scalar", f"as_scalar({a!r}) raises", pl)
        # inverse: whenever inv returns, inv(A)*A = 1 = A*inv(A)
        known = None
        try:
            ai = a.inv()
        except (ZeroDivisionError, NotImplementedError) as e:
            ai = None
            if len(ca) == 1 and len(data_of(a)) == 1 and nsq != 0:
                return Failure("blade-inv-refused", f"inv({a!r}) raises for a non-null blade", pl)
            if pl.get("factors") and nsq != 0 and ca:
                # A is the outer product of the vectors pl["factors"]: a non-null blade
                known = Failure("inv-nonbasis-blade-refused",
                                f"inv({a!r}) raises {type(e).__name__} for the non-null blade "
                                f"{' ^ '.join(map(str, pl['factors']))} (norm² {nsq})", pl)
        if ai is not None:
            if list_mul(coeffs(ai), ca, metric) != {0: 1} or list_mul(ca, coeffs(ai), metric) != {0: 1} \
                    or coeffs(ai * a) != {0: 1} or coeffs(a * ai) != {0: 1}:
                return Failure("inv", f"inv({a!r}) = {ai!r} is not an inverse", pl)
        try:
            q = b / a
        except (ZeroDivisionError, NotImplementedError):
            q = None
        if q is not None and coeffs(q * a) != cb:
            return Failure("truediv", f"(B / A) * A != B for A = {a!r}, B = {b!r}", pl)
        # power: the n-fold product
        if n >= 0:
            want = {0: Fraction(1)}
            for _ in range(n):
                want = list_mul(want, ca, metric)
            if coeffs(a ** n) != want:
                return Failure("pow", f"{a!r} ** {n} = {a ** n!r}, n-fold product {want}", pl)
        else:
            try:
                a ** n
                return Failure("pow", "negative power returned", pl)
            except RuntimeError:
                pass
        # ==, hash, bool on results
        results = [("dual", a.dual()), ("sum", a + b), ("pow", a ** 2)]
        if all(v != 0 for v in data_of(a).values()):
            results.append(("project", a.project(pl["r"])))
        for nm, r in results:
            clean = MultiVector(dict(coeffs(r)), sp)
            if not (r == clean) or hash(r) != hash(clean) or bool(r) != bool(coeffs(r)):
                return Failure("result-eq-coeffwise", f"{nm} result {r!r} vs its non-zero "
                               f"coefficients {clean!r}: ==, hash or bool differ", pl)
        rev = MultiVector(dict(reversed(list(data_of(a).items()))), sp)
        if not (a == rev) or hash(a) != hash(rev):
            return Failure("hash", "the same items in another insertion order compare/hash "
                           "differently", pl)
        # associativity / distributivity with Fraction coefficients
        c = a.dual() + 1
        if coeffs((a * b) * c) != coeffs(a * (b * c)) or coeffs(a * (b + c)) != coeffs(a * b + a * c):
            return Failure("assoc", "associativity/distributivity with Fraction coefficients", pl)
        return known

    def shrink(self, pl):
        if pl.get("factors"):
            return
        for key in ("a", "b"):
            for k in list(pl[key]):
                if len(pl[key]) > 1:
                    d = dict(pl[key]); del d[k]
                    yield {**pl, key: d}
        if pl["n"] > 2:
            yield {**pl, "n": pl["n"] - 1}

    def nontrivial_key(self, pl, model, impl):
        return dumps([pl["dims"], pl["metric"], sorted(pl["a"].items()), sorted(pl["b"].items()),
                      pl["n"]]) if pl["a"] else None

    def stats(self, pl, mo, io, acc):
        from ..sexp import loads
        try:
            r = loads(io)[9]
        except Exception:
            return
        k = r if isinstance(r, str) else "returned"
        acc.setdefault("inv", {})
        acc["inv"][k] = acc["inv"].get(k, 0) + 1


class Zn:
    """the ring Z/6 (zero divisors, characteristic 6) as a coefficient type"""
    N = 6
    __slots__ = ("v",)

    def __init__(self, v):
        self.v = int(v) % self.N

    def _c(self, o):
        if isinstance(o, Zn):
            return o.v
        if isinstance(o, (int, np.integer)) and not isinstance(o, bool):
            return int(o)
        return None

    def __add__(self, o):
        c = self._c(o)
        return NotImplemented if c is None else Zn(self.v + c)
    __radd__ = __add__

    def __sub__(self, o):
        c = self._c(o)
        return NotImplemented if c is None else Zn(self.v - c)

    def __rsub__(self, o):
        c = self._c(o)
        return NotImplemented if c is None else Zn(c - self.v)

    def __mul__(self, o):
        c = self._c(o)
        return NotImplemented if c is None else Zn(self.v * c)
    __rmul__ = __mul__

    def __neg__(self):
        return Zn(-self.v)

    def __truediv__(self, o):
        c = self._c(o)
        if c is None:
            return NotImplemented
        c %= self.N
        if c == 0:
            raise ZeroDivisionError("division by zero in Z/6")
        if c in (1, 5):
            return Zn(self.v * c)           # 1 and 5 are their own inverses
        raise TypeError("not a unit of Z/6")

    def __eq__(self, o):
        c = self._c(o)
        return NotImplemented if c is None else self.v == c % self.N

    def __ne__(self, o):
        r = self.__eq__(o)
        return r if r is NotImplemented else not r

    def __hash__(self):
        return hash(self.v)

    def __bool__(self):
        return self.v != 0

    def __repr__(self):
        return f"Zn({self.v})"


class Z6MultiVectors(_ImplOps, Stream):
    """multivectors and metrics over Z/6 — a commutative ring with zero divisors (2*3 = 0), where
    products of non-zero coefficients get pruned: every division-free operation compared exactly
    with the driver (`Fin 6` instance of the same generic model), ring laws on the real objects"""
    name = "mv-z6"

    @staticmethod
    def cs(x):
        return str(x.v if isinstance(x, Zn) else int(x) % 6)

    def cases(self, rng, tier):
        n = 300 if tier == "quick" else 5000
        for _ in range(n):
            dims = rng.randint(0, 4)

            def mv(maxterms=4):
                d = {}
                for _ in range(rng.randint(0, maxterms)):
                    d[rng.randrange(2 ** dims)] = rng.randint(0 if rng.random() < 0.1 else 1, 5)
                return d
            yield {"dims": dims, "metric": [rng.randint(0, 5) for _ in range(dims)],
                   "a": mv(), "b": mv(), "c": mv(2), "n": rng.choice([-1, 0, 1, 2, 3, 4, 5]),
                   "r": rng.randint(0, dims + 1)}

    def request(self, pl):
        m = "(" + " ".join(map(str, pl["metric"])) + ")"
        a = "(" + " ".join(f"({int(k)} {v})" for k, v in pl["a"].items()) + ")"
        b = "(" + " ".join(f"({int(k)} {v})" for k, v in pl["b"].items()) + ")"
        return f"(ga-mvz6 {m} {pl['dims']} {a} {b} {pl['n']} {pl['r']})"

    def _objs(self, pl):
        from pymbolic.geometric_algebra import MultiVector, Space
        dims = pl["dims"]
        mm = np.zeros((dims, dims), dtype=object)
        for i, g in enumerate(pl["metric"]):
            mm[i, i] = Zn(g)
        sp = Space(dims, mm)
        return (sp, *[MultiVector({int(k): Zn(v) for k, v in pl[x].items()}, sp) for x in "abc"])

    def run_impl(self, pl):
        _sp, a, b, _c = self._objs(pl)
        parts = self.all_ops(a, b, pl["dims"], pl["n"], pl["r"], False)
        try:
            a.inv()
            parts[9] = "ok"
        except (ZeroDivisionError, NotImplementedError, ValueError) as e:
            parts[9] = type(e).__name__
        except TypeError:
            parts[9] = "ok"          # reached the division `coeff / nsqr`: the model says ok
        return "(" + " ".join(parts) + ")"

    def agree(self, model, impl, pl):
        return "ok" if model == impl else self.agree_lists(model, impl)

    def oracle(self, pl):
        _sp, a, b, c = self._objs(pl)

        def coeffs(m):
            return {k: v.v if isinstance(v, Zn) else int(v) % 6
                    for k, v in data_of(m).items() if v != 0}
        if coeffs((a * b) * c) != coeffs(a * (b * c)):
            return Failure("assoc", f"(a*b)*c != a*(b*c) over Z/6: {a!r} {b!r} {c!r}", pl)
        if coeffs((a ^ b) ^ c) != coeffs(a ^ (b ^ c)):
            return Failure("outer-assoc", "(a^b)^c != a^(b^c) over Z/6", pl)
        if coeffs(a * (b + c)) != coeffs(a * b + a * c) or coeffs((a + b) * c) != coeffs(a * c + b * c):
            return Failure("bilinear", "distributivity fails over Z/6", pl)
        if coeffs((a * b).rev()) != coeffs(b.rev() * a.rev()):
            return Failure("rev", "rev is not an anti-automorphism over Z/6", pl)
        for nm, r in (("geometric", a * b), ("sum", a + b), ("dual", a.dual())):
            if any(v == 0 for v in data_of(r).values()) or bool(r) != bool(coeffs(r)):
                return Failure("result-eq-coeffwise", f"{nm} result {r!r} stores a zero", pl)
        return None

    def nontrivial_key(self, pl, model, impl):
        return dumps([pl["dims"], pl["metric"], sorted(pl["a"].items()), sorted(pl["b"].items())]) \
            if pl["a"] and pl["b"] else None

# }}}


# {{{ mixed scalar / multivector operands: a grade-0 blade in every spelling the API accepts

#: the grade the named product keeps of the geometric product of an r-blade and an s-blade
#: (None = everything); a negative grade keeps nothing
GRADE_PART = {
    "geometric": None,
    "outer": lambda r, s: r + s,
    "inner": lambda r, s: abs(r - s),
    "lc": lambda r, s: s - r,
    "rc": lambda r, s: r - s,
    "scalar": lambda r, s: 0,
}


def grade_part_product(x, y, metric, kind):
    """the `kind` product of two coefficient dicts (bitmap -> exact coefficient) by its definition:
    blade pair by blade pair the grade part of the list-based geometric product; zeros dropped"""
    sel = GRADE_PART[kind]
    out = {}
    for ka, va in x.items():
        for kb, vb in y.items():
            bits, c = list_product(blade_list(ka), blade_list(kb), metric)
            if sel is not None and grade(bits) != sel(grade(ka), grade(kb)):
                continue
            out[bits] = out.get(bits, 0) + c * va * vb
    return {k: v for k, v in out.items() if v != 0}


#: symbolic scalars: the same Python expression builds the pymbolic tree (x = Variable) and the
#: reference value (x = Fraction)
EXPR_FORMS = {
    "x": lambda x, k: x,
    "x+k": lambda x, k: x + k,
    "k+x": lambda x, k: k + x,
    "k*x": lambda x, k: k * x,
    "x*k": lambda x, k: x * k,
    "k-x": lambda x, k: k - x,
    "x**2": lambda x, k: x ** 2,
    "x*x+k": lambda x, k: x * x + k,
    "-x": lambda x, k: -x,
}

SCALAR_KINDS = ["int", "fraction", "bool", "npint", "expr"]
#: (name, index of the answer in the driver's `c18AllOps` list)
SCALAR_OPS = [("geometric", 0), ("outer", 1), ("inner", 2), ("lc", 3), ("rc", 4), ("scalar", 5),
              ("div", 10), ("eq", 25), ("add", 31), ("sub", 32)]


def coef_value(c, xval):
    """exact value (Fraction) of a coefficient the real code produced; a pymbolic expression in the
    one variable x is evaluated at x = xval by this small independent evaluator"""
    if isinstance(c, Fraction):
        return c
    if isinstance(c, (int, np.integer)):
        return Fraction(int(c))
    from pymbolic import primitives as p
    if isinstance(c, p.Variable):
        if c.name != "x":
            raise TypeError(f"unexpected variable {c!r}")
        return xval
    if isinstance(c, p.Sum):
        return sum((coef_value(ch, xval) for ch in c.children), Fraction(0))
    if isinstance(c, p.Product):
        r = Fraction(1)
        for ch in c.children:
            r *= coef_value(ch, xval)
        return r
    if isinstance(c, p.Quotient):
        return coef_value(c.numerator, xval) / coef_value(c.denominator, xval)
    if isinstance(c, p.Power) and isinstance(c.exponent, int) and c.exponent >= 0:
        return coef_value(c.base, xval) ** c.exponent
    raise TypeError(f"no exact value for the coefficient {c!r} ({type(c).__name__})")


class ScalarOperands(Stream):
    """a grade-0 blade as an operand of every binary operation, in each spelling the public API
    accepts: wrapped as MultiVector(s, space), and as a PLAIN scalar (Python int / bool, Fraction,
    numpy integer, pymbolic expression) on the LEFT (reflected operators `__rmul__ __rxor__ __ror__
    __rlshift__ __rrshift__ __radd__ __rsub__ __rtruediv__`, reflected `==`) and on the RIGHT
    (`_cast_or_ni`) of `* ^ | << >> + - / == !=`, `scalar_product` and the commutator `x`.  The
    property reads "the outer, inner, scalar, left- and right-contraction products of two blades
    equal the corresponding grade parts of their geometric product": the reference is that
    definition applied to the coefficient dicts ({0: s}, M) by the list-based blade multiplication,
    so a plain scalar must behave like the grade-0 multivector.  Model side: the driver request is
    the grade-0 multivector (`ofScalar s`), the implementation answer is computed with the spelled
    operands.  Symbolic scalars are compared by value at a rational point."""
    name = "scalar-operands"

    # ---- cases --------------------------------------------------------------------------------
    def _variants(self, base, kinds):
        for kind, extra in kinds:
            for spelling, side in (("plain", "left"), ("plain", "right"), ("mv", "left"),
                                   ("mv", "right")):
                yield {**base, "kind": kind, **extra, "spelling": spelling, "side": side}

    def _rand_scalar(self, rng, kind):
        if kind == "int":
            return {"s": str(rng.choice([0, 1, -1, 2, 3, -4, 7]))}
        if kind == "npint":
            return {"s": str(rng.choice([0, 1, -1, 2, 3, -5]))}
        if kind == "bool":
            return {"s": str(rng.choice([0, 1, 1]))}
        if kind == "fraction":
            return {"s": str(rand_frac(rng, zero_ok=rng.random() < 0.15))}
        form = rng.choice(sorted(EXPR_FORMS))
        k = rng.randint(-3, 3)
        # now and then a point where the symbolic scalar has the value 0
        xval = Fraction(k) if (form == "k-x" and rng.random() < 0.3) else \
            Fraction(rng.choice([-5, -2, -1, 1, 2, 3, 7]), rng.choice([1, 2, 3, 5]))
        return {"form": form, "k": k, "xval": str(xval)}

    def _rand_m(self, rng, dims, ints, sval):
        """the multivector operand: a blade, a vector, a pure scalar (equal to s or not), empty,
        all blades, or random terms"""
        coef = (lambda: str(rng.choice([-3, -2, -1, 1, 2, 3]))) if ints else \
            (lambda: str(rand_frac(rng, zero_ok=False)))
        shape = rng.randrange(8)
        if shape == 0:
            return {str(rng.randrange(2 ** dims)): coef()}
        if shape == 1 and dims:
            return {str(1 << i): coef() for i in rng.sample(range(dims), rng.randint(1, dims))}
        if shape == 2:
            return {"0": str(sval)} if sval != 0 and (not ints or sval.denominator == 1) else {}
        if shape == 3:
            return {"0": coef()}
        if shape == 4:
            return {str(b): coef() for b in range(2 ** dims)}
        if ints:
            return {str(k): str(v) for k, v in rand_mv(rng, dims).items()}
        return {str(k): v for k, v in rand_fmv(rng, dims).items()}

    def cases(self, rng, tier):
        numeric = ["int", "fraction", "bool", "npint"]
        # every basis blade (and the sum of all of them) of dims 0..2 (3 thorough) against fixed
        # scalars in every spelling: each operator x side x blade grade is met in every run
        for dims in range(0, 3 if tier == "quick" else 4):
            metrics = [["1"] * dims, ["-1", "2", "0"][:dims]] if dims else [[]]
            for metric in metrics:
                ms = [{str(b): "2/3"} for b in range(2 ** dims)]
                ms.append({str(b): str(Fraction((-1) ** b * (2 * b + 1), 2)) for b in range(2 ** dims)})
                for m in ms:
                    base = {"dims": dims, "metric": metric, "m": m}
                    yield from self._variants(base, [("int", {"s": "3"}), ("fraction", {"s": "-2/3"}),
                                                     ("int", {"s": "0"}), ("npint", {"s": "3"}),
                                                     ("bool", {"s": "1"})])
                for b in range(2 ** dims):
                    base = {"dims": dims, "metric": [str(int(Fraction(g))) for g in metric],
                            "m": {str(b): "2"}}
                    yield from self._variants(base, [("expr", {"form": "x", "k": 0, "xval": "5/7"}),
                                                     ("expr", {"form": "k-x", "k": 2, "xval": "2"})])
        n = 220 if tier == "quick" else 4000
        for i in range(n):
            dims = rng.randint(0, 4)
            kind = numeric[i % 4] if i % 5 else "expr"
            extra = self._rand_scalar(rng, kind)
            if kind == "expr":
                metric = [rng.choice(["1", "-1", "0", "2", "-3"]) for _ in range(dims)]
            else:
                metric = [rng.choice(QMETRIC_VALUES) for _ in range(dims)]
            sval = self._sval({"kind": kind, **extra})
            base = {"dims": dims, "metric": metric, "m": self._rand_m(rng, dims, kind == "expr", sval)}
            yield from self._variants(base, [(kind, extra)])

    # ---- operands -----------------------------------------------------------------------------
    @staticmethod
    def _sval(pl):
        """the exact value of the scalar operand"""
        if pl["kind"] == "expr":
            return Fraction(EXPR_FORMS[pl["form"]](Fraction(pl["xval"]), pl["k"]))
        return Fraction(pl["s"])

    @staticmethod
    def _sobj(pl):
        """the scalar operand as the caller spells it"""
        kind = pl["kind"]
        if kind == "int":
            return int(pl["s"])
        if kind == "bool":
            return bool(int(pl["s"]))
        if kind == "npint":
            return np.int64(int(pl["s"]))
        if kind == "fraction":
            return Fraction(pl["s"])
        from pymbolic import var
        return EXPR_FORMS[pl["form"]](var("x"), pl["k"])

    def _operands(self, pl):
        from pymbolic.geometric_algebra import MultiVector
        sp = fspace(pl["dims"], pl["metric"])
        conv = (lambda v: int(Fraction(v))) if pl["kind"] == "expr" else Fraction
        m = MultiVector({int(k): conv(v) for k, v in pl["m"].items()}, sp)
        s = self._sobj(pl)
        if pl["spelling"] == "mv":
            s = MultiVector(s, sp)
        return (s, m) if pl["side"] == "left" else (m, s)

    def _skipped(self, pl, op):
        """operations left out because their answer is not exact / not the multivector's to give"""
        kind = pl["kind"]
        if op == "div":
            # int / int is a float in `coeff / nsqr` of inv(): dividing BY an int scalar, and
            # dividing by a multivector with int coefficients (the symbolic cases)
            if pl["side"] == "right" and kind != "fraction" and \
                    (kind != "expr" or self._sval(pl) == 0):
                return True
            if pl["side"] == "left" and kind == "expr":
                return True
        if kind == "expr" and op in ("eq", "ne", "x"):
            # == of an expression and a number is structural (and pymbolic's own __eq__ answers
            # when the expression is on the left); the commutator halves with the float 0.5
            return True
        if op in ("scalar", "x") and pl["spelling"] == "plain" and pl["side"] == "left":
            return True          # methods of the left operand
        return False

    @staticmethod
    def _try(f):
        try:
            return ("ok", f())
        except (ArithmeticError, NotImplementedError, ValueError, TypeError, AttributeError) as e:
            return ("raise", type(e).__name__)

    def _outcomes(self, pl, lhs, rhs):
        """op name -> ("ok", result) | ("raise", exception name) | None (skipped)"""
        table = {
            "geometric": lambda: lhs * rhs, "outer": lambda: lhs ^ rhs, "inner": lambda: lhs | rhs,
            "lc": lambda: lhs << rhs, "rc": lambda: lhs >> rhs,
            "scalar": lambda: lhs.scalar_product(rhs), "div": lambda: lhs / rhs,
            "eq": lambda: lhs == rhs, "ne": lambda: lhs != rhs,
            "add": lambda: lhs + rhs, "sub": lambda: lhs - rhs, "x": lambda: lhs.x(rhs),
        }
        return {op: (None if self._skipped(pl, op) else self._try(f)) for op, f in table.items()}

    def _xval(self, pl):
        return Fraction(pl["xval"]) if pl["kind"] == "expr" else Fraction(0)

    def _coeffs(self, pl, mv, keep_zeros=False):
        """bitmap -> exact coefficient; None when a coefficient has no exact value (a float: the
        oracle abstains, exact operands are only ever combined by exact operations here)"""
        xv = self._xval(pl)
        try:
            d = {int(k): coef_value(v, xv) for k, v in data_of(mv).items()}
        except (TypeError, ZeroDivisionError):
            return None
        return d if keep_zeros else {k: v for k, v in d.items() if v != 0}

    def _scalar(self, pl, c):
        try:
            return coef_value(c, self._xval(pl))
        except (TypeError, ZeroDivisionError):
            return None

    # ---- correspondence ------------------------------------------------------------------------
    def request(self, pl):
        sval = self._sval(pl)
        s = {0: str(sval)} if sval != 0 else {}
        m = {int(k): v for k, v in pl["m"].items()}
        a, b = (s, m) if pl["side"] == "left" else (m, s)
        return (f"(ga-mvq ({' '.join(pl['metric'])}) {pl['dims']} {fmv_sx(a)} {fmv_sx(b)} 2 0)")

    def _norm(self, pl, d):
        """a coefficient dict as a mapping: sorted; symbolic cases store coefficients that are
        zero only at the evaluation point, so zeros are dropped there"""
        items = sorted((int(k), Fraction(v)) for k, v in d.items())
        if pl["kind"] == "expr":
            items = [(k, v) for k, v in items if v != 0]
        return "(" + " ".join(f"({k} {v})" for k, v in items) + ")"

    def run_impl(self, pl):
        from pymbolic.geometric_algebra import MultiVector
        lhs, rhs = self._operands(pl)
        out = self._outcomes(pl, lhs, rhs)
        parts = []
        for op, _idx in SCALAR_OPS:
            o = out[op]
            if o is None:
                parts.append("skip")
            elif o[0] == "raise":
                parts.append(o[1])
            elif op == "eq":
                parts.append("true" if o[1] else "false")
            elif op == "scalar":
                v = self._scalar(pl, o[1])
                parts.append("inexact" if v is None else str(v))
            elif isinstance(o[1], MultiVector):
                d = self._coeffs(pl, o[1], keep_zeros=True)
                parts.append("inexact" if d is None else self._norm(pl, d))
            else:
                parts.append(f"(not-a-multivector {type(o[1]).__name__})")
        return "(" + " ".join(parts) + ")"

    def agree(self, model, impl, pl):
        from ..sexp import loads
        m, i = loads(model), loads(impl)
        if len(i) != len(SCALAR_OPS):
            return "diff"
        for (op, idx), got in zip(SCALAR_OPS, i):
            if got == "skip":
                continue
            want = m[idx]
            if isinstance(want, list):
                want = loads(self._norm(pl, {k: v for k, v in want}))
                if not isinstance(got, list):
                    return "diff"
                got = [[str(k), str(v)] for k, v in got]
                want = [[str(k), str(v)] for k, v in want]
            if want != got:
                return "diff"
        return "ok"

    # ---- oracle ----------------------------------------------------------------------------------
    def oracle(self, pl):
        """the first failing operation (order: * ^ | << >> scalar_product x + - / == !=); the other
        operations failing on the same operands are named in the detail"""
        fails = self._failures(pl)
        if not fails:
            return None
        first = fails[0]
        if len(fails) > 1:
            first.detail += "; also failing on these operands: " + ", ".join(f.key for f in fails[1:])
        return first

    def _failures(self, pl):  # noqa: C901
        from pymbolic.geometric_algebra import MultiVector
        lhs, rhs = self._operands(pl)
        metric = [Fraction(g) for g in pl["metric"]]
        sval = self._sval(pl)
        cs = {0: sval} if sval != 0 else {}
        mobj = rhs if pl["side"] == "left" else lhs
        cm = self._coeffs(pl, mobj)
        cl, cr = (cs, cm) if pl["side"] == "left" else (cm, cs)
        out = self._outcomes(pl, lhs, rhs)
        what = (f"{self._sobj(pl)!r} ({pl['kind']}"
                + (f", x = {pl['xval']}" if pl["kind"] == "expr" else "") + ") "
                + ("wrapped as MultiVector " if pl["spelling"] == "mv" else "as a plain scalar ")
                + f"on the {pl['side']}, M = {mobj!r}, metric {pl['metric']}")
        fails = []

        def fail(op, text):
            fails.append(Failure(f"scalar-{pl['spelling']}-{pl['side']}-{op}", f"{text}; s = {what}", pl))

        sym = {"geometric": "*", "outer": "^", "inner": "|", "lc": "<<", "rc": ">>", "add": "+",
               "sub": "-", "div": "/", "eq": "==", "ne": "!="}

        def shown(op):
            return f"{'s' if pl['side'] == 'left' else 'M'} {sym[op]} {'M' if pl['side'] == 'left' else 's'}"

        def mv_result(op):
            """the coefficients of a result that has to be a MultiVector (None: a failure was
            recorded, or the result is not exact and the oracle abstains)"""
            o = out[op]
            if o[0] == "raise":
                return fail(op, f"{shown(op)} raises {o[1]}")
            if not isinstance(o[1], MultiVector):
                return fail(op, f"{shown(op)} is {o[1]!r}, not a MultiVector")
            return self._coeffs(pl, o[1])

        # the five products: grade parts of the geometric product of ({0: s}, M)
        for op in ("geometric", "outer", "inner", "lc", "rc"):
            got = mv_result(op)
            want = grade_part_product(cl, cr, metric, op)
            if got is not None and got != want:
                fail(op, f"{shown(op)} = {out[op][1]!r}: coefficients {got}, the grade part "
                         f"of the geometric product of the grade-0 blade and M is {want}")
        if out["scalar"] is not None:
            o = out["scalar"]
            want = grade_part_product(cl, cr, metric, "scalar").get(0, Fraction(0))
            if o[0] == "raise" or self._scalar(pl, o[1]) not in (want, None):
                fail("scalar", f"scalar_product gives {o[1]!r}, the scalar part of the "
                               f"geometric product is {want}")
        if out["x"] is not None:
            # a scalar commutes with everything: the commutator product vanishes
            o = out["x"]
            if o[0] == "raise" or not isinstance(o[1], MultiVector) \
                    or any(v != 0 for v in data_of(o[1]).values()):
                fail("x", f"the commutator product with a scalar is {o[1]!r}, not 0")
        # sum and difference: coefficient-wise
        for op, sign in (("add", 1), ("sub", -1)):
            got = mv_result(op)
            want = dict(cl)
            for k, v in cr.items():
                want[k] = want.get(k, 0) + sign * v
            want = {k: v for k, v in want.items() if v != 0}
            if got is not None and got != want:
                fail(op, f"{shown(op)} = {out[op][1]!r}: coefficients {got}, coefficient-wise {want}")
        # quotient
        if out["div"] is not None:
            o = out["div"]
            if pl["side"] == "right":
                # M / s: every coefficient divided by s; a zero scalar has no inverse (whatever is
                # returned, (M / 0) * 0 = 0 is not M; which exception is raised is the
                # correspondence's business)
                if sval == 0:
                    if o[0] == "ok" and cm:
                        fail("div", f"M / 0 returns {o[1]!r} for a non-zero M")
                else:
                    got = mv_result("div")
                    want = {k: v / sval for k, v in cm.items()}
                    if got is not None and got != want:
                        fail("div", f"M / s = {o[1]!r}: coefficients {got}, expected {want}")
            else:
                # s / M = s * inv(M): whenever it returns, (s / M) * M = s; it returns whenever M is
                # a basis blade times a coefficient with non-zero square, and exactly when the
                # quotient of the wrapped scalar MultiVector(s) / M does (same value)
                blade = len(data_of(mobj)) == 1 and len(cm) == 1 and \
                    grade_part_product(cm, cm, metric, "scalar").get(0, 0) != 0
                ref = self._try(lambda: MultiVector(self._sobj(pl), mobj.space) / mobj)
                if o[0] == "ok":
                    got = mv_result("div")
                    if got is not None and list_mul(got, cm, metric) != cs:
                        fail("div", f"(s / M) * M != s: s / M = {o[1]!r}")
                    elif got is not None and (ref[0] != "ok"
                                              or self._coeffs(pl, ref[1]) not in (got, None)):
                        fail("div", f"s / M gives {o[1]!r} but MultiVector(s) / M gives {ref[1]!r}")
                elif blade:
                    fail("div", f"s / M raises {o[1]} for a non-null basis blade M")
                elif ref != o:
                    fail("div", f"s / M raises {o[1]} but MultiVector(s) / M gives {ref[1]!r}")
        # == / != : coefficient-wise (operands without stored zeros)
        if out["eq"] is not None and all(v != 0 for v in self._coeffs(pl, mobj, True).values()):
            want = cl == cr
            for op, w in (("eq", want), ("ne", not want)):
                o = out[op]
                if o[0] == "raise" or bool(o[1]) != w:
                    fail(op, f"{shown(op)} is {o[1]!r}, coefficient-wise it is {w}")
        return fails

    def shrink(self, pl):
        for k in list(pl["m"]):
            if len(pl["m"]) > 1:
                d = dict(pl["m"])
                del d[k]
                yield {**pl, "m": d}
        for k, v in pl["m"].items():
            if v != "1":
                yield {**pl, "m": {**pl["m"], k: "1"}}
        for i, g in enumerate(pl["metric"]):
            if g != "1":
                yield {**pl, "metric": pl["metric"][:i] + ["1"] + pl["metric"][i + 1:]}
        top = max([int(k).bit_length() for k in pl["m"]] + [0])
        if top < pl["dims"]:
            yield {**pl, "dims": pl["dims"] - 1, "metric": pl["metric"][:-1]}
        if pl["kind"] in ("fraction", "npint", "bool") and Fraction(pl["s"]).denominator == 1:
            yield {**pl, "kind": "int"}
        if pl["kind"] not in ("expr", "bool") and pl["s"] not in ("3", "0"):
            yield {**pl, "s": "3"}
        if pl["kind"] == "expr" and pl["form"] != "x":
            yield {**pl, "form": "x"}

    def nontrivial_key(self, pl, model, impl):
        import json
        return json.dumps(pl, sort_keys=True) if pl["m"] else None

    def stats(self, pl, mo, io, acc):
        k = f"{pl['kind']}/{pl['spelling']}-{pl['side']}"
        by = acc.setdefault("by_spelling", {})
        by[k] = by.get(k, 0) + 1
        if pl["spelling"] == "plain" and any(int(b) for b in pl["m"]) and self._sval(pl) != 0:
            acc["plain_scalar_vs_nonscalar"] = acc.get("plain_scalar_vs_nonscalar", 0) + 1

# }}}


# {{{ T-gen tie: the table interpreter on the regenerated function table vs the real functions

def tv(x):
    """wire form of a Python value of the real code (type-faithful: int vs Fraction)"""
    from pymbolic.geometric_algebra import MultiVector, Space
    if x is None:
        return "none"
    if x is NotImplemented:
        return "notimpl"
    if isinstance(x, (bool, np.bool_)):
        return f"(bool {'true' if x else 'false'})"
    if isinstance(x, (int, np.integer)):
        return f"(int {int(x)})"
    if isinstance(x, Fraction):
        return f"(coef {x})"
    if isinstance(x, str):
        return f"(str {dumps(x)})"
    if isinstance(x, MultiVector):
        return "(mv" + "".join(f" ({k} {Fraction(v)})" for k, v in x.data.items()) + ")"
    if isinstance(x, Space):
        return "space"
    if isinstance(x, np.ndarray):
        return "(vec" + "".join(f" {Fraction(v)}" for v in x) + ")"
    if isinstance(x, dict):
        if x and all(isinstance(k, tuple) for k in x):
            return "(tdict" + "".join(f" (({' '.join(map(str, k))}) {Fraction(v)})"
                                      for k, v in x.items()) + ")"
        return "(dict" + "".join(f" ({k} {Fraction(v)})" for k, v in x.items()) + ")"
    if isinstance(x, list):
        return "(list" + "".join(" " + tv(y) for y in x) + ")"
    if isinstance(x, tuple):
        return "(tuple" + "".join(" " + tv(y) for y in x) + ")"
    if isinstance(x, type):
        return f"(cls {dumps(x.__name__)})"
    raise TypeError(f"no wire form for {x!r}")


def tval(j, sp):
    """a JSON payload value -> the Python object handed to the real function"""
    from pymbolic import geometric_algebra as ga
    k = j[0]
    if k == "none":
        return None
    if k == "int":
        return int(j[1])
    if k == "coef":
        return Fraction(j[1])
    if k == "str":
        return j[1]
    if k == "space":
        return sp
    if k == "mv":
        return ga.MultiVector({int(b): Fraction(c) for b, c in j[1]}, sp)
    if k == "dict":
        return {int(b): Fraction(c) for b, c in j[1]}
    if k == "tdict":
        return {tuple(b): Fraction(c) for b, c in j[1]}
    if k == "vec":
        a = np.empty(len(j[1]), dtype=object)
        for i, c in enumerate(j[1]):
            a[i] = Fraction(c)
        return a
    if k == "list":
        return [tval(y, sp) for y in j[1]]
    if k == "tuple":
        return tuple(tval(y, sp) for y in j[1])
    if k == "cls":
        return getattr(ga, j[1])
    raise ValueError(j)


def tsx(j):
    """a JSON payload value -> the driver's wire form"""
    k = j[0]
    if k in ("none", "space"):
        return k
    if k in ("int", "coef"):
        return f"({k} {j[1]})"
    if k == "str":
        return f"(str {dumps(j[1])})"
    if k in ("mv", "dict"):
        return f"({k}" + "".join(f" ({b} {c})" for b, c in j[1]) + ")"
    if k == "tdict":
        return "(tdict" + "".join(f" (({' '.join(map(str, b))}) {c})" for b, c in j[1]) + ")"
    if k == "vec":
        return "(vec" + "".join(f" {c}" for c in j[1]) + ")"
    if k in ("list", "tuple"):
        return f"({k}" + "".join(" " + tsx(y) for y in j[1]) + ")"
    if k == "cls":
        return f"(cls {dumps(j[1])})"
    raise ValueError(j)


PRODUCT_CLASSES = ["_OuterProduct", "_GeometricProduct", "_InnerProduct", "_LeftContractionProduct",
                   "_RightContractionProduct", "_ScalarProduct"]
BINARY_METHODS = ["__add__", "__radd__", "__sub__", "__rsub__", "__mul__", "__rmul__", "__xor__",
                  "__rxor__", "__or__", "__ror__", "__lshift__", "__rlshift__", "__rshift__",
                  "__rrshift__", "scalar_product", "__truediv__", "__rtruediv__", "__eq__", "__ne__"]
UNARY_METHODS = ["__neg__", "rev", "invol", "dual", "__inv__", "norm_squared", "inv", "I", "__bool__",
                 "get_pure_grade", "as_scalar", "odd", "even"]


class TableRun(Stream):
    """every translated function of pymbolic/geometric_algebra/__init__.py: the table interpreter
    (`c18Call`) run by the compiled driver on the function table REGENERATED from the working tree
    vs the real function on the same arguments (Fraction coefficients; results type-faithful: a
    Python int and a Fraction are different answers).  This ties the reader
    extract/geometric_algebra.py and the meaning of the table language to the code."""
    name = "table-run"

    def cases(self, rng, tier):  # noqa: C901
        mult = 1 if tier == "quick" else 12

        def ctx(dims, orth=True):
            return {"dims": dims, "metric": [rng.choice(QMETRIC_VALUES) for _ in range(dims)],
                    "orth": orth, "euclid": False}

        def mvj(dims, maxterms=4):
            return ["mv", [[int(k), v] for k, v in rand_fmv(rng, dims, maxterms).items()]]

        def case(c, fn, args, kw=None):
            return {**c, "fn": fn, "args": args, "kw": kw or {}}
        for i in range(48):
            yield case(ctx(0), "bit_count", [["int", i]])
        for a in range(16):
            for b in range(16):
                yield case(ctx(0), "canonical_reordering_sign", [["int", a], ["int", b]])
        for n in range(0, 5):
            for p in itertools.permutations(range(n)):
                yield case(ctx(0), "permutation_sign", [["list", [["int", x] for x in p]]])
        yield case(ctx(0), "permutation_sign", [["list", [["int", 1], ["int", 0], ["int", 3]]]])
        for n in range(0, 4):
            for p in itertools.permutations(range(4), n):
                yield case(ctx(4), "Space.bits_and_sign", [["space"], ["tuple", [["int", x] for x in p]]])
        for dims in range(0, 5):
            for bits in range(2 ** dims):
                c = ctx(dims)
                yield case(c, "_shared_metric_coeff", [["int", bits], ["space"]])
                yield case(c, "Space.blade_bits_to_str", [["space"], ["int", bits]])
        yield case(ctx(3), "Space.blade_bits_to_str", [["space"], ["int", 5]],
                   {"outer_operator": ["str", "*"]})
        for dims in (0, 1, 2, 3):
            for orth in (True, False) if dims >= 2 else (True,):
                c = ctx(dims, orth)
                for cls in PRODUCT_CLASSES:
                    for which in ("generic", "orthogonal"):
                        for a in range(2 ** dims):
                            for b in range(2 ** dims):
                                yield case(c, f"{cls}.{which}_blade_product_weight",
                                           [["int", a], ["int", b], ["space"]])
        for _ in range(60 * mult):
            dims = rng.randint(0, 4)
            c = ctx(dims, orth=(dims < 2 or rng.random() < 0.85))
            a, b = mvj(dims), mvj(dims)
            scal = ["coef", str(rand_frac(rng))]
            other = rng.choice([b, b, b, scal])
            for m in BINARY_METHODS:
                # the reflected products wrap `other` (never a MultiVector when Python calls them)
                wraps = m in ("__rmul__", "__rxor__", "__ror__", "__rlshift__", "__rrshift__",
                              "__rtruediv__")
                yield case(c, f"MultiVector.{m}", [a, scal if wraps else other])
            for m in UNARY_METHODS:
                yield case(c, f"MultiVector.{m}", [a])
            yield case(c, "MultiVector._generic_product", [a, b, ["cls", rng.choice(PRODUCT_CLASSES)]])
            yield case(c, "MultiVector.project", [a, ["int", rng.randint(0, dims + 1)]])
            yield case(c, "MultiVector.__pow__", [a, ["int", rng.choice([-1, 0, 1, 2, 3, 5])]])
            yield case(c, "_cast_or_ni", [rng.choice([a, scal]), ["space"]])
            # inverses that return: a basis blade, a vector
            blade = ["mv", [[rng.randrange(2 ** dims), str(rand_frac(rng, zero_ok=False))]]]
            yield case(c, "MultiVector.inv", [blade])
            yield case(c, "MultiVector.__truediv__", [a, blade])
            if dims:
                vec = ["mv", [[int(k), v] for k, v in rand_vector(rng, dims).items()]]
                yield case(c, "MultiVector.inv", [vec])
                yield case(c, "MultiVector.__rtruediv__", [vec, scal])
        # the constructor: scalars (zero included), bitmap dicts, index-tuple dicts, numpy vectors
        for _ in range(60 * mult):
            dims = rng.randint(0, 4)
            c = ctx(dims)
            kind = rng.randrange(5)
            if kind == 0:
                data = ["coef", str(rand_frac(rng))]
            elif kind == 1:
                data = ["dict", [[int(k), v] for k, v in rand_fmv(rng, dims).items()]]
            elif kind == 2 and dims:
                ents = []
                for _ in range(rng.randint(0, 4)):
                    key = rng.sample(range(dims), rng.randint(0, dims))
                    if key not in [e[0] for e in ents]:
                        ents.append([key, str(rand_frac(rng))])
                data = ["tdict", ents] if ents else ["dict", []]
            elif kind == 3:
                data = ["vec", [str(rand_frac(rng)) for _ in range(dims)]]
            else:
                data = ["dict", []]
            yield case(c, "MultiVector.__init__", [data, ["space"]])
        for dims in range(0, 4):
            # MultiVector(numpy vector) without a space: the canonical Euclidean space
            c = {"dims": dims, "metric": ["1"] * dims, "orth": True, "euclid": True}
            yield case(c, "MultiVector.__init__", [["vec", [str(rand_frac(rng)) for _ in range(dims)]]])
            yield case(c, "MultiVector.__init__", [["vec", ["1"] * (dims + 1)], ["space"]])
        # wide bitmaps (spaces with up to 130 basis vectors, indices far apart): the loops over the
        # bits of bit_count / canonical_reordering_sign / _shared_metric_coeff and what is built on them
        for _ in range(40 * mult):
            dims = wide_dims(rng, tier)
            c = ctx(dims)
            ia = wide_indices(rng, dims)
            ib = wide_partner(rng, dims, ia)
            a, b = bits_of(ia), bits_of(ib)
            yield case(c, "bit_count", [["int", a]])
            yield case(c, "canonical_reordering_sign", [["int", a], ["int", b]])
            yield case(c, "_shared_metric_coeff", [["int", a & b], ["space"]])
            yield case(c, f"{rng.choice(PRODUCT_CLASSES)}.orthogonal_blade_product_weight",
                       [["int", a], ["int", b], ["space"]])
            yield case(c, f"MultiVector.{rng.choice(BINARY_METHODS[4:14:2])}",
                       [["mv", [[a, str(rand_frac(rng, zero_ok=False))]]],
                        ["mv", [[b, str(rand_frac(rng, zero_ok=False))]]]])

    def _space(self, pl):
        from pymbolic import geometric_algebra as ga
        dims = pl["dims"]
        if pl["euclid"]:
            return ga.get_euclidean_space(dims)
        mm = np.zeros((dims, dims), dtype=object)
        for i, g in enumerate(pl["metric"]):
            mm[i, i] = Fraction(g)
        if not pl["orth"]:
            mm[0, 1] = mm[1, 0] = Fraction(1, 2)
        return ga.Space(dims, mm)

    def request(self, pl):
        m = "(" + " ".join(pl["metric"]) + ")"
        args = [tsx(a) for a in pl["args"]]
        if pl["fn"].endswith(".__init__"):
            args = ["newobj"] + args
        kws = " ".join(f"({dumps(k)} {tsx(v)})" for k, v in pl["kw"].items())
        low = lambda v: "true" if v else "false"  # noqa: E731
        return (f"(c18-table {dumps(pl['fn'])} {m} {pl['dims']} {low(pl['orth'])} {low(pl['euclid'])} "
                f"({' '.join(args)}) ({kws}))")

    def run_impl(self, pl):
        from pymbolic import geometric_algebra as ga
        sp = self._space(pl)
        args = [tval(a, sp) for a in pl["args"]]
        kw = {k: tval(v, sp) for k, v in pl["kw"].items()}
        obj = ga
        for part in pl["fn"].split("."):
            obj = obj.__dict__[part] if isinstance(obj, type) else getattr(obj, part)
        if isinstance(obj, property):
            obj = obj.fget
        if isinstance(obj, staticmethod):
            obj = obj.__func__
        try:
            if pl["fn"] == "MultiVector.__init__":
                r = ga.MultiVector(*args, **kw)
            else:
                r = obj(*args, **kw)
        except (ZeroDivisionError, NotImplementedError, ValueError, IndexError, KeyError, TypeError,
                RuntimeError, AttributeError) as e:
            return f"(raise {type(e).__name__})"
        return f"(ok {tv(r)})"

    def agree(self, model, impl, pl):
        if model == impl:
            return "ok"
        if pl["fn"].split(".")[-1] in ("__add__", "__radd__", "__sub__", "__rsub__"):
            # the sum iterates a Python set: compare the dictionaries as mappings
            from ..sexp import loads
            m, i = loads(model), loads(impl)
            if m[0] == i[0] == "ok" and m[1][0] == i[1][0] == "mv" \
                    and sorted(map(tuple, m[1][1:])) == sorted(map(tuple, i[1][1:])):
                return "ok"
        return "diff"

    def nontrivial_key(self, pl, model, impl):
        return dumps([pl["fn"], pl["dims"], pl["metric"], pl["orth"], str(pl["args"]), str(pl["kw"])])

    def stats(self, pl, mo, io, acc):
        acc.setdefault("functions", set()).add(pl["fn"]) if False else None
        fs = acc.setdefault("by_function", {})
        fs[pl["fn"]] = fs.get(pl["fn"], 0) + 1
        if io.startswith("(raise"):
            acc["raised"] = acc.get("raised", 0) + 1

# }}}


# {{{ wide spaces: the same laws on SPARSE elements of spaces with many basis vectors

# The property is stated "over any space with a diagonal metric"; the exhaustive streams above stop
# at 4 (5) basis vectors, i.e. at bitmaps below 2**5.  Bitmaps are unbounded Python ints and the
# reordering sign / grade / metric weight are bit tricks on them, so everything that depends on HOW
# FAR APART two basis vectors are, or on how many bits a bitmap has (a window of a folding trick, a
# machine-word popcount, a table of the low bits, ...) only shows in wide spaces.  The streams of
# this section run the oracles of the small-space streams (and a few more) on sparse blades and
# multivectors of spaces with 6 .. 130 basis vectors whose indices are picked around every
# power-of-two distance.

#: numbers of basis vectors: around every power of two up to 128
WIDE_DIMS = [6, 7, 8, 9, 10, 11, 12, 13, 15, 16, 17, 18, 20, 24, 31, 32, 33, 34, 40, 48, 63, 64, 65,
             66, 72, 96, 127, 128, 129, 130]
#: index distances: around every power of two
WIDE_GAPS = [1, 2, 3, 4, 5, 7, 8, 9, 10, 15, 16, 17, 18, 31, 32, 33, 34, 63, 64, 65, 66, 127, 128, 129]


def bits_of(idx):
    b = 0
    for i in idx:
        b |= 1 << i
    return b


def inversion_sign(ia, ib):
    """sign of sorting the concatenation of two sorted index lists: one flip per pair (i in a, j in
    b) with i > j (pairs with i == j do not move past each other)"""
    n = sum(1 for i in ia for j in ib if i > j)
    return -1 if n % 2 else 1


def wide_dims(rng, tier):
    return rng.choice(WIDE_DIMS if tier != "quick" or rng.random() < 0.5 else WIDE_DIMS[:20])


def wide_indices(rng, dims, maxgrade=4):
    """a sorted index list of a sparse blade of a space with `dims` basis vectors"""
    mode = rng.randrange(7)
    if mode == 0:       # uniform
        return sorted(rng.sample(range(dims), rng.randint(0, min(maxgrade, dims))))
    if mode == 1:       # lowest against highest basis vectors
        pool = sorted(set(list(range(min(3, dims))) + list(range(max(0, dims - 3), dims))))
        return sorted(rng.sample(pool, rng.randint(1, min(maxgrade, len(pool)))))
    if mode == 2:       # a chain with distances around the powers of two
        idx = [rng.randrange(min(dims, 4))]
        while len(idx) < maxgrade:
            nxt = idx[-1] + rng.choice(WIDE_GAPS)
            if nxt >= dims:
                break
            idx.append(nxt)
        return idx
    if mode == 3:       # one basis vector
        return [rng.randrange(dims)]
    if mode == 4:       # a contiguous run (crosses the word boundaries now and then)
        n = rng.randint(1, min(maxgrade + 2, dims))
        lo = rng.randrange(dims - n + 1)
        return list(range(lo, lo + n))
    if mode == 5:       # the same chain counted from the top
        idx = [dims - 1 - rng.randrange(min(dims, 4))]
        while len(idx) < maxgrade:
            nxt = idx[-1] - rng.choice(WIDE_GAPS)
            if nxt < 0:
                break
            idx.append(nxt)
        return sorted(idx)
    # dense: every index with probability 1/2 (high grades)
    return [i for i in range(dims) if rng.random() < 0.5]


def wide_partner(rng, dims, ia, maxgrade=4):
    """a second blade: independent, or related to the first (sub-/superset, shifted copy, equal) so
    that contractions, metric factors and vanishing outer products all occur"""
    mode = rng.randrange(6)
    if mode <= 1 or not ia:
        return wide_indices(rng, dims, maxgrade)
    if mode == 2:       # a subset
        return sorted(rng.sample(ia, rng.randint(0, len(ia))))
    if mode == 3:       # a superset
        extra = wide_indices(rng, dims, 2)
        return sorted(set(ia) | set(extra))
    if mode == 4:       # shifted copy
        g = rng.choice(WIDE_GAPS) * rng.choice([1, -1])
        return sorted({i + g for i in ia if 0 <= i + g < dims})
    return list(ia)


def wide_metric(rng, dims, values):
    kind = rng.randrange(4)
    if kind == 0:
        return [values[0]] * dims
    if kind == 1:
        return [rng.choice(values[:2]) for _ in range(dims)]
    return [rng.choice(values) for _ in range(dims)]


_WIDE_SPACES: dict = {}


def wide_space(dims, metric):
    """the Space of a payload, kept for a while: building the 130 x 130 object matrix and testing
    it for orthogonality costs more than the products under test (the cases of a run share few
    metrics); the Space object itself is immutable"""
    key = (dims, tuple(str(g) for g in metric))
    sp = _WIDE_SPACES.get(key)
    if sp is None:
        if len(_WIDE_SPACES) > 64:
            _WIDE_SPACES.clear()
        sp = _WIDE_SPACES[key] = fspace(dims, [str(g) for g in metric])
    return sp


def compress_positions(dims, used):
    """positions of a space that no index of the case uses, highest first (for shrinking)"""
    return [p for p in range(dims - 1, -1, -1) if p not in used]


def drop_position(idx, p):
    return [i - 1 if i > p else i for i in idx]


def wide_mv_shrink(pl, keys, one):
    """smaller payloads of a wide multivector case: fewer terms, fewer basis vectors per blade,
    unused basis vectors of the space removed (the others renumbered), unit metric"""
    for key in keys:
        for k in list(pl[key]):
            if len(pl[key]) > 1:
                d = dict(pl[key])
                del d[k]
                yield {**pl, key: d}
    for key in keys:
        for k in list(pl[key]):
            for i in blade_list(int(k)):
                k2 = str(int(k) & ~(1 << i))
                if k2 not in pl[key]:
                    yield {**pl, key: {(k2 if kk == k else kk): v for kk, v in pl[key].items()}}
    used = set()
    for key in keys:
        for k in pl[key]:
            used |= set(blade_list(int(k)))
    for p in compress_positions(pl["dims"], used):
        yield {**pl, "dims": pl["dims"] - 1, "metric": pl["metric"][:p] + pl["metric"][p + 1:],
               **{key: {str(bits_of(drop_position(blade_list(int(k)), p))): v
                        for k, v in pl[key].items()} for key in keys}}
    if any(g != one for g in pl["metric"]):
        yield {**pl, "metric": [one] * pl["dims"]}
    for key in keys:
        for k, v in pl[key].items():
            if v != one:
                yield {**pl, key: {**pl[key], k: one}}


class WideBladePairs(BladePairs):
    """pairs of sparse basis blades in spaces with 6 .. 130 basis vectors (every pair of basis
    vectors of one space exhaustively, index distances around every power of two at random), any
    diagonal metric over {1,-1,0,2}: reordering sign = inversion parity, the six blade weights vs
    the list-based multiplication (correspondence: the same `ga-blade` request as the small
    spaces), and the same statements on the real MultiVector objects - basis vectors square to the
    metric entry and anticommute, the six products of the two blades are the grade parts of the
    list-based geometric product, reverse is an anti-automorphism, the inverse of a non-null blade
    times the blade is 1, index tuples in any order denote the signed blade, bit_count = grade"""
    name = "wide-blade-pairs"

    def cases(self, rng, tier):
        # every ordered pair of basis vectors of one wide space (all index distances below dims)
        dims = rng.choice([20, 24, 31, 33] if tier == "quick" else [66, 72, 96])
        metric = wide_metric(rng, dims, METRIC_VALUES)
        for i in range(dims):
            for j in range(dims):
                yield self._case(rng, dims, metric, [i], [j])
        # every pair of basis vectors at a distance around a power of two, widest space
        dims = WIDE_DIMS[-1]
        metric = wide_metric(rng, dims, METRIC_VALUES)
        for g in WIDE_GAPS:
            for lo in sorted(x for x in {0, 1, rng.randrange(dims - g), dims - g - 1} if x + g < dims):
                yield self._case(rng, dims, metric, [lo + g], [lo])
                yield self._case(rng, dims, metric, [lo], [lo + g])
        n = 1500 if tier == "quick" else 30000
        for _ in range(n):
            dims = wide_dims(rng, tier)
            metric = wide_metric(rng, dims, METRIC_VALUES)
            ia = wide_indices(rng, dims)
            ib = wide_partner(rng, dims, ia)
            yield self._case(rng, dims, metric, ia, ib)

    def _weights(self, pl):
        from pymbolic.geometric_algebra import (_GeometricProduct, _InnerProduct,
                                                _LeftContractionProduct, _OuterProduct,
                                                _RightContractionProduct, _ScalarProduct,
                                                canonical_reordering_sign)
        sp = wide_space(pl["dims"], pl["metric"])
        a, b = pl["a"], pl["b"]
        ws = [c.orthogonal_blade_product_weight(a, b, sp) for c in
              (_OuterProduct, _GeometricProduct, _InnerProduct, _LeftContractionProduct,
               _RightContractionProduct, _ScalarProduct)]
        return canonical_reordering_sign(a, b), ws

    @staticmethod
    def _case(rng, dims, metric, ia, ib):
        order = list(ia)
        rng.shuffle(order)
        return {"dims": dims, "metric": list(metric), "a": bits_of(ia), "b": bits_of(ib),
                "ca": str(rand_frac(rng, zero_ok=False)), "cb": str(rand_frac(rng, zero_ok=False)),
                "order": order}

    def oracle(self, pl):  # noqa: C901
        from pymbolic.geometric_algebra import MultiVector, bit_count, canonical_reordering_sign
        a, b, metric, dims = pl["a"], pl["b"], pl["metric"], pl["dims"]
        ia, ib = blade_list(a), blade_list(b)
        where = f"space with {dims} basis vectors, metric {metric}: e{tuple(ia)} and e{tuple(ib)}"
        for x in (a, b):
            if bit_count(x) != len(blade_list(x)):
                return Failure("bit-count", f"bit_count({x}) = {bit_count(x)}, the blade "
                               f"e{tuple(blade_list(x))} has grade {len(blade_list(x))}", pl)
        s = canonical_reordering_sign(a, b)
        if s != inversion_sign(ia, ib):
            return Failure("reorder-sign", f"canonical_reordering_sign({a}, {b}) = {s} but sorting "
                           f"the concatenation of {ia} and {ib} takes an "
                           f"{'odd' if inversion_sign(ia, ib) < 0 else 'even'} number of swaps", pl)
        f = super().oracle(pl)
        if f is not None:
            f.detail = where + ": " + f.detail
            return f
        # the same on the real objects
        sp = wide_space(dims, metric)
        ca, cb = Fraction(pl["ca"]), Fraction(pl["cb"])
        A, B = MultiVector({a: ca}, sp), MultiVector({b: cb}, sp)
        da, db = {a: ca}, {b: cb}

        def coeffs(m):
            return {k: v for k, v in data_of(m).items() if v != 0}
        if len(ia) == 1 and len(ib) == 1:
            e, f_ = MultiVector({a: 1}, sp), MultiVector({b: 1}, sp)
            if a == b:
                g = metric[ia[0]]
                if coeffs(e * e) != ({0: g} if g != 0 else {}):
                    return Failure("basis-square", f"{where}: e{ia[0]}*e{ia[0]} = {e * e!r}, the "
                                   f"metric entry is {g}", pl)
            else:
                if coeffs(e * f_ + f_ * e) or not (e * f_ == -(f_ * e)) or not coeffs(e * f_):
                    return Failure("basis-anticommute", f"{where}: e{ia[0]}*e{ib[0]} = {e * f_!r}, "
                                   f"e{ib[0]}*e{ia[0]} = {f_ * e!r}", pl)
        got = {"geometric": A * B, "outer": A ^ B, "inner": A | B, "lc": A << B, "rc": A >> B}
        for kind, r in got.items():
            want = grade_part_product(da, db, metric, kind)
            if coeffs(r) != want:
                return Failure(f"mv-blade-{kind}", f"{where}: the {kind} product of {A!r} and {B!r} "
                               f"is {r!r}, the grade part of the list-based geometric product "
                               f"is {want}", pl)
            clean = MultiVector(dict(want), sp)
            if not (r == clean) or hash(r) != hash(clean) or bool(r) != bool(want):
                return Failure("result-eq-coeffwise", f"{where}: {kind} product {r!r} vs its "
                               f"non-zero coefficients {clean!r}: ==, hash or bool differ", pl)
        want = grade_part_product(da, db, metric, "scalar").get(0, 0)
        if A.scalar_product(B) != want:
            return Failure("mv-blade-scalar", f"{where}: scalar_product = {A.scalar_product(B)!r}, "
                           f"the scalar part of the list-based geometric product is {want}", pl)
        # reverse: the sign (-1)^(r(r-1)/2) of reversing the factors; an anti-automorphism
        ra = len(ia)
        if coeffs(A.rev()) != {a: ca * (-1) ** (ra * (ra - 1) // 2)}:
            return Failure("rev-sign", f"{where}: rev({A!r}) = {A.rev()!r}", pl)
        if coeffs((A * B).rev()) != coeffs(B.rev() * A.rev()):
            return Failure("rev", f"{where}: rev(A*B) = {(A * B).rev()!r} but rev(B)*rev(A) = "
                           f"{B.rev() * A.rev()!r}", pl)
        if coeffs((A * B).invol()) != coeffs(A.invol() * B.invol()):
            return Failure("invol", f"{where}: invol is not an automorphism on {A!r}, {B!r}", pl)
        # norm_squared and the inverse of a non-null blade
        nsq = ca * ca
        for i in ia:
            nsq *= metric[i]
        if A.norm_squared() != nsq:
            return Failure("norm-squared", f"{where}: norm_squared({A!r}) = {A.norm_squared()!r}, "
                           f"expected {nsq}", pl)
        if nsq != 0:
            try:
                inv = A.inv()
            except (ZeroDivisionError, NotImplementedError) as ex:
                return Failure("blade-inv-refused", f"{where}: inv({A!r}) raises "
                               f"{type(ex).__name__} for a non-null blade", pl)
            if coeffs(inv * A) != {0: 1} or coeffs(A * inv) != {0: 1} or \
                    list_mul(coeffs(inv), da, metric) != {0: 1}:
                return Failure("blade-inv", f"{where}: inv(A)*A = {inv * A!r} for A = {A!r}", pl)
        # index tuples in any order: e_i ^ e_j ^ ... with the sign of the permutation
        order = pl["order"]
        if order:
            T = MultiVector({tuple(order): ca}, sp)
            inv_count = sum(1 for x in range(len(order)) for y in range(x) if order[y] > order[x])
            want = {a: ca * (-1) ** inv_count}
            if coeffs(T) != want:
                return Failure("init-index-tuple", f"{where}: MultiVector({{{tuple(order)}: {ca}}}) "
                               f"= {T!r}, expected {want}", pl)
        return None

    def shrink(self, pl):
        ia, ib = blade_list(pl["a"]), blade_list(pl["b"])
        dims = pl["dims"]

        def mk(ia2, ib2, dims2=None, metric=None):
            return {**pl, "a": bits_of(ia2), "b": bits_of(ib2), "order": sorted(ia2),
                    "dims": dims if dims2 is None else dims2,
                    "metric": pl["metric"] if metric is None else metric}
        for i in ia:
            yield mk([x for x in ia if x != i], ib)
        for i in ib:
            yield mk(ia, [x for x in ib if x != i])
        for p in compress_positions(dims, set(ia) | set(ib)):
            yield mk(drop_position(ia, p), drop_position(ib, p), dims - 1,
                     pl["metric"][:p] + pl["metric"][p + 1:])
        if any(g != 1 for g in pl["metric"]):
            yield {**pl, "metric": [1] * dims}
        for k in ("ca", "cb"):
            if pl[k] != "1":
                yield {**pl, k: "1"}
        if pl["order"] != sorted(pl["order"]):
            yield {**pl, "order": sorted(pl["order"])}

    def nontrivial_key(self, pl, model, impl):
        return f"{pl['dims']} {pl['metric']} {pl['a']} {pl['b']}" if pl["a"] and pl["b"] else None

    def stats(self, pl, mo, io, acc):
        ia, ib = blade_list(pl["a"]), blade_list(pl["b"])
        d = max([i - j for i in ia for j in ib] + [0])      # how far a vector of a moves past b
        bucket = "0" if d == 0 else f"<2^{d.bit_length()}"
        by = acc.setdefault("by_max_index_distance", {})
        by[bucket] = by.get(bucket, 0) + 1


def sparse_terms(rng, dims, maxterms, coef, shared=None):
    """a sparse coefficient dict (bitmap -> coefficient text) of a wide space; terms may be related
    to the blades of `shared` so that products have like terms to collect and cancel"""
    d = {}
    pool = [blade_list(int(k)) for k in (shared or {})]
    for _ in range(rng.randint(0, maxterms)):
        if pool and rng.random() < 0.4:
            idx = wide_partner(rng, dims, rng.choice(pool), 3)
        else:
            idx = wide_indices(rng, dims, 3)
        if len(idx) > 6:
            idx = sorted(rng.sample(idx, 6))
        d[str(bits_of(idx))] = coef()
    return d


class WideMultiVectors(MultiVectors):
    """sparse integer multivectors and triples of sparse blades in spaces with 6 .. 130 basis
    vectors: associativity, bilinearity, reverse / involution (anti-)automorphism, ==/hash/bool
    (the oracle and the `ga-mv` correspondence of `multivectors`)"""
    name = "multivectors-wide"

    def _objs(self, pl):
        sp = wide_space(pl["dims"], pl["metric"])
        return sp, *[make({int(k): v for k, v in pl[x].items()}, sp) for x in "abc"]

    def cases(self, rng, tier):
        coef = lambda: rng.choice([-3, -2, -1, 1, 2, 3])  # noqa: E731
        for _ in range(250 if tier == "quick" else 5000):
            dims = wide_dims(rng, tier)
            metric = wide_metric(rng, dims, METRIC_VALUES)
            a = sparse_terms(rng, dims, 3, coef)
            b = sparse_terms(rng, dims, 3, coef, a)
            c = sparse_terms(rng, dims, 2, coef, b)
            yield {"dims": dims, "metric": metric, "a": a, "b": b, "c": c}
        # triples of blades
        for _ in range(350 if tier == "quick" else 6000):
            dims = wide_dims(rng, tier)
            metric = wide_metric(rng, dims, METRIC_VALUES)
            ia = wide_indices(rng, dims, 3)
            ib = wide_partner(rng, dims, ia, 3)
            ic = wide_partner(rng, dims, rng.choice([ia, ib]), 3)
            yield {"dims": dims, "metric": metric, "a": {str(bits_of(ia)): 1},
                   "b": {str(bits_of(ib)): 1}, "c": {str(bits_of(ic)): 1}}

    def shrink(self, pl):
        return wide_mv_shrink(pl, "abc", 1)


class WideFractionMultiVectors(FractionMultiVectors):
    """sparse Fraction multivectors in spaces with 6 .. 130 basis vectors through EVERY operation
    of the model (`ga-mvq`) and the oracle of `mv-fraction`: dual / dual-dual / pseudoscalar
    square, projections, norm_squared, scalar_product, inverse, quotient, power, ==/hash/bool"""
    name = "mv-fraction-wide"

    def _objs(self, pl):
        sp = wide_space(pl["dims"], pl["metric"])
        return sp, fmake(pl["a"], sp), fmake(pl["b"], sp)

    def cases(self, rng, tier):
        for i in range(150 if tier == "quick" else 3000):
            dims = wide_dims(rng, tier)
            metric = wide_metric(rng, dims, QMETRIC_VALUES)
            coef = lambda: str(rand_frac(rng, zero_ok=rng.random() < 0.05))  # noqa: E731
            nz = lambda: str(rand_frac(rng, zero_ok=False))  # noqa: E731
            kind = i % 4
            if kind == 0:       # a vector with far-apart components: inv returns
                a = {str(1 << j): nz() for j in wide_indices(rng, dims, 4)} or {"1": "1"}
            elif kind == 1:     # a basis blade
                a = {str(bits_of(wide_indices(rng, dims, 5))): nz()}
            else:
                a = sparse_terms(rng, dims, 3, coef)
            if kind == 2:
                b = {str(bits_of(wide_partner(rng, dims, blade_list(int(next(iter(a), "0"))), 4))): nz()}
            else:
                b = sparse_terms(rng, dims, 3, coef, a)
            grades = [grade(int(k)) for k in a] + [0, 1]
            yield {"dims": dims, "metric": metric, "a": a, "b": b, "n": rng.choice([-1, 0, 1, 2, 3]),
                   "r": rng.choice(grades)}

    def shrink(self, pl):
        yield from wide_mv_shrink(pl, "ab", "1")
        if pl["n"] > 2:
            yield {**pl, "n": pl["n"] - 1}

# }}}


class Perms(Stream):
    name = "permutation-signs"

    def cases(self, rng, tier):
        for n in range(0, 5 if tier == "quick" else 7):
            for p in itertools.permutations(range(n)):
                yield {"what": "permsign", "p": list(p)}
        for n in range(0, 4):
            for p in itertools.permutations(range(4), n):
                yield {"what": "bitsandsign", "p": list(p)}
        yield {"what": "permsign", "p": [1, 0, 3]}

    def request(self, pl):
        return f"(ga-{pl['what']} ({' '.join(map(str, pl['p']))}))"

    def run_impl(self, pl):
        from pymbolic.geometric_algebra import Space, permutation_sign
        if pl["what"] == "permsign":
            try:
                return str(permutation_sign(pl["p"]))
            except IndexError:
                return "IndexError"
        b, s = Space(4).bits_and_sign(tuple(pl["p"]))
        return f"({b} {s})"

    def oracle(self, pl):
        if pl["what"] != "permsign" or sorted(pl["p"]) != list(range(len(pl["p"]))):
            return None
        from pymbolic.geometric_algebra import permutation_sign
        p = pl["p"]
        inv = sum(1 for i in range(len(p)) for j in range(i) if p[j] > p[i])
        want = -1 if inv % 2 else 1
        if permutation_sign(p) != want:
            return Failure("permutation-sign", f"{p}: {permutation_sign(p)} vs inversion parity {want}", pl)
        return None


def probes():
    from pymbolic.geometric_algebra import MultiVector, Space
    sp = Space(2)
    e0 = MultiVector({1: 1}, sp)
    z = e0 - e0
    res = [("mv-scalar-zero-stored", (not (z == 0)) or bool(MultiVector(0, sp)),
            "(e0 - e0) == 0 is False and bool(MultiVector(0)) is True: a scalar zero is stored as "
            "{0: 0} while arithmetic prunes zeros")]
    from fractions import Fraction as F
    sp3 = Space(3)
    f0, f1, f2 = (MultiVector({1 << i: F(1)}, sp3) for i in range(3))
    blade = (f0 + f1) ^ f2
    try:
        ok = (blade.inv() * blade) == 1
        refused = not ok
    except NotImplementedError:
        refused = True
    res.append(("inv-nonbasis-blade-refused", refused,
                "((e0 + e1) ^ e2).inv() raises NotImplementedError('division by non-blades') although "
                "the operand is a non-null 2-blade with inverse rev(B)/|B|^2"))
    return res


def extract(ctx=None):
    """T-gen: regenerate lean/PV/Generated/GATable.lean (the translated functions, classes and
    pinned definitions of pymbolic/geometric_algebra/__init__.py) from the tree under test"""
    from extract.geometric_algebra import extract_geometric_algebra
    return extract_geometric_algebra(ctx)


PROP = Prop(
    id="C18",
    title="Multivectors obey the axioms of geometric (Clifford) algebra",
    lean_targets=["PV.Properties.C18", "PV.Properties.C18Table"],
    theorems=[],
    extractors=[extract],
    streams=[BladePairs(), MultiVectors(), FractionMultiVectors(), Z6MultiVectors(), Perms(),
             TableRun(), ScalarOperands(), WideBladePairs(), WideMultiVectors(),
             WideFractionMultiVectors()],
    probes=[probes],
    trusted_base=["Lean 4.33 kernel; axioms propext, Classical.choice, Quot.sound only",
                  "extract/geometric_algebra.py (ast reader of pymbolic/geometric_algebra/__init__.py; "
                  "unknown shapes are errors) and the meaning of the table language "
                  "(PV/Model/GATable.lean: builtins, int/coefficient arithmetic, Space attributes) — "
                  "tied by the table-run stream: compiled interpreter on the regenerated table vs the "
                  "real functions",
                  "harness/props/c18.py (line protocol, list-based blade multiplication oracle)",
                  "the multivector model is generic in the coefficient type and proved for every "
                  "commutative ring; the driver runs its Int, Rat (= Fraction) and Fin 6 (= Z/6) "
                  "instances; floats and pymbolic expressions as coefficients are not run"],
    level_text='Lean theorems for ALL bitmaps (hence all dimensions, beyond the 0-5 of the property), all diagonal metrics and coefficients in ANY commutative ring with decidable equality (integers, exact rationals, polynomial rings, Z/n): the reordering sign is the inversion parity and satisfies the cocycle identity, metric weights satisfy theirs, hence the geometric and outer products of arbitrary multivectors are associative and bilinear (under Python == of the pruned dictionaries); basis vectors square to the metric and anticommute; the five other products are the stated grade parts; rev is an anti-automorphism, invol an automorphism; norm_squared is the scalar part of rev(A)*A = sum of (metric of the factors) c^2; inv returns exactly on one-item dicts and on vectors with non-zero norm^2 and is then a two-sided inverse (A.inv()*A == 1 over a field), (A/B)*B = A; dual is linear, dual(dual A) = (-1)^(n(n-1)/2) det(g) A, I*I likewise; grade projections are idempotent, orthogonal, linear and sum to the identity; gen_blades, as_scalar, xproject; A**n is the n-fold product (the dicts modulo equal formal sums form a monoid); == , bool and hash are coefficient-wise on pruned data. Which zero test is needed is stated exactly: coefficient-level facts need a sound is_zero only, representation-level facts (==, bool, hash) a complete one. The model mirrors the code loop by loop and is tied by exhaustive blade pairs in dims 0-4 x metrics, random integer multivectors, Fraction multivectors through every operation, and multivectors over Z/6.',
    level_note='Trusted: Lean kernel; harness. Not covered by a theorem: float coefficients (close_to, zap_near_zeros, __abs__), pymbolic expressions as coefficients (their == is structural, is_zero incomplete: only the coefficient-level "sound zero test" theorems apply), non-diagonal metrics (the code raises NotImplementedError for all products but the outer one), numpy-array constructor beyond ofVector, stringification, map/componentwise.',
    technique='Lean 4 proofs (bit-parity bilinearity, cocycle, finitely-supported-function refinement of the dict product over any commutative ring, quotient monoid for **) + exhaustive blade-pair correspondence + exact Fraction / Z6 correspondence of every operation + list-based blade multiplication oracle',
    design_ref="DESIGN.md §4 C18",
)
