"""C04 — mapper dispatch and the stock traversals reach every node correctly."""
from __future__ import annotations

import itertools
import warnings

import pymbolic.primitives as p

from ..core import Failure, Prop, Stream
from ..gen import ExprGen, node_types, size
from ..oracles import scan
from ..sexp import A, dumps, exc_to_sx, expr_to_sx, loads, q, sx_shrinks, sx_to_expr

EXTRA_ARGS = (7,)
EXTRA_KW = {"flag": "k"}


def err_sx(ex):
    from pymbolic.mapper import UnsupportedExpressionError
    if isinstance(ex, (UnsupportedExpressionError, NotImplementedError)):
        return "(err Unsupported)"
    if isinstance(ex, ValueError) and "foreign" in str(ex):
        return "(err Foreign)"
    if isinstance(ex, TypeError):
        return "(err TypeError)"
    return f"(err {type(ex).__name__})"


# {{{ traversal streams

def make_walker(skip, log, cached=False):
    from pymbolic.mapper import CachedWalkMapper, WalkMapper
    base = CachedWalkMapper if cached else WalkMapper

    class W(base):
        def visit(self, expr, *args, **kwargs):
            log.append(("visit", expr, args == EXTRA_ARGS and kwargs == EXTRA_KW))
            return type(expr).__name__ not in skip

        def post_visit(self, expr, *args, **kwargs):
            log.append(("post", expr, args == EXTRA_ARGS and kwargs == EXTRA_KW))
    return W()


class WalkStream(Stream):
    """visit / post_visit event trace of an instrumented WalkMapper subclass"""
    name = "walk"

    def cases(self, rng, tier):
        n = 1500 if tier == "quick" else 30000
        g = ExprGen(rng, cse=0.1, floats=0.02)
        kinds = ["Sum", "Product", "Call", "CallWithKwargs", "Subscript", "If", "Slice",
                 "CommonSubexpression", "Substitution", "Power", "tuple", "Comparison", "Variable"]
        for i in range(n):
            e = g.gen(rng.choice(["num", "any", "bool", "int"]), rng.randint(1, 5))
            skip = rng.sample(kinds, rng.choice([0, 0, 1, 2]))
            yield {"expr": dumps(expr_to_sx(e)), "skip": skip, "args": bool(i % 2)}
        x = p.Variable("x")
        special = [p.Slice((x,)), p.Slice((x, None, p.Variable("s"))), p.Slice(()), p.Slice((None, x)),
                   p.Substitution(x + 1, ("x",), (p.Variable("y"),)), p.Derivative(x * x, ("x",)),
                   p.LeftShift(x, p.Variable("n")), p.CallWithKwargs(x, (1,), {"b": 2, "a": 3})]
        for e in special:
            for args in (False, True):
                yield {"expr": dumps(expr_to_sx(e)), "skip": [], "args": args}

    def request(self, pl):
        sk = " ".join(q(s) for s in pl["skip"])
        return f"(walk ({sk}) {'true' if pl['args'] else 'false'} {pl['expr']})"

    def _run(self, pl):
        e = sx_to_expr(loads(pl["expr"]))
        log = []
        w = make_walker(set(pl["skip"]), log)
        if pl["args"]:
            w(e, *EXTRA_ARGS, **EXTRA_KW)
        else:
            w(e)
        return e, log

    def run_impl(self, pl):
        try:
            e, log = self._run(pl)
        except RecursionError:
            raise
        except Exception as ex:
            return err_sx(ex)
        want_args = pl["args"]
        out = []
        for kind, node, got_args in log:
            ok = got_args if want_args else True
            flag = "true" if (want_args and ok) else "false"
            out.append(f"({kind} {dumps(expr_to_sx(node))} {flag})")
        return "(" + " ".join(out) + ")"

    def oracle(self, pl):
        """independent statement: pre-order visit / post-order post_visit of every node
        occurrence exactly once, children skipped where visit returned False, args unchanged"""
        try:
            e, log = self._run(pl)
        except Exception:
            return None
        skip = set(pl["skip"])
        want = []

        def rec(n):
            want.append(("visit", n))
            leaf = not isinstance(n, (p.Expression, tuple, list)) or isinstance(
                n, (p.Variable, p.Wildcard, p.DotWildcard, p.StarWildcard, p.FunctionSymbol, p.NaN))
            if type(n).__name__ in skip and not leaf:
                return
            for c in scan.children(n):
                rec(c)
            want.append(("post", n))
        rec(e)

        def norm(seq):
            # order among siblings is not part of the property: compare as nested multisets by
            # checking counts per (kind, node identity) and the bracket structure
            return sorted((k, id(n)) for k, n in seq)
        got = [(k, n) for k, n, _a in log]
        if norm(got) != norm(want):
            from collections import Counter
            cg = Counter((k, type(n).__name__) for k, n in got)
            cw = Counter((k, type(n).__name__) for k, n in want)
            diff = {k: (cg[k], cw[k]) for k in set(cg) | set(cw) if cg[k] != cw[k]}
            worst = sorted(diff)[0] if diff else ("?", "?")
            return Failure(f"walk-occurrences:{worst[1]}", f"event counts (got, expected) differ: {diff}", pl)
        # every visit of a node precedes the events of its descendants, post_visit follows them
        pos = {}
        for i, (k, n) in enumerate(got):
            pos.setdefault((k, id(n)), []).append(i)
        if pl["args"] and not all(a for _k, _n, a in log):
            bad = next(type(n).__name__ for _k, n, a in log if not a)
            return Failure(f"walk-args-dropped:{bad}", "extra arguments not passed through", pl)
        return None

    def shrink(self, pl):
        for s in sx_shrinks(loads(pl["expr"])):
            yield {**pl, "expr": dumps(s)}

    def nontrivial_key(self, pl, model, impl):
        return pl["expr"] + str(pl["skip"]) if size(sx_to_expr(loads(pl["expr"]))) >= 3 else None

    def stats(self, pl, mo, io, acc):
        nt = acc.setdefault("node_types", {})
        for k, v in node_types(sx_to_expr(loads(pl["expr"]))).items():
            nt[k] = nt.get(k, 0) + v


def make_combiner():
    from pymbolic.mapper import CombineMapper
    seen_args = []

    class C(CombineMapper):
        def combine(self, values):
            out = []
            for v in values:
                out.extend(v)
            return out

        def leaf(self, expr, *args, **kwargs):
            seen_args.append(args == EXTRA_ARGS and kwargs == EXTRA_KW)
            return [expr]
        map_constant = leaf
        map_variable = leaf
        map_wildcard = leaf
        map_dot_wildcard = leaf
        map_star_wildcard = leaf
        map_function_symbol = leaf
    return C(), seen_args


def make_renamer():
    from pymbolic.mapper import IdentityMapper

    class Renamer(IdentityMapper):
        def map_variable(self, expr, *args, **kwargs):
            if expr.name in ("x", "y"):
                return p.Variable(expr.name + "_r")
            return expr
    return Renamer()


class CombineStream(Stream):
    """CombineMapper with list concatenation: which leaves are folded in, in which order"""
    name = "combine"

    def cases(self, rng, tier):
        n = 1200 if tier == "quick" else 20000
        g = ExprGen(rng, cse=0.1, floats=0.02)
        for i in range(n):
            e = g.gen(rng.choice(["num", "any", "bool", "int"]), rng.randint(1, 5))
            yield {"expr": dumps(expr_to_sx(e)), "what": "combine"}
        g3 = ExprGen(rng, cse=0.05, floats=0.0, foreign=False)
        for i in range(n // 2):
            e = g3.gen(rng.choice(["num", "any", "any", "bool"]), rng.randint(1, 5))
            yield {"expr": dumps(expr_to_sx(e)), "what": "rename"}
        g2 = ExprGen(rng, cse=0.1, floats=0.02, foreign=False)
        for i in range(n // 2):
            e = g2.gen(rng.choice(["num", "any", "bool", "int"]), rng.randint(1, 5))
            yield {"expr": dumps(expr_to_sx(e)), "what": "identity"}

    def request(self, pl):
        if pl["what"] == "identity":
            return f"(subst () {pl['expr']})"
        if pl["what"] == "rename":
            return f'(subst ((name "x" (Var "x_r")) (name "y" (Var "y_r"))) {pl["expr"]})'
        return f"(combine {pl['expr']})"

    def run_impl(self, pl):
        e = sx_to_expr(loads(pl["expr"]))
        try:
            if pl["what"] == "identity":
                from pymbolic.mapper import IdentityMapper
                r = IdentityMapper()(e)
                return f"({dumps(expr_to_sx(r))} {'false' if r is e else 'true'})"
            if pl["what"] == "rename":
                r = make_renamer()(e)
                return f"({dumps(expr_to_sx(r))} {'false' if r is e else 'true'})"
            m, _ = make_combiner()
            r = m(e, *EXTRA_ARGS, **EXTRA_KW)
        except RecursionError:
            raise
        except Exception as ex:
            return err_sx(ex)
        return "(" + " ".join(dumps(expr_to_sx(x)) for x in r) + ")"

    def oracle(self, pl):
        e = sx_to_expr(loads(pl["expr"]))
        if pl["what"] == "rename":
            # a leaf-rewriting identity mapper rebuilds exactly along the changed paths: the result
            # is the tree with the leaves renamed (independent reference: textual renaming of the
            # serialised tree)
            try:
                r = make_renamer()(e)
            except Exception:
                return None
            want = pl["expr"].replace('(Var "x")', '(Var "x_r")').replace('(Var "y")', '(Var "y_r")')
            zero_cse = any(isinstance(s_, p.CommonSubexpression) and p.is_zero(s_.child)
                           for s_ in scan.subterms(e))
            try:
                got = dumps(expr_to_sx(r))
            except Exception:
                return None
            if got != want and not zero_cse:
                return Failure("identity-rewrite-lost", f"renaming leaves of {e!r} gives {r!r}", pl)
            return None
        if pl["what"] == "identity":
            from pymbolic.mapper import IdentityMapper
            try:
                r = IdentityMapper()(e)
            except Exception:
                return None
            has_list = any(isinstance(s, list) for s in scan.subterms(e))
            zero_cse = any(isinstance(s, p.CommonSubexpression) and p.is_zero(s.child)
                           for s in scan.subterms(e))
            try:
                equal = (r == e)
            except Exception:
                equal = True
            if not equal:
                key = "identity-cse-zero-collapses" if zero_cse else "identity-not-equal"
                return Failure(key, f"IdentityMapper()({e!r}) = {r!r}", pl)
            if r is not e and not has_list:
                key = "identity-cse-zero-collapses" if zero_cse else "identity-not-same-object"
                return Failure(key, "nothing changed below but a new object was returned", pl)
            return None
        m, seen = make_combiner()
        try:
            r = m(e, *EXTRA_ARGS, **EXTRA_KW)
        except Exception:
            return None
        # every leaf occurrence folded in exactly once (lookup names etc. are not leaves)
        def leaves(n):
            ch = scan.children(n)
            if not ch and not isinstance(n, (tuple, list)) and not (
                    isinstance(n, p.Expression) and not isinstance(
                        n, (p.Variable, p.Wildcard, p.DotWildcard, p.StarWildcard, p.FunctionSymbol))):
                return [n]
            out = []
            for c in ch:
                out.extend(leaves(c))
            return out
        want = leaves(e)
        if sorted(map(id, want)) != sorted(map(id, r)):
            return Failure("combine-misses-child", f"folded {len(r)} leaves, tree has {len(want)}", pl)
        if not all(seen):
            return Failure("combine-args-dropped", "extra arguments not passed through", pl)
        return None

    def shrink(self, pl):
        for s in sx_shrinks(loads(pl["expr"])):
            yield {**pl, "expr": dumps(s)}

    def nontrivial_key(self, pl, model, impl):
        return pl["what"] + pl["expr"] if not impl.startswith("(err") else None

    def stats(self, pl, mo, io, acc):
        acc[pl["what"]] = acc.get(pl["what"], 0) + 1
        if io.startswith("(err"):
            acc["raised"] = acc.get("raised", 0) + 1


class FieldsStream(Stream):
    """the dataclass fields of a node (name, what the DECLARED type says it holds, the expressions
    in it) as the real object has them vs. as the model reads the wire format — the reading the
    table-driven traversal theorems (`*_table_step_current`) rest on"""
    name = "fields"

    def cases(self, rng, tier):
        n = 500 if tier == "quick" else 8000
        g = ExprGen(rng, cse=0.15, floats=0.02)
        seen = set()
        for i in range(n):
            e = g.gen(rng.choice(["num", "any", "bool", "int"]), rng.randint(1, 4))
            for t in scan.subterms(e):
                if isinstance(t, p.Expression):
                    try:
                        k = dumps(expr_to_sx(t))
                    except Exception:
                        continue
                    if k not in seen and len(k) < 400:
                        seen.add(k)
                        yield {"expr": k}
        x, y = p.Variable("x"), p.Variable("y")
        special = [p.Slice((x,)), p.Slice((x, None, y)), p.Slice(()), p.Substitution(x + 1, ("x",), (y,)),
                   p.Derivative(x * x, ("x", "y")), p.LeftShift(x, y), p.RightShift(x, 2),
                   p.CallWithKwargs(x, (1,), {"b": 2, "a": y}), p.Call(x, ()), p.Power(x, y),
                   p.Quotient(x, y), p.FloorDiv(x, y), p.Remainder(x, y), p.Comparison(x, "<", y),
                   p.If(x, y, 1), p.Lookup(x, "a"), p.Subscript(x, y), p.NaN(), p.Wildcard(),
                   p.DotWildcard("w"), p.StarWildcard("w"), p.FunctionSymbol(),
                   p.CommonSubexpression(x, "pre", "scope"), p.CommonSubexpression(x),
                   p.Min((x, y)), p.Max((x,)), p.BitwiseNot(x), p.LogicalNot(x),
                   p.BitwiseOr((x, y)), p.BitwiseXor((x, y)), p.BitwiseAnd((x, y)),
                   p.LogicalOr((x, y)), p.LogicalAnd((x, y)), p.Sum((x, y)), p.Product((x, y))]
        for e in special:
            yield {"expr": dumps(expr_to_sx(e))}

    def request(self, pl):
        return f"(c04fields {pl['expr']})"

    def run_impl(self, pl):
        import dataclasses
        from collections.abc import Mapping
        from extract.traversal import field_kind
        e = sx_to_expr(loads(pl["expr"]))
        out = []
        for f in dataclasses.fields(e):
            v = getattr(e, f.name)
            kind = field_kind(type(e), f)
            if kind == "one":
                ch = [v]
            elif kind == "many":
                if not isinstance(v, tuple):
                    return f"(err field-not-a-tuple {f.name})"
                ch = list(v)
            elif kind == "dict":
                if not isinstance(v, Mapping):
                    return f"(err field-not-a-mapping {f.name})"
                ch = list(v.values())
            else:
                ch = []
            out.append("(" + " ".join([q(f.name), kind] + [dumps(expr_to_sx(c)) for c in ch]) + ")")
        return "(" + " ".join(out) + ")"

    def nontrivial_key(self, pl, model, impl):
        return pl["expr"]

    def stats(self, pl, mo, io, acc):
        k = loads(pl["expr"])[0]
        acc[str(k)] = acc.get(str(k), 0) + 1


class CallbackStream(Stream):
    """`CallbackMapper(function, IdentityMapper())` with a `function` that logs its calls and
    answers `mapper.fallback_mapper(expr, *args, **kwargs)`: which nodes reach `function`, in
    which order, with which extra arguments — or which error ends the traversal"""
    name = "callback"

    def cases(self, rng, tier):
        n = 700 if tier == "quick" else 12000
        g = ExprGen(rng, cse=0.1, floats=0.02)
        for i in range(n):
            e = g.gen(rng.choice(["num", "any", "bool", "int"]), rng.randint(1, 4))
            yield {"expr": dumps(expr_to_sx(e)), "args": bool(i % 2)}
        x, y = p.Variable("x"), p.Variable("y")
        special = [p.Wildcard(), p.DotWildcard("w"), p.StarWildcard("w"), p.NaN(), p.FunctionSymbol(),
                   p.Min((x, y)), p.Max((x, y)), p.Slice((x,)), p.Derivative(x, ("x",)),
                   p.Substitution(x, ("x",), (y,)), p.CallWithKwargs(x, (1,), {"a": y}),
                   p.Call(x, (y, 1)), p.Sum((x, p.Min((y,)))), (x, [y, 1]), [x, (y,)],
                   p.LeftShift(x, y), p.If(x, y, 1), p.CommonSubexpression(p.Sum((x, 0))),
                   p.Lookup(p.Subscript(x, y), "a"), p.Comparison(x, "<", y), p.Power(x, 2),
                   p.LogicalNot(x), p.BitwiseXor((x, y)), 3, True, 2.5, None]
        for e in special:
            for args in (False, True):
                yield {"expr": dumps(expr_to_sx(e)), "args": args}

    def request(self, pl):
        return f"(c04callback {'true' if pl['args'] else 'false'} {pl['expr']})"

    def _run(self, pl):
        from pymbolic.mapper import CallbackMapper, IdentityMapper
        e = sx_to_expr(loads(pl["expr"]))
        log = []

        def function(expr, mapper, *args, **kwargs):
            log.append((expr, args == EXTRA_ARGS and kwargs == EXTRA_KW))
            return mapper.fallback_mapper(expr, *args, **kwargs)
        cb = CallbackMapper(function, IdentityMapper())
        if pl["args"]:
            cb(e, *EXTRA_ARGS, **EXTRA_KW)
        else:
            cb(e)
        return e, log

    def run_impl(self, pl):
        try:
            e, log = self._run(pl)
        except RecursionError:
            raise
        except Exception as ex:
            return err_sx(ex)
        want = pl["args"]
        return "(" + " ".join(
            f"({dumps(expr_to_sx(n))} {'true' if (want and got) else 'false'})" for n, got in log) + ")"

    def oracle(self, pl):
        """extra arguments reach `function` unchanged at every node (the property's last clause)"""
        try:
            e, log = self._run(pl)
        except Exception:
            return None
        if pl["args"] and not all(a for _n, a in log):
            bad = next(type(n).__name__ for n, a in log if not a)
            return Failure(f"callback-args-dropped:{bad}", "extra arguments not passed through", pl)
        return None

    def shrink(self, pl):
        for s_ in sx_shrinks(loads(pl["expr"])):
            yield {**pl, "expr": dumps(s_)}

    def nontrivial_key(self, pl, model, impl):
        return pl["expr"] + str(pl["args"])

    def stats(self, pl, mo, io, acc):
        acc["raised" if io.startswith("(err") else "traced"] = \
            acc.get("raised" if io.startswith("(err") else "traced", 0) + 1

# }}}


# {{{ dispatch

def build_chain(chain):
    """chain: base-first list of (name, how, own_method|None); returns the most derived class"""
    warnings.simplefilter("ignore")
    parent = p.Expression
    for name, how, own in chain:
        body = {}
        if own is not None:
            body["mapper_method"] = own
        if how == "legacy":
            body["__getinitargs__"] = lambda self: ()
            body["init_arg_names"] = ()
            cls = type(name, (parent,), body)
        else:
            body["__annotations__"] = {}
            cls = p.expr_dataclass()(type(name, (parent,), body))
        parent = cls
    return parent


def chain_req(chain):
    return "(" + " ".join(f"({q(n)} {h} {q(o) if o else 'nil'})" for n, h, o in chain) + ")"


class DispatchStream(Stream):
    """all class hierarchies of <= 3 user node classes (decorated / legacy, with / without an own
    mapper_method) x subsets of handlers x the three copies of the dispatch logic"""
    name = "dispatch"

    def cases(self, rng, tier):
        names = ["NodeA", "MidNodeB", "LeafC"]
        options = [("decorated", None), ("decorated", "map_own"), ("legacy", None), ("legacy", "map_own")]
        for depth in (1, 2, 3):
            for combo in itertools.product(options, repeat=depth):
                chain = [[names[i], how, (None if own is None else f"{own}{i}")]
                         for i, (how, own) in enumerate(combo)]
                # candidate handler names: every effective name in the chain
                cand = sorted({f"map_own{i}" for i in range(depth)}
                              | {"map_node_a", "map_mid_node_b", "map_leaf_c"})
                subsets = [[]] + [[c] for c in cand] + [list(s) for s in itertools.combinations(cand, 2)]
                if tier == "quick" and depth == 3:
                    subsets = rng.sample(subsets, 6)
                for hs in subsets:
                    for variant in ("call", "fallback", "cached"):
                        yield {"chain": chain, "handlers": hs, "variant": variant}

    def request(self, pl):
        hs = " ".join(q(h) for h in pl["handlers"])
        return f"(dispatch {pl['variant']} {chain_req(pl['chain'])} ({hs}))"

    def _run(self, pl):
        from pymbolic.mapper import CachedMapper, Mapper
        cls = build_chain([tuple(c) for c in pl["chain"]])
        base = CachedMapper if pl["variant"] == "cached" else Mapper
        body = {}
        for h in pl["handlers"]:
            body[h] = (lambda name: lambda self, expr, *a, **k: ("handler", name))(h)
        body["handle_unsupported_expression"] = lambda self, expr, *a, **k: ("unsupported",)
        M = type("M", (base,), body)
        obj = cls()
        m = M()
        r = m.rec_fallback(obj) if pl["variant"] == "fallback" else m(obj)
        mro = [getattr(c, "mapper_method", None) for c in type(obj).__mro__
               if c is not object]
        return r, mro

    def run_impl(self, pl):
        try:
            r, mro = self._run(pl)
        except Exception as ex:
            return err_sx(ex)
        res = f'(handler {q(r[1])})' if r[0] == "handler" else "unsupported"
        ms = " ".join(q(m) if m else "nil" for m in mro)
        return f"({res} ({ms}))"

    def oracle(self, pl):
        try:
            r, mro = self._run(pl)
        except Exception as ex:
            return Failure("dispatch-raises", repr(ex), pl)
        hs = set(pl["handlers"])
        # the property: own class's handler, else nearest ancestor's that the mapper implements
        start = 1 if pl["variant"] == "fallback" else 0
        want = ("unsupported",)
        for m in mro[start:]:
            if m and m in hs:
                want = ("handler", m)
                break
        if r != want:
            return Failure("dispatch-nearest-ancestor", f"got {r}, nearest implemented is {want}; mro {mro}", pl)
        # decorated classes without an own name get the derived one
        for (name, how, own), eff in zip(pl["chain"], reversed(mro[:len(pl["chain"])])):
            if how == "decorated" and own is None and eff != "map_" + snake(name):
                return Failure("derived-handler-name", f"{name}: {eff}", pl)
            if own is not None and eff != own:
                return Failure("own-handler-name-replaced", f"{name}: {eff} instead of {own}", pl)
        return None

    def nontrivial_key(self, pl, model, impl):
        import json
        return json.dumps([pl["chain"], pl["handlers"], pl["variant"]])

    def stats(self, pl, mo, io, acc):
        acc[pl["variant"]] = acc.get(pl["variant"], 0) + 1


def snake(name):
    out = []
    for i, c in enumerate(name):
        prev = name[i - 1] if i else ""
        nxt = name[i + 1] if i + 1 < len(name) else ""
        if prev and c.isascii() and c.isupper() and (
                ("a" <= prev <= "z") or ("A" <= prev <= "Z" and "a" <= nxt <= "z")):
            out.append("_")
        out.append(c)
    return "".join(out).lower()


class NamesStream(Stream):
    """CamelCase -> map_snake_case for all class names over a small alphabet, and the routing of
    foreign objects"""
    name = "handler-names"

    def cases(self, rng, tier):
        alphabet = "AbCd1_"
        maxlen = 4 if tier == "quick" else 5
        for n in range(1, maxlen + 1):
            for t in itertools.product(alphabet, repeat=n):
                s = "".join(t)
                if s[0].isdigit():
                    continue
                yield {"what": "camel", "name": s}
        for s in ["CallWithKwargs", "HTTPServer", "XMLHttpRequest", "ABC", "aB", "A1B", "FooBARBaz", "x"]:
            yield {"what": "camel", "name": s}
        for k in ["number", "bool", "float", "numpy", "list", "tuple", "str", "none", "dict"]:
            yield {"what": "foreign", "name": k}

    def request(self, pl):
        if pl["what"] == "camel":
            return f"(camel {q(pl['name'])})"
        kind = {"bool": "number", "float": "number", "str": "other", "none": "other",
                "dict": "other"}.get(pl["name"], pl["name"])
        return f"(foreign {kind})"

    def run_impl(self, pl):
        warnings.simplefilter("ignore")
        if pl["what"] == "camel":
            try:
                cls = p.expr_dataclass()(type(pl["name"], (p.Expression,), {"__annotations__": {}}))
            except Exception as ex:
                return err_sx(ex)
            return q(cls.mapper_method[len("map_"):])
        from pymbolic.mapper import Mapper
        import numpy as np

        class M(Mapper):
            def map_constant(self, e):
                return '(foreign "map_constant")'

            def map_list(self, e):
                return '(foreign "map_list")'

            def map_tuple(self, e):
                return '(foreign "map_tuple")'

            def map_numpy_array(self, e):
                return '(foreign "map_numpy_array")'
        obj = {"number": 3, "bool": True, "float": 2.5, "numpy": np.zeros(2), "list": [1], "tuple": (1,),
               "str": "s", "none": None, "dict": {}}[pl["name"]]
        try:
            return M()(obj)
        except ValueError:
            return "invalid-foreign"
        except Exception as ex:
            return err_sx(ex)

    def oracle(self, pl):
        if pl["what"] == "camel":
            got = self.run_impl(pl)
            if got != q(snake(pl["name"])):
                return Failure("handler-name-derivation", f"{pl['name']} -> {got}", pl)
        return None

    def nontrivial_key(self, pl, model, impl):
        return pl["what"] + pl["name"]


def probes():
    """defects repaired by fix: commits + the default unsupported hook raises"""
    from pymbolic.mapper import Mapper, UnsupportedExpressionError
    res = []
    x = p.Variable("x")
    log = []
    make_walker(set(), log)(p.Slice((x,)))
    res.append(("walk-slice-child-twice", sum(1 for k, n, _ in log if k == "visit" and n is x) != 1,
                "WalkMapper on Slice((x,)) must visit x once"))
    log = []
    make_walker(set(), log)(p.Substitution(x, ("x",), (1,)), *EXTRA_ARGS, **EXTRA_KW)
    res.append(("walk-substitution-drops-args", not all(a for _k, _n, a in log),
                "WalkMapper.map_substitution must pass extra arguments to visit"))

    class Unk(p.Expression):
        def __getinitargs__(self):
            return ()
        mapper_method = "map_nothing_implements_this"
    try:
        Mapper()(Unk())
        bad = True
    except UnsupportedExpressionError:
        bad = False
    except Exception:
        bad = True
    res.append(("unsupported-not-raised", bad, "a node type without handler must raise UnsupportedExpressionError"))
    return res


def extract(ctx=None):
    """T-gen: the handler shapes of WalkMapper / IdentityMapper / CombineMapper, the node classes
    and the SubstitutionMapper hooks, regenerated from the live source of the tree under test"""
    from extract.traversal import extract_traversal
    return extract_traversal(ctx)


PROP = Prop(
    id="C04",
    title="Mapper dispatch and the stock traversals reach every node correctly",
    lean_targets=["PV.Properties.C04"],
    extractors=[extract],
    streams=[WalkStream(), CombineStream(), DispatchStream(), NamesStream(), FieldsStream(),
             CallbackStream()],
    probes=[probes],
    trusted_base=["Lean 4.33 kernel; axioms propext, Classical.choice, Quot.sound only",
                  "harness/props/c04.py (instrumented mapper subclasses, dynamic class hierarchies)",
                  "extract/traversal.py (ast reader of the map_* handlers; unknown shapes are errors)"],
    design_ref="DESIGN.md §4 C04",
)
